(* Generic driver: each input line is "<runner> <sx>", each output line is an sx.
   sx syntax: integers (decimal, optional '-') and parenthesised lists separated by spaces. *)
open Model

let rec pos_of_int n = if n = 1 then XH else if n land 1 = 0 then XO (pos_of_int (n lsr 1)) else XI (pos_of_int (n lsr 1))
let z_of_small n = if n = 0 then Z0 else if n > 0 then Zpos (pos_of_int n) else Zneg (pos_of_int (-n))
let z10 = z_of_small 10
let big = z_of_small 1000000000000000000

(* decimal string -> Z (arbitrary size), 18 digits at a time *)
let z_of_string s =
  let neg = String.length s > 0 && s.[0] = '-' in
  let s = if neg then String.sub s 1 (String.length s - 1) else s in
  let n = String.length s in
  let z =
    if n <= 18 then z_of_small (int_of_string s)
    else begin
      let acc = ref Z0 and i = ref 0 in
      let first = n mod 18 in
      if first > 0 then (acc := z_of_small (int_of_string (String.sub s 0 first)); i := first);
      while !i < n do
        acc := Z.add (Z.mul !acc big) (z_of_small (int_of_string (String.sub s !i 18)));
        i := !i + 18
      done; !acc end in
  if neg then Z.opp z else z

let rec bits_of_pos p acc = match p with
  | XH -> '1' :: acc
  | XO q -> bits_of_pos q ('0' :: acc)
  | XI q -> bits_of_pos q ('1' :: acc)

let string_of_pos p =
  let l = bits_of_pos p [] in
  let n = List.length l in
  if n <= 60 then string_of_int (List.fold_left (fun a c -> 2 * a + (if c = '1' then 1 else 0)) 0 l)
  else "0b" ^ String.init n (List.nth l)

let string_of_z = function
  | Z0 -> "0" | Zpos p -> string_of_pos p | Zneg p -> "-" ^ string_of_pos p

let parse (s : string) : sx =
  let n = String.length s in
  let pos = ref 0 in
  let rec skip () = if !pos < n && (s.[!pos] = ' ' || s.[!pos] = '\t') then (incr pos; skip ()) in
  let rec item () =
    skip ();
    if s.[!pos] = '(' then begin
      incr pos;
      let rec loop acc = skip (); if s.[!pos] = ')' then (incr pos; List.rev acc) else loop (item () :: acc) in
      SL (loop [])
    end else begin
      let st = !pos in
      while !pos < n && s.[!pos] <> ' ' && s.[!pos] <> ')' && s.[!pos] <> '(' do incr pos done;
      SZ (z_of_string (String.sub s st (!pos - st)))
    end in
  item ()

let rec print buf = function
  | SZ z -> Buffer.add_string buf (string_of_z z)
  | SL l -> Buffer.add_char buf '(';
            List.iteri (fun i x -> if i > 0 then Buffer.add_char buf ' '; print buf x) l;
            Buffer.add_char buf ')'

let runners : (string * (sx -> sx)) list = Runners.table

let () =
  try while true do
    let line = input_line stdin in
    let sp = String.index line ' ' in
    let name = String.sub line 0 sp in
    let arg = String.sub line (sp + 1) (String.length line - sp - 1) in
    let buf = Buffer.create 256 in
    (match List.assoc_opt name runners with
     | Some f -> (try print buf (f (parse arg)) with e -> Buffer.add_string buf ("!exn " ^ Printexc.to_string e))
     | None -> Buffer.add_string buf "!unknown-runner");
    print_endline (Buffer.contents buf)
  done with End_of_file -> ()
