(* table of extracted runners; one line per property runner *)
let table : (string * (Model.sx -> Model.sx)) list = [
  ("C13", Model.run_C13);
]
