#!/bin/sh
# Extract the models (coqc on Extract/Extract.v, run in ocaml/gen so model.ml lands there) and build the driver.
set -e
cd "$(dirname "$0")"
mkdir -p gen
cd gen
timeout 600 coqc -Q ../../coq PV ../../coq/Extract/Extract.v > extract.log 2>&1 || { cat extract.log; exit 1; }
cp ../driver.ml ../runners.ml .
# build into a temporary name and rename atomically: a check that starts the driver while another check rebuilds it must never see
# a half-written executable
timeout 600 ocamlfind ocamlopt -O3 -w -a -package str model.mli model.ml runners.ml driver.ml -o ../driver.new 2>/dev/null \
 || timeout 600 ocamlfind ocamlopt -w -a -package str model.mli model.ml runners.ml driver.ml -o ../driver.new
mv -f ../driver.new ../driver
