#!/bin/sh
# Offline build of everything the checks need: full .vo build of the Coq development (never -vos/-vok),
# extraction, native OCaml driver. Idempotent.
set -e
cd "$(dirname "$0")"
export PYTHONPATH="${VERIF_REPO:-/repo}:$(pwd)/harness" PYTHONHASHSEED=0 PYTHONDONTWRITEBYTECODE=1
/venv/bin/python -c "import py2v_arch, py2v_stats, py2v_proto, py2v_grid, py2v_es, py2v_rank, py2v_ucb, py2v_c18, py2v_thr, py2v_store, py2v_viz, py2v_prox, py2v_dqd, py2v_op, py2v_storeops, py2v_sliding, py2v_retrieve, py2v_gridviz, py2v_validate, py2v_sched, py2v_bandit" >/dev/null 2>&1 || true
/venv/bin/python - <<'PY'
import sys, common
ok, log = common.build_all(clean=True)
print("\n".join(log.split("\n")[-15:]))
sys.exit(0 if ok else 1)
PY
echo "setup ok"
