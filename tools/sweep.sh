#!/bin/bash
# developer aid: run the harness part of several checks (no Coq gate) over several seeds, in parallel, and list every alarm
# usage: tools/sweep.sh "C01 C02 ..." "1 2 3" [tier]
cd "$(dirname "$0")/.."
props=${1:-"C01 C02 C04 C05 C06 C07 C08 C10 C11 C13 C15 C16 C17 C19 C20"}
seeds=${2:-"1 2 3"}
tier=${3:-quick}
mkdir -p .logs/sweep
for p in $props; do
  ( for s in $seeds; do
      VERIF_SEED=$s timeout 3000 ./check $p --no-build --tier $tier > .logs/sweep/$p.$s.log 2>&1
      echo "$p seed=$s rc=$? $(grep -c '^VIOLATION' .logs/sweep/$p.$s.log) violations; $(tail -1 .logs/sweep/$p.$s.log | cut -c1-120)"
      if grep -q '^VIOLATION' .logs/sweep/$p.$s.log; then mkdir -p .logs/sweep/replays; for f in replays/${p}_${tier}_*.json; do cp $f .logs/sweep/replays/$p.$s.$(basename $f) 2>/dev/null; done; fi
    done ) &
done
wait
