#!/bin/bash
# runs every claimed quick check with the Coq gate (sequentially), then validates MANIFEST.json and every evidence file against the schemas
cd "$(dirname "$0")/.."
mkdir -p .logs/final
for p in C01 C02 C03 C04 C05 C06 C07 C08 C09 C10 C11 C12 C13 C14 C15 C16 C17 C18 C19 C20; do
  s=$(date +%s)
  timeout 1800 ./check $p --tier quick > .logs/final/$p.log 2>&1
  echo "$p rc=$? $(( $(date +%s)-s ))s $(grep -c '^VIOLATION' .logs/final/$p.log) violations; $(tail -1 .logs/final/$p.log | cut -c1-130)"
done
/venv/bin/python - <<'PY'
import json, jsonschema, glob
m = json.load(open('MANIFEST.json'))
jsonschema.validate(m, json.load(open('/root/.vp/MANIFEST.schema.json')))
sch = json.load(open('/root/.vp/EVIDENCE.schema.json'))
bad = 0
for c in m['checks']:
    e = json.load(open(c['evidence_file']))
    try:
        jsonschema.validate(e, sch)
        cov = e['coverage']
        ok = cov['obligations'] >= 1 and cov['discharged'] == cov['obligations'] and cov['samples'] and e['tier'] in ('quick', 'thorough')
        if not ok:
            bad += 1
            print('EVIDENCE PROBLEM', c['property_id'], cov['obligations'], cov['discharged'], len(cov['samples']))
    except Exception as ex:
        bad += 1
        print('EVIDENCE INVALID', c['property_id'], str(ex)[:200])
print('manifest ok; evidence problems:', bad)
PY
