"""Developer aid: print a Python file with docstrings/comments/blank lines removed."""
import ast, sys
def strip(path, start=0, end=10**9):
    src = open(path).read(); tree = ast.parse(src); lines = src.split('\n'); kill = set()
    for n in ast.walk(tree):
        if isinstance(n, (ast.FunctionDef, ast.ClassDef, ast.Module)):
            b = n.body
            if b and isinstance(b[0], ast.Expr) and isinstance(getattr(b[0], 'value', None), ast.Constant) and isinstance(b[0].value.value, str):
                for i in range(b[0].lineno - 1, b[0].end_lineno): kill.add(i)
    for i, l in enumerate(lines):
        if i in kill or i < start or i > end: continue
        if l.strip().startswith('#') or not l.strip(): continue
        print(f"{i+1}\t{l}")
if __name__ == '__main__':
    strip(sys.argv[1], int(sys.argv[2]) if len(sys.argv) > 2 else 0, int(sys.argv[3]) if len(sys.argv) > 3 else 10**9)
