"""Confirms a seeded change produced by an independent sub-agent and runs our checks against it.

usage: /venv/bin/python tools/seeded_verify.py <PROP> <srcdir> <name> [--checks C01,C06,...] [--tier quick]
  <srcdir> contains patch.diff, demo.py, notes.md (as written by the seeder under /tmp/seed_out/<PROP>/<A|B>)
Steps (all in a scratch worktree of /repo under /tmp, removed afterwards):
  1. demo.py on the untouched tree must exit 0;  2. `git apply patch.diff`;  3. demo.py must exit non-zero;
  4. the pinned test suite must still pass (same stable_pass set as BASELINE.json);
  5. `VERIF_REPO=<worktree> ./check <P> --tier <tier>` for every P in --checks (default: PROP) -> caught / missed.
Writes /verif/seeded/<name>/{patch.diff, demo.py, notes.md, meta.json}."""
import json
import os
import shutil
import subprocess
import sys
import time

ROOT = os.path.dirname(os.path.dirname(os.path.abspath(__file__)))


def sh(cmd, **kw):
    p = subprocess.run(cmd, shell=True, stdout=subprocess.PIPE, stderr=subprocess.STDOUT, text=True, **kw)
    return p.returncode, p.stdout


def main():
    prop, src, name = sys.argv[1:4]
    checks = [prop]
    tier = "quick"
    skip_suite = False
    for k, a in enumerate(sys.argv):
        if a == "--checks":
            checks = sys.argv[k + 1].split(",")
        if a == "--tier":
            tier = sys.argv[k + 1]
        if a == "--skip-suite":
            skip_suite = True
        if a == "--no-checks":
            checks = []
    wt = "/tmp/sv_%s_%d" % (name, os.getpid())
    meta = {"property": prop, "name": name, "when": time.strftime("%Y-%m-%d %H:%M:%S"), "ran": []}
    old_meta = os.path.join(ROOT, "seeded", name, "meta.json")
    prev = json.load(open(old_meta)) if os.path.exists(old_meta) else {}
    rc, out = sh("git -C /repo worktree add -q --detach %s HEAD" % wt)
    assert rc == 0, out
    env = dict(os.environ, PYTHONPATH=wt, PYTHONHASHSEED="0", MPLBACKEND="Agg")
    try:
        demo = os.path.join(src, "demo.py")
        rc0, out0 = sh("timeout 600 /venv/bin/python %s" % demo, env=env, cwd=wt)
        meta["demo_without_change"] = rc0
        meta["ran"].append("demo.py on /repo HEAD: exit %d" % rc0)
        rc, out = sh("git apply %s" % os.path.join(src, "patch.diff"), cwd=wt)
        meta["patch_applies"] = rc == 0
        if rc != 0:
            meta["error"] = out[-500:]
            raise SystemExit("patch does not apply: " + out[-300:])
        rc1, out1 = sh("timeout 600 /venv/bin/python %s" % demo, env=env, cwd=wt)
        meta["demo_with_change"] = rc1
        meta["demo_output"] = out1[-600:]
        meta["ran"].append("demo.py with the change: exit %d" % rc1)
        if not skip_suite:
            rc, out = sh("/venv/bin/python %s/tools/baseline_check.py %s" % (ROOT, wt))
            meta["suite_still_passes"] = rc == 0
            meta["suite"] = out.strip().split("\n")[-3:]
            meta["ran"].append("pinned suite on the changed tree: %s" % out.strip().split("\n")[0])
        if skip_suite and "suite_still_passes" in prev:
            meta["suite_still_passes"], meta["suite"] = prev["suite_still_passes"], prev.get("suite")
            meta["ran"] = [x for x in prev.get("ran", []) if x.startswith("pinned suite")] + meta["ran"]
        meta["confirmed"] = bool(rc0 == 0 and rc1 != 0 and meta.get("suite_still_passes", True))
        meta["checks"] = dict(prev.get("checks", {}))
        for p in checks:
            t0 = time.time()
            rc, out = sh("VERIF_REPO=%s timeout 3000 ./check %s --tier %s" % (wt, p, tier), cwd=ROOT)
            viol = [l for l in out.split("\n") if l.startswith("VIOLATION")]
            found = [l for l in viol if "no-failing-input-found" not in l]
            what = []
            for l in viol[:3]:
                path = l.split("replay=")[1].split()[0]
                try:
                    rp = json.load(open(path))
                    what.append({"what": rp.get("what", "")[:400], "failing_input_found": rp.get("failing_input_found"), "tags": rp.get("tags")})
                except Exception:  # noqa
                    pass
            meta["checks"][p] = {"exit": rc, "violations": len(viol), "with_failing_input": len(found), "wall_s": round(time.time() - t0, 1), "reports": what}
            meta["ran"].append("VERIF_REPO=<changed tree> ./check %s --tier %s: exit %d, %d VIOLATION lines (%d with a concrete failing input)" % (p, tier, rc, len(viol), len(found)))
        meta["caught_by"] = [p for p, r in meta["checks"].items() if r["violations"] > 0]
    finally:
        sh("git -C /repo worktree remove --force %s" % wt)
        # regenerate source-derived Coq files for /repo itself (a VERIF_REPO run rewrites them)
        sh("PYTHONPATH=/repo:%s/harness /venv/bin/python -c 'import py2v_arch, py2v_stats, py2v_proto, py2v_grid, py2v_es, py2v_rank, py2v_ucb, py2v_c18, py2v_thr, py2v_store, py2v_viz, py2v_prox, py2v_dqd, py2v_op, py2v_storeops, py2v_sliding, py2v_retrieve, py2v_gridviz, py2v_validate, py2v_sched, py2v_bandit'" % ROOT, cwd=ROOT)
    dst = os.path.join(ROOT, "seeded", name)
    os.makedirs(dst, exist_ok=True)
    for f in ("patch.diff", "demo.py", "notes.md"):
        if os.path.exists(os.path.join(src, f)):
            shutil.copy(os.path.join(src, f), os.path.join(dst, f))
    try:
        meta["needs_to_manifest"] = open(os.path.join(src, "notes.md")).read()[:1500]
    except Exception:  # noqa
        pass
    json.dump(meta, open(os.path.join(dst, "meta.json"), "w"), indent=1)
    print(json.dumps({k: meta[k] for k in ("name", "confirmed", "caught_by", "demo_without_change", "demo_with_change") if k in meta}))
    for p, r in meta.get("checks", {}).items():
        print(" ", p, r["exit"], r["violations"], [w["what"][:160] for w in r["reports"][:1]])


if __name__ == "__main__":
    main()
