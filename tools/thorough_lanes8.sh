#!/bin/bash
# developer aid: like tools/thorough_lanes.sh but over eight lane copies of /verif (/tmp/lane_1..8)
cd "$(dirname "$0")/.."
head=$(git rev-parse HEAD)
mkdir -p .logs/thorough
run_lane() {
  k=$1; shift
  git -C /tmp/lane_$k clean -fdq -- seeded; git -C /tmp/lane_$k checkout -q -f --detach $head
  for p in "$@"; do
    s=$(date +%s)
    (cd /tmp/lane_$k && timeout 5400 ./check $p --tier thorough) > .logs/thorough/$p.log 2>&1
    echo "$p rc=$? $(( $(date +%s)-s ))s $(grep -c '^VIOLATION' .logs/thorough/$p.log) violations; $(tail -1 .logs/thorough/$p.log | cut -c1-140)"
  done
}
run_lane 1 C12 &
run_lane 2 C01 C05 C06 &
run_lane 3 C02 C04 C09 &
run_lane 4 C03 C08 &
run_lane 5 C07 C11 C17 C13 &
run_lane 6 C10 C15 C20 &
run_lane 7 C14 C18 &
run_lane 8 C16 C19 &
wait
