"""Runs the pinned baseline suite on /repo (hooks off) and compares with /root/.vp/BASELINE.json stable_pass."""
import json, subprocess, sys, tempfile, os, xml.etree.ElementTree as ET
repo = sys.argv[1] if len(sys.argv) > 1 else "/repo"
base = json.load(open("/root/.vp/BASELINE.json"))
out = tempfile.mktemp(suffix=".xml", dir="/var/tmp")
subprocess.run("cd %s && /venv/bin/python -m pytest -q -p no:cacheprovider --timeout=900 --continue-on-collection-errors --junitxml=%s" % (repo, out),
               shell=True, stdout=subprocess.DEVNULL, stderr=subprocess.DEVNULL, env=dict(os.environ, PYTHONPATH=repo))
passed = set()
for tc in ET.parse(out).getroot().iter("testcase"):
    if not any(ch.tag in ("failure", "error", "skipped") for ch in tc):
        passed.add(tc.get("classname") + "::" + tc.get("name"))
os.remove(out)
want = set(base["stable_pass"])
missing = sorted(want - passed)
print("stable_pass=%d passed_now=%d missing=%d" % (len(want), len(passed), len(missing)))
for m in missing[:40]:
    print("  MISSING", m)
sys.exit(1 if missing else 0)
