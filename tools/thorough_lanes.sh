#!/bin/bash
# developer aid: run every thorough check once, in the four lane copies of /verif (see tools/seeded_lanes.py), and list the summaries
# usage: tools/thorough_lanes.sh   (lanes are moved to /verif's HEAD first)
cd "$(dirname "$0")/.."
head=$(git rev-parse HEAD)
mkdir -p .logs/thorough
run_lane() {
  k=$1; shift
  git -C /tmp/lane_$k clean -fdq -- seeded; git -C /tmp/lane_$k checkout -q -f --detach $head
  for p in "$@"; do
    s=$(date +%s)
    (cd /tmp/lane_$k && timeout 5400 ./check $p --tier thorough) > .logs/thorough/$p.log 2>&1
    echo "$p rc=$? $(( $(date +%s)-s ))s $(grep -c '^VIOLATION' .logs/thorough/$p.log) violations; $(tail -1 .logs/thorough/$p.log | cut -c1-140)"
  done
}
run_lane 1 C12 C13 C16 &
run_lane 2 C01 C05 C06 C07 C11 C17 &
run_lane 3 C02 C04 C09 C10 C15 C20 &
run_lane 4 C03 C08 C14 C18 C19 &
wait
