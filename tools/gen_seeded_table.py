"""Prints the markdown table of seeded changes (DESIGN.md 10.6) from seeded/*/meta.json."""
import json, os, glob
ROOT = os.path.dirname(os.path.dirname(os.path.abspath(__file__)))
rows = []
for d in sorted(glob.glob(os.path.join(ROOT, "seeded", "*"))):
    mp = os.path.join(d, "meta.json")
    if not os.path.exists(mp):
        continue
    m = json.load(open(mp))
    notes = (m.get("needs_to_manifest") or "").strip().split("\n")
    title = notes[0].lstrip("# ").strip() if notes else ""
    caught = []
    for p, r in sorted(m.get("checks", {}).items()):
        if r["violations"]:
            caught.append("%s (%d/%d with failing input)" % (p, r["with_failing_input"], r["violations"]))
    missed = [p for p, r in sorted(m.get("checks", {}).items()) if not r["violations"]]
    rows.append("| %s | %s | %s | %s | %s |" % (m["name"], m["property"], title[:110].replace("|", "/"), ", ".join(caught) or "—",
                                               ", ".join(missed) or "—"))
print("| seeded change | breaks | what (first line of the seeder's notes) | caught by (quick tier) | ran quiet |")
print("|---|---|---|---|---|")
print("\n".join(rows))
