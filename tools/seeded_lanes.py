"""Developer aid: run the check phase of tools/seeded_verify.py for many seeded changes in parallel "lanes".

Checks against different mutated trees cannot share one /verif (coq/Generated/*.v is rewritten from $VERIF_REPO on every run), so each
lane is its own git worktree of /verif under /tmp (created and built once: `git worktree add --detach /tmp/lane_k HEAD && ./setup.sh`).
usage: /venv/bin/python tools/seeded_lanes.py <jobs.txt> [n_lanes [first_lane]]      jobs.txt: lines "<PROP> <srcdir> <name> <checks,comma,separated>"
Every lane is first moved to /verif's HEAD commit (commit your harness changes before calling this); results (seeded/<name>/) are
copied back into /verif/seeded/."""
import os
import shutil
import subprocess
import sys
import threading

ROOT = os.path.dirname(os.path.dirname(os.path.abspath(__file__)))


def sh(cmd, **kw):
    p = subprocess.run(cmd, shell=True, stdout=subprocess.PIPE, stderr=subprocess.STDOUT, text=True, **kw)
    return p.returncode, p.stdout


def lane_worker(k, jobs, lock, out):
    lane = "/tmp/lane_%d" % k
    while True:
        with lock:
            if not jobs:
                return
            prop, src, name, checks = jobs.pop(0)
        dst = os.path.join(lane, "seeded", name)
        shutil.rmtree(dst, ignore_errors=True)
        if os.path.isdir(os.path.join(ROOT, "seeded", name)):
            shutil.copytree(os.path.join(ROOT, "seeded", name), dst)
        rc, o = sh("/venv/bin/python %s/tools/seeded_verify.py %s %s %s --skip-suite --checks %s" % (lane, prop, src, name, checks), cwd=lane)
        lines = [l for l in o.splitlines() if not l.startswith("WARNING")]
        if os.path.isdir(dst):
            shutil.rmtree(os.path.join(ROOT, "seeded", name), ignore_errors=True)
            shutil.copytree(dst, os.path.join(ROOT, "seeded", name))
        with lock:
            out.append((name, lines[-4:]))
            print("\n".join(l[:260] for l in lines[-4:]), flush=True)


def main():
    jobs = [l.split() for l in open(sys.argv[1]) if l.strip() and not l.startswith("#")]
    n = int(sys.argv[2]) if len(sys.argv) > 2 else 4
    first = int(sys.argv[3]) if len(sys.argv) > 3 else 1      # lanes first .. first+n-1 (a second set while the first runs something else)
    rc, head = sh("git -C %s rev-parse HEAD" % ROOT)
    for k in range(first, first + n):
        sh("git -C /tmp/lane_%d clean -fdq -- seeded" % k)      # results copied in by earlier runs (untracked there, tracked in /verif by now)
        rc, o = sh("git -C /tmp/lane_%d checkout -q -f --detach %s" % (k, head.strip()))
        assert rc == 0, o
    lock, out = threading.Lock(), []
    ts = [threading.Thread(target=lane_worker, args=(k, jobs, lock, out)) for k in range(first, first + n)]
    for t in ts:
        t.start()
    for t in ts:
        t.join()
    print("DONE")


if __name__ == "__main__":
    main()
