"""C12 entry points: for every public pyribs entry point that accepts or returns arrays, a builder that
creates fresh objects in a given state, the caller-side arguments in the requested layout classes, the call
itself and a behavioural digest (follow-up operations + reads through the public API).

The numeric ids (EP_ID) and the order of `args` are the protocol with coq/Model/RunC12.v."""
import random
import warnings

import numpy as np

from c12_util import Arg, canon, guarded

SOL, MEAS = 3, 2

# entry point ids shared with coq/Model/Alias.v (ep_of_nat)
EP_ID = {
    "Store.add": 0, "Store.retrieve": 1, "Store.data": 2, "Store.iter": 3, "Store.as_raw_dict": 4, "Store.occupied": 5, "Store.from_raw_dict": 6,
    "Archive.add": 10, "Archive.add_single": 11, "Sliding.add": 12, "Sliding.add_single": 13, "Proximity.add": 14,
    "Proximity.add_single": 15, "Archive.retrieve": 16, "Archive.retrieve_single": 17, "Archive.sample_elites": 18,
    "Archive.data": 19, "Archive.best_elite": 20, "Archive.iter": 21, "Archive.index_of": 22, "Archive.index_of_single": 23,
    "CVT.ctor_centroids": 24, "CVT.ctor_samples": 25, "Grid.ctor": 26, "Archive.cqd_score": 27, "Proximity.compute_novelty": 28,
    "Gaussian.ctor": 30, "IsoLine.ctor": 31, "ES.ctor": 32, "GAE.ctor": 33, "GOE.ctor": 34, "GA.ctor": 35,
    "Base.tell": 36, "ES.tell": 37, "GAE.tell": 38, "GAE.tell_dqd": 39, "GOE.tell_dqd": 40,
    "Scheduler.tell": 41, "Scheduler.tell_dqd": 42, "Bandit.tell": 43,
    "Adam.ctor": 44, "Adam.reset": 45, "Adam.step": 46, "GradAscent.ctor": 47, "GradAscent.reset": 48, "GradAscent.step": 49,
    "viz.parallel_axes_plot": 50, "viz.heatmap_df": 51, "Emitter.ask": 52,
}


class Ctx:
    def __init__(self, ep, roots, args, call, digest, variant=0, spy=None):
        self.ep, self.roots, self.args, self.call, self.digest, self.variant, self.spy = ep, roots, args, call, digest, variant, spy


# ---------------------------------------------------------------------------------------------
# values: multiples of 1/8 (exact in float32), measures inside [0, 1]
def grid8(rng, shape, lo, hi):
    n = int(np.prod(shape)) if shape != () else 1
    a = np.array([rng.randint(int(lo * 8), int(hi * 8)) / 8.0 for _ in range(n)], dtype=np.float64)
    return a.reshape(shape)


def batch_values(rng, n, dt, extras):
    d = {"solution": grid8(rng, (n, SOL), -2, 2).astype(dt), "objective": grid8(rng, (n,), 0, 4).astype(dt),
         "measures": grid8(rng, (n, MEAS), 0, 1).astype(dt)}
    if extras:
        d["ev"] = grid8(rng, (n, 2), -1, 1).astype(dt)
    return d


def make_archive(cfg):
    from ribs.archives import CVTArchive, GridArchive, ProximityArchive, SlidingBoundariesArchive
    kind, dt = cfg["kind"], np.dtype(cfg["dtype"])
    ef = {"ev": ((2,), dt)} if cfg.get("extras") else None
    if kind == "grid":
        kw = {"learning_rate": 0.5, "threshold_min": 0.0} if cfg.get("mae") else {}
        return GridArchive(solution_dim=SOL, dims=[4, 3], ranges=[(0, 1), (0, 1)], dtype=dt, extra_fields=ef, seed=3, **kw)
    if kind == "cvt":
        cent = np.array([[0.1, 0.1], [0.5, 0.1], [0.9, 0.1], [0.1, 0.9], [0.5, 0.9], [0.9, 0.9]], dtype=dt)
        return CVTArchive(solution_dim=SOL, cells=6, ranges=[(0, 1), (0, 1)], dtype=dt, extra_fields=ef, seed=3,
                          custom_centroids=cent, use_kd_tree=bool(cfg.get("kd", 1)))
    if kind == "sliding":
        return SlidingBoundariesArchive(solution_dim=SOL, dims=[3, 2], ranges=[(0, 1), (0, 1)], dtype=dt, extra_fields=ef, seed=3,
                                        remap_frequency=cfg.get("rf", 3), buffer_capacity=cfg.get("bc", 4))
    if kind == "proximity":
        return ProximityArchive(solution_dim=SOL, measure_dim=MEAS, k_neighbors=2, novelty_threshold=0.25, dtype=dt,
                                extra_fields=ef, seed=3, initial_capacity=2, local_competition=bool(cfg.get("lc", 0)))
    raise ValueError(kind)


def prefill(archive, cfg):
    """brings the archive into the requested state with arrays that are not the case's arguments"""
    rng = random.Random(cfg.get("pseed", 0))
    dt = np.dtype(cfg["dtype"])
    centres = None
    if cfg.get("state") == "full" and cfg["kind"] in ("grid", "cvt"):
        # every cell occupied, filled in index order (occupied_list == arange(cells)): the state in which "all of the store"
        # and "the internal arrays" coincide
        centres = ([[(i + 0.5) / 4, (j + 0.5) / 3] for i in range(4) for j in range(3)] if cfg["kind"] == "grid"
                   else [[0.1, 0.1], [0.5, 0.1], [0.9, 0.1], [0.1, 0.9], [0.5, 0.9], [0.9, 0.9]])
    n = {"empty": 0, "some": 3, "dense": 9, "full": len(centres) if centres else 9}[cfg.get("state", "some")]
    done = 0
    with warnings.catch_warnings():
        warnings.simplefilter("ignore")
        for k in range(n):
            b = batch_values(rng, 1, dt, cfg.get("extras"))
            b["objective"] = b["objective"] + k  # rising objectives: improvements happen
            if centres:
                b["measures"] = np.array([centres[k]], dtype=dt)
            archive.add(**{f: np.array(v) for f, v in b.items()})
            done += 1
    return done


FOLLOW = np.array([[0.0, 0.0], [0.25, 0.75], [0.5, 0.5], [0.875, 0.125], [1.0, 1.0]])


def archive_digest(archive, cfg, follow_seed=12345, k_follow=None):
    """stored contents now, after follow-up adds of fresh data (enough to force a sliding remap), plus public properties"""
    dt = np.dtype(cfg["dtype"])
    stored, extra = [], []
    stored.append(guarded(lambda: archive.data()))
    for prop in ("centroids", "samples", "boundaries", "lower_bounds", "upper_bounds", "dims", "interval_size"):
        if hasattr(type(archive), prop):
            extra.append((prop, guarded(lambda p=prop: getattr(archive, p))))
    extra.append(("best_elite", guarded(lambda: archive.best_elite)))
    stored.append(guarded(lambda: archive.index_of(FOLLOW.astype(dt))))
    rng = random.Random(follow_seed)
    k_follow = k_follow if k_follow is not None else (cfg.get("rf", 3) + 1 if cfg["kind"] == "sliding" else 2)
    with warnings.catch_warnings():
        warnings.simplefilter("ignore")
        for k in range(k_follow):
            b = batch_values(rng, 1, dt, cfg.get("extras"))
            stored.append(guarded(lambda b=b: archive.add_single(**{f: np.array(v[0]) for f, v in b.items()})))
    stored.append(guarded(lambda: archive.data()))
    stored.append(guarded(lambda: archive.stats))
    stored.append(guarded(lambda: archive.index_of(FOLLOW.astype(dt))))
    extra.append(("best_elite2", guarded(lambda: archive.best_elite)))
    return {"stored": stored, "extra": extra}


def layout_of(case, name):
    return case["layouts"].get(name, "exact")


def mkargs(case, named):
    """named: list of (name, ndarray in exact dtype)"""
    return [Arg(n, a, layout_of(case, n)) for n, a in named]


def argmap(args):
    return {a.name: a.value for a in args}


# ---------------------------------------------------------------------------------------------
# ArrayStore
def make_store(cfg):
    from ribs.archives import ArrayStore
    dt = np.dtype(cfg["dtype"])
    store = ArrayStore({"objective": ((), dt), "measures": ((MEAS,), dt), "solution": ((SOL,), dt)}, cfg.get("cap", 6))
    rng = random.Random(cfg.get("pseed", 0))
    n = {"empty": 0, "some": 2, "dense": 5, "full": store.capacity}[cfg.get("state", "some")]
    if n:
        idx = np.array([rng.randrange(store.capacity) for _ in range(n)], dtype=np.int32)
        if cfg.get("state") == "full":
            idx = np.arange(store.capacity, dtype=np.int32)  # every cell occupied, occupied_list == arange(capacity)
        b = batch_values(rng, n, dt, 0)
        store.add(idx, {k: b[k] for k in ("objective", "measures", "solution")}, {}, [])
    return store


def store_digest(store):
    return {"stored": [guarded(lambda: store.data()), guarded(lambda: [int(x) for x in store.occupied_list]),
                       guarded(lambda: store.occupied.copy())], "extra": []}


class SpyTransform:
    """identity transform that records what it was handed"""

    def __init__(self):
        self.seen = []  # list of dicts name -> object

    def __call__(self, indices, new_data, add_info, extra_args, occupied, cur_data):
        self.seen.append({"indices": indices, **{k: v for k, v in new_data.items()},
                          "#occupied": occupied, **{"#cur_" + k: v for k, v in cur_data.items()}})
        add_info = dict(add_info)
        add_info["n"] = add_info.get("n", 0) + 1
        return indices, new_data, add_info


def ep_store_add(case):
    cfg = case["cfg"]
    store = make_store(cfg)
    rng = random.Random(case["vseed"])
    n = cfg.get("n", 2)
    dt = np.dtype(cfg["dtype"])
    b = batch_values(rng, n, dt, 0)
    idx = np.array([rng.randrange(store.capacity) for _ in range(n)], dtype=np.int32)
    args = mkargs(case, [("indices", idx), ("objective", b["objective"]), ("measures", b["measures"]), ("solution", b["solution"])])
    spy = SpyTransform() if cfg.get("spy") else None
    m = argmap(args)

    def call():
        return store.add(m["indices"], {"objective": m["objective"], "measures": m["measures"], "solution": m["solution"]}, {},
                         [spy, spy] if spy else [])
    return Ctx("Store.add", {"store": store}, args, call, lambda: store_digest(store), variant=1 if spy else 0, spy=spy)


RTYPES = ["dict", "tuple", "pandas", "single"]


def _store_read(store, how, indices=None):
    if how == "single":
        return store.retrieve(indices, "solution") if indices is not None else store.data("solution")
    return store.retrieve(indices, None, how) if indices is not None else store.data(None, how)


def ep_store_retrieve(case):
    cfg = case["cfg"]
    store = make_store(cfg)
    rng = random.Random(case["vseed"])
    idx = np.array([rng.randrange(store.capacity) for _ in range(cfg.get("n", 3))], dtype=np.int32)
    args = mkargs(case, [("indices", idx)])
    how = cfg.get("rtype", "dict")
    return Ctx("Store.retrieve", {"store": store}, args, lambda: _store_read(store, how, args[0].value),
               lambda: store_digest(store), variant=RTYPES.index(how))


def ep_store_data(case):
    cfg = case["cfg"]
    store = make_store(cfg)
    how = cfg.get("rtype", "dict")
    return Ctx("Store.data", {"store": store}, [], lambda: _store_read(store, how), lambda: store_digest(store), variant=RTYPES.index(how))


def ep_store_iter(case):
    store = make_store(case["cfg"])
    return Ctx("Store.iter", {"store": store}, [], lambda: list(iter(store)), lambda: store_digest(store))


def ep_store_raw(case):
    store = make_store(case["cfg"])
    return Ctx("Store.as_raw_dict", {"store": store}, [], store.as_raw_dict, lambda: store_digest(store))


def ep_store_occupied(case):
    store = make_store(case["cfg"])
    return Ctx("Store.occupied", {"store": store}, [], lambda: (store.occupied, store.occupied_list), lambda: store_digest(store))


def ep_store_from_raw(case):
    """ArrayStore.from_raw_dict(d): the caller owns the arrays of d (e.g. loaded from disk, or taken from another store)"""
    from ribs.archives import ArrayStore
    src = make_store(dict(case["cfg"], state="some"))
    raw = {k: (np.array(v) if isinstance(v, np.ndarray) else v) for k, v in src.as_raw_dict().items()}
    args = [Arg("occupied", raw["props.occupied"], layout_of(case, "occupied")),
            Arg("solution", raw["fields.solution"], layout_of(case, "solution"))]
    roots = {}

    def call():
        d = dict(raw)
        d["props.occupied"] = args[0].value
        d["fields.solution"] = args[1].value
        roots["store"] = ArrayStore.from_raw_dict(d)
        return None
    return Ctx("Store.from_raw_dict", roots, args, call, lambda: store_digest(roots["store"]) if "store" in roots else None)


# ---------------------------------------------------------------------------------------------
# archives
def _call_values(case, archive, n, single):
    cfg = case["cfg"]
    dt = np.dtype(cfg["dtype"])
    rng = random.Random(case["vseed"])
    b = batch_values(rng, n, dt, cfg.get("extras"))
    if cfg.get("intent") == "reject":
        # occupy the target cells with better elites first, so that the call inserts nothing
        with warnings.catch_warnings():
            warnings.simplefilter("ignore")
            hi = {k: np.array(v) for k, v in b.items()}
            hi["objective"] = hi["objective"] + 8
            for _ in range(2):
                archive.add(**hi)
    else:
        b["objective"] = b["objective"] + 6  # above anything prefilled in elitist mode
    if single:
        b = {k: v[0] for k, v in b.items()}
    order = ["solution", "objective", "measures"] + (["ev"] if cfg.get("extras") else [])
    return [(k, b[k]) for k in order]


def _archive_ep_name(cfg, single):
    k = cfg["kind"]
    base = {"grid": "Archive", "cvt": "Archive", "sliding": "Sliding", "proximity": "Proximity"}[k]
    return base + (".add_single" if single else ".add")


def _add_variant(cfg, archive, ret, n_before, single):
    """which straight-line path of the model the call took"""
    if cfg["kind"] == "sliding":
        rf = cfg.get("rf", 3)
        n_call = 1 if single else cfg.get("n", 2)
        return 1 if any((n_before + j + 1) % rf == 0 for j in range(n_call)) else 0
    try:
        st = np.atleast_1d(ret["status"])
        return 1 if np.all(st == 0) else 0
    except Exception:  # noqa
        return 0


def ep_archive_add(case, single=False):
    cfg = case["cfg"]
    archive = make_archive(cfg)
    n_pre = prefill(archive, cfg)
    named = _call_values(case, archive, 1 if single else cfg.get("n", 2), single)
    if cfg.get("intent") == "reject":
        n_pre += 2 * (1 if single else cfg.get("n", 2)) if cfg["kind"] == "sliding" else 0
    args = mkargs(case, named)
    m = argmap(args)
    ctx = Ctx(_archive_ep_name(cfg, single), {"archive": archive}, args, None, lambda: archive_digest(archive, cfg))

    def call():
        with warnings.catch_warnings():
            warnings.simplefilter("ignore")
            ret = (archive.add_single if single else archive.add)(**m)
        ctx.variant = _add_variant(cfg, archive, ret, n_pre, single)
        return ret
    ctx.call = call
    return ctx


def _filled(case):
    cfg = case["cfg"]
    archive = make_archive(cfg)
    prefill(archive, cfg)
    return cfg, archive


def ep_archive_retrieve(case, single=False):
    cfg, archive = _filled(case)
    rng = random.Random(case["vseed"])
    dt = np.dtype(cfg["dtype"])
    meas = grid8(rng, (MEAS,) if single else (cfg.get("n", 3), MEAS), -0.5, 1.5).astype(dt)
    if not archive.empty and not single:
        meas[0] = archive.data("measures")[0]
    if not archive.empty and single and cfg.get("hit", 1):
        meas = archive.data("measures")[0].copy()
    args = mkargs(case, [("measures", meas)])
    f = archive.retrieve_single if single else archive.retrieve
    return Ctx("Archive.retrieve_single" if single else "Archive.retrieve", {"archive": archive}, args,
               lambda: f(args[0].value), lambda: archive_digest(archive, cfg))


def ep_archive_sample(case):
    cfg, archive = _filled(case)
    return Ctx("Archive.sample_elites", {"archive": archive}, [], lambda: archive.sample_elites(cfg.get("n", 3)),
               lambda: archive_digest(archive, cfg))


def ep_archive_data(case):
    cfg, archive = _filled(case)
    how = cfg.get("rtype", "dict")

    def call():
        if how == "single":
            return archive.data("solution")
        if how == "pandas_get_field":
            df = archive.data(return_type="pandas")
            return {f: df.get_field(f) for f in archive.field_list + ["index"]}
        if how == "pandas_iterelites":
            return list(archive.data(return_type="pandas").iterelites())
        return archive.data(return_type=how)
    variant = {"dict": 0, "tuple": 1, "pandas": 2, "single": 3, "pandas_get_field": 2, "pandas_iterelites": 2}[how]
    return Ctx("Archive.data", {"archive": archive}, [], call, lambda: archive_digest(archive, cfg), variant=variant)


def ep_archive_best(case):
    cfg, archive = _filled(case)
    return Ctx("Archive.best_elite", {"archive": archive}, [], lambda: archive.best_elite, lambda: archive_digest(archive, cfg),
               variant=1 if archive.empty else 0)


def ep_archive_iter(case):
    cfg, archive = _filled(case)
    return Ctx("Archive.iter", {"archive": archive}, [], lambda: list(iter(archive)), lambda: archive_digest(archive, cfg))


INDEX_KIND = {"grid": 0, "cvt": 1, "sliding": 3, "proximity": 4}


def ep_archive_index_of(case, single=False):
    cfg, archive = _filled(case)
    rng = random.Random(case["vseed"])
    dt = np.dtype(cfg["dtype"])
    # also outside the archive's bounds, so that an implementation that clips / normalises its argument in place is seen
    meas = grid8(rng, (MEAS,) if single else (cfg.get("n", 3), MEAS), -0.5, 1.5).astype(dt)
    args = mkargs(case, [("measures", meas)])
    f = archive.index_of_single if single else archive.index_of
    v = INDEX_KIND[cfg["kind"]] + (1 if cfg["kind"] == "cvt" and not cfg.get("kd", 1) else 0)
    return Ctx("Archive.index_of_single" if single else "Archive.index_of", {"archive": archive}, args, lambda: f(args[0].value),
               lambda: archive_digest(archive, cfg), variant=v)


def ep_cvt_ctor(case, which):
    from ribs.archives import CVTArchive
    cfg = case["cfg"]
    dt = np.dtype(cfg["dtype"])
    rng = random.Random(case["vseed"])
    roots = {}
    if which == "centroids":
        cent = np.array([[0.125, 0.125], [0.5, 0.125], [0.875, 0.125], [0.125, 0.875], [0.5, 0.875], [0.875, 0.875]], dtype=dt)
        args = mkargs(case, [("custom_centroids", cent)])
        kw = lambda: {"custom_centroids": args[0].value}  # noqa
    else:
        samples = grid8(rng, (24, MEAS), 0, 1).astype(dt)
        samples += (np.arange(24, dtype=dt) / 1024.0)[:, None]  # distinct points
        args = mkargs(case, [("samples", samples)])
        kw = lambda: {"samples": args[0].value}  # noqa

    def call():
        roots["archive"] = CVTArchive(solution_dim=SOL, cells=6, ranges=[(0, 1), (0, 1)], dtype=dt, seed=5,
                                      use_kd_tree=bool(cfg.get("kd", 1)), **kw())
        return None
    c2 = dict(cfg, kind="cvt")
    return Ctx("CVT.ctor_" + which, roots, args, call, lambda: archive_digest(roots["archive"], c2) if "archive" in roots else None)


def ep_grid_ctor(case):
    from ribs.archives import GridArchive, SlidingBoundariesArchive
    cfg = case["cfg"]
    dt = np.dtype(cfg["dtype"])
    roots = {}
    args = [Arg("dims", np.array([4, 3], dtype=np.int32), layout_of(case, "dims")),
            Arg("ranges", np.array([[0, 1], [0, 1]], dtype=dt), layout_of(case, "ranges"))]
    cls = SlidingBoundariesArchive if cfg.get("kind") == "sliding" else GridArchive

    def call():
        roots["archive"] = cls(solution_dim=SOL, dims=args[0].value, ranges=args[1].value, dtype=dt, seed=5)
        return None
    c2 = dict(cfg, kind=cfg.get("kind", "grid"))
    return Ctx("Grid.ctor", roots, args, call, lambda: archive_digest(roots["archive"], c2) if "archive" in roots else None)


def ep_cqd(case):
    cfg, archive = _filled(case)
    rng = random.Random(case["vseed"])
    tp = grid8(rng, (2, 3, MEAS), 0, 1)
    pen = np.array([0.0, 0.5, 1.0])
    args = mkargs(case, [("target_points", tp), ("penalties", pen)])
    kw = {"dist_max": 2.0} if cfg["kind"] == "proximity" else {}
    return Ctx("Archive.cqd_score", {"archive": archive}, args,
               lambda: archive.cqd_score(2, args[0].value, args[1].value, 0.0, 10.0, **kw), lambda: archive_digest(archive, cfg))


def ep_novelty(case):
    cfg, archive = _filled(case)
    rng = random.Random(case["vseed"])
    dt = np.dtype(cfg["dtype"])
    n = cfg.get("n", 3)
    args = mkargs(case, [("measures", grid8(rng, (n, MEAS), 0, 1).astype(dt)), ("objective", grid8(rng, (n,), 0, 4).astype(dt))])
    return Ctx("Proximity.compute_novelty", {"archive": archive}, args,
               lambda: archive.compute_novelty(args[0].value, local_competition=args[1].value if cfg.get("lc") else None),
               lambda: archive_digest(archive, cfg), variant=1 if cfg.get("lc") else 0)


# ---------------------------------------------------------------------------------------------
# emitters
def det_eval(sols, dt):
    """deterministic evaluation used by follow-ups"""
    sols = np.asarray(sols, dtype=np.float64)
    obj = -np.sum(np.square(sols), axis=1)
    meas = 0.5 + 0.5 * np.tanh(sols[:, :MEAS])
    return obj.astype(dt), meas.astype(dt)


def emitter_digest(emitter, archive, cfg, rounds=2):
    dt = np.dtype(cfg["dtype"])
    out = []
    for prop in ("x0", "initial_solutions", "sigma", "lower_bounds", "upper_bounds"):
        if hasattr(type(emitter), prop):
            out.append((prop, guarded(lambda p=prop: getattr(emitter, p))))
    ev = (lambda n: {"ev": np.zeros((n, 2), dtype=dt)}) if cfg.get("extras") else (lambda n: {})
    with warnings.catch_warnings():
        warnings.simplefilter("ignore")
        for _ in range(rounds):
            r = guarded(emitter.ask_dqd)
            out.append(("ask_dqd", r))
            try:
                s = np.array(emitter.ask())
                out.append(("ask", canon(s)))
            except Exception as e:  # noqa
                out.append(("ask", type(e).__name__))
                continue
            if len(s) == 0:
                continue
            obj, meas = det_eval(s, dt)

            def step():
                info = archive.add(s.astype(dt), obj, meas, **ev(len(s)))
                emitter.tell(s.astype(dt), obj, meas, info, **ev(len(s)))
                return info
            out.append(("tell", guarded(step)))
    d = archive_digest(archive, cfg, k_follow=0)
    return {"stored": d["stored"], "extra": d["extra"] + out}


def _emitter_archive(cfg):
    a = make_archive(cfg)
    prefill(a, cfg)
    return a


def make_emitter(kind, archive, cfg, **over):
    from ribs.emitters import (EvolutionStrategyEmitter, GaussianEmitter, GeneticAlgorithmEmitter, GradientArborescenceEmitter,
                               GradientOperatorEmitter, IsoLineEmitter)
    x0 = np.zeros(SOL)
    if kind == "gaussian":
        return GaussianEmitter(archive, **{"sigma": 0.5, "x0": x0, "batch_size": 3, "seed": 7, **over})
    if kind == "isoline":
        return IsoLineEmitter(archive, **{"x0": x0, "batch_size": 3, "seed": 7, **over})
    if kind == "es":
        return EvolutionStrategyEmitter(archive, **{"x0": x0, "sigma0": 0.5, "batch_size": 4, "seed": 7, "es": cfg.get("es", "cma_es"),
                                                    "ranker": cfg.get("ranker", "2imp"), **over})
    if kind == "gae":
        return GradientArborescenceEmitter(archive, **{"x0": x0, "sigma0": 0.5, "lr": 0.25, "batch_size": 4, "seed": 7,
                                                       "es": cfg.get("es", "cma_es"), "ranker": cfg.get("ranker", "2imp"),
                                                       "grad_opt": cfg.get("grad_opt", "adam"),
                                                       "normalize_grad": bool(cfg.get("normalize", 1)), **over})
    if kind == "goe":
        return GradientOperatorEmitter(archive, **{"sigma": 0.25, "sigma_g": 0.5, "x0": x0, "batch_size": 2, "seed": 7,
                                                   "normalize_grad": bool(cfg.get("normalize", 1)),
                                                   "measure_gradients": bool(cfg.get("mg", 1)), **over})
    if kind == "ga":
        return GeneticAlgorithmEmitter(archive, **{"x0": x0, "batch_size": 3, "operator": "gaussian",
                                                   "operator_kwargs": {"sigma": 0.5, "seed": 7}, **over})
    raise ValueError(kind)


CTOR_EP = {"gaussian": "Gaussian.ctor", "isoline": "IsoLine.ctor", "es": "ES.ctor", "gae": "GAE.ctor", "goe": "GOE.ctor", "ga": "GA.ctor"}


def ep_emitter_ctor(case):
    cfg = case["cfg"]
    em = cfg["emitter"]
    dt = np.dtype(cfg["dtype"])
    rng = random.Random(case["vseed"])
    archive = make_archive(dict(cfg, state="empty"))  # empty archive: initial_solutions / x0 are what ask() returns
    use_init = bool(cfg.get("init")) and em in ("gaussian", "isoline", "goe", "ga")
    start = grid8(rng, (2, SOL), -1, 1).astype(dt) if use_init else grid8(rng, (SOL,), -1, 1).astype(dt)
    bounds = np.array([[-2.0, 2.0]] * SOL, dtype=dt)
    sigma = np.array([0.5, 0.25, 0.125], dtype=dt)
    named = []
    if em == "gaussian":
        named.append(("sigma", sigma))
    named += [("initial_solutions" if use_init else "x0", start)]
    if em != "gae":  # GradientArborescenceEmitter does not support bounds
        named.append(("bounds", bounds))
    if em in ("goe", "ga"):
        named.append(("sigma", sigma))
    args = mkargs(case, named)
    m = argmap(args)
    roots = {"archive": archive}

    def call():
        kw = {("initial_solutions" if use_init else "x0"): m["initial_solutions" if use_init else "x0"]}
        if "bounds" in m:
            kw["bounds"] = m["bounds"]
        if use_init:
            kw["x0"] = None
        if em in ("gaussian", "goe"):
            kw["sigma"] = m["sigma"]
        if em == "ga":
            kw["operator_kwargs"] = {"sigma": m["sigma"], "seed": 7}
        roots["emitter"] = make_emitter(em, archive, cfg, **kw)
        return None
    return Ctx(CTOR_EP[em], roots, args, call,
               lambda: emitter_digest(roots["emitter"], archive, cfg) if "emitter" in roots else None, variant=1 if use_init else 0)


def make_spy_ranker():
    """ranks by objective; records the data / add_info it was handed"""
    from ribs.emitters.rankers import RankerBase

    class SpyRanker(RankerBase):
        def __init__(self, seed=None):
            RankerBase.__init__(self, seed)
            self.seen = []

        def rank(self, emitter, archive, data, add_info):
            self.seen.append({**data, **add_info})
            return np.flip(np.argsort(data["objective"])), np.array(data["objective"], dtype=np.float64)

        def reset(self, emitter, archive):
            pass
    return SpyRanker()


def _tell_inputs(case, emitter, archive, sols, with_jac):
    """what the user would pass to tell(): evaluation results + the archive's add feedback (own arrays)"""
    cfg = case["cfg"]
    dt = np.dtype(cfg["dtype"])
    rng = random.Random(case["vseed"])
    n = len(sols)
    obj = grid8(rng, (n,), 0, 4).astype(dt)
    meas = grid8(rng, (n, MEAS), 0, 1).astype(dt)
    evv = grid8(rng, (n, 2), -1, 1).astype(dt)
    kw = {"ev": evv} if cfg.get("extras") else {}
    with warnings.catch_warnings():
        warnings.simplefilter("ignore")
        info = archive.add(np.array(sols, dtype=dt), obj.copy(), meas.copy(), **{k: v.copy() for k, v in kw.items()})
    named = [("solution", np.array(sols, dtype=dt)), ("objective", obj), ("measures", meas)]
    if with_jac:
        named.append(("jacobian", (grid8(rng, (n, MEAS + 1, SOL), -2, 2) + 0.125).astype(dt)))
    named += [("status", np.array(info["status"], dtype=np.int32)),
              ("value", np.array(info["value"], dtype=dt) if "value" in info else np.zeros(n, dtype=dt))]
    if cfg.get("extras"):
        named.append(("ev", evv))
    return named


def ep_emitter_tell(case):
    cfg = case["cfg"]
    em = cfg["emitter"]
    archive = _emitter_archive(cfg)
    spy = make_spy_ranker() if cfg.get("spy") and em in ("es", "gae") else None
    emitter = make_emitter(em, archive, cfg, **({"ranker": (lambda seed=None: spy)} if spy else {}))
    dt = np.dtype(cfg["dtype"])
    if em in ("gae", "goe"):
        s0 = np.array(emitter.ask_dqd())
        if len(s0):
            obj, meas = det_eval(s0, dt)
            info = archive.add(s0.astype(dt), obj, meas, **({"ev": np.zeros((len(s0), 2), dtype=dt)} if cfg.get("extras") else {}))
            emitter.tell_dqd(s0.astype(dt), obj, meas, np.ones((len(s0), MEAS + 1, SOL), dtype=dt), info,
                             **({"ev": np.zeros((len(s0), 2), dtype=dt)} if cfg.get("extras") else {}))
    sols = np.array(emitter.ask())
    args = mkargs(case, _tell_inputs(case, emitter, archive, sols, False))
    m = argmap(args)
    ep = {"gaussian": "Base.tell", "isoline": "Base.tell", "goe": "Base.tell", "ga": "Base.tell", "es": "ES.tell", "gae": "GAE.tell"}[em]

    def call():
        extra = {"ev": m["ev"]} if "ev" in m else {}
        with warnings.catch_warnings():
            warnings.simplefilter("ignore")
            return emitter.tell(m["solution"], m["objective"], m["measures"], {"status": m["status"], "value": m["value"]}, **extra)
    return Ctx(ep, {"emitter": emitter, "archive": archive}, args, call, lambda: emitter_digest(emitter, archive, cfg),
               variant=1 if spy else 0, spy=spy)


def ep_emitter_tell_dqd(case):
    cfg = case["cfg"]
    em = cfg["emitter"]  # gae | goe
    archive = _emitter_archive(cfg)
    emitter = make_emitter(em, archive, cfg)
    sols = np.array(emitter.ask_dqd())
    args = mkargs(case, _tell_inputs(case, emitter, archive, sols, True))
    m = argmap(args)

    def call():
        extra = {"ev": m["ev"]} if "ev" in m else {}
        return emitter.tell_dqd(m["solution"], m["objective"], m["measures"], m["jacobian"],
                                {"status": m["status"], "value": m["value"]}, **extra)
    return Ctx("GAE.tell_dqd" if em == "gae" else "GOE.tell_dqd", {"emitter": emitter, "archive": archive}, args, call,
               lambda: emitter_digest(emitter, archive, cfg), variant=1 if cfg.get("normalize", 1) else 0)



def ep_emitter_ask(case):
    """emitter.ask() / ask_dqd(): no array arguments; what matters is what is handed out.  The follow-up (digest) evaluates the
    solutions that were handed out (copied at call time), tells them back and keeps asking, so that an internal buffer that was
    handed out gets updated by the emitter while the caller still holds it."""
    cfg = case["cfg"]
    em, which = cfg["emitter"], cfg.get("which", "ask")
    dt = np.dtype(cfg["dtype"])
    archive = _emitter_archive(cfg)
    rng = random.Random(case["vseed"])
    over = {}
    if cfg.get("init") and em in ("gaussian", "isoline", "ga") and which == "ask":
        over = {"initial_solutions": grid8(rng, (2, SOL), -1, 1).astype(dt), "x0": None}
    emitter = make_emitter(em, archive, cfg, **over)
    ev = (lambda n: {"ev": np.zeros((n, 2), dtype=dt)}) if cfg.get("extras") else (lambda n: {})
    ones = lambda n: np.ones((n, MEAS + 1, SOL), dtype=dt)  # noqa

    def dqd_round(s0):
        if len(s0):
            obj, meas = det_eval(s0, dt)
            info = archive.add(s0.astype(dt), obj, meas, **ev(len(s0)))
            emitter.tell_dqd(s0.astype(dt), obj, meas, ones(len(s0)), info, **ev(len(s0)))

    with warnings.catch_warnings():
        warnings.simplefilter("ignore")
        if which == "ask" and em in ("gae", "goe"):
            dqd_round(np.array(emitter.ask_dqd()))
    held = {}

    def call():
        with warnings.catch_warnings():
            warnings.simplefilter("ignore")
            r = emitter.ask_dqd() if which == "ask_dqd" else emitter.ask()
        held["sols"] = np.array(r)  # the values handed out, copied before anybody writes into r
        return r

    def digest():
        stored = [guarded(lambda: archive.data())]  # stored contents right now
        out = []
        s0 = held.get("sols")
        with warnings.catch_warnings():
            warnings.simplefilter("ignore")
            if s0 is not None and len(s0):
                if which == "ask_dqd":
                    out.append(("tell_dqd", guarded(lambda: dqd_round(s0))))
                    out.append(("ask", guarded(emitter.ask)))
                else:
                    obj, meas = det_eval(s0, dt)

                    def step():
                        info = archive.add(s0.astype(dt), obj, meas, **ev(len(s0)))
                        emitter.tell(s0.astype(dt), obj, meas, info, **ev(len(s0)))
                    out.append(("tell", guarded(step)))
        d = emitter_digest(emitter, archive, cfg)
        # everything after the first read goes through the emitter's own state: reported separately from the stored contents
        return {"stored": stored, "extra": out + d["stored"] + d["extra"]}
    if which == "ask_dqd":
        variant = {"goe": 2, "gae": 3}.get(em, 0)
    else:
        variant = 1 if em in ("es", "gae") else 0
    return Ctx("Emitter.ask", {"emitter": emitter, "archive": archive}, [], call, digest, variant=variant)


# ---------------------------------------------------------------------------------------------
# schedulers
def scheduler_digest(sched, cfg, dqd):
    dt = np.dtype(cfg["dtype"])
    out = []
    ev = (lambda n: {"ev": np.zeros((n, 2), dtype=dt)}) if cfg.get("extras") else (lambda n: {})
    with warnings.catch_warnings():
        warnings.simplefilter("ignore")
        for _ in range(2):
            if dqd:
                try:
                    s = np.array(sched.ask_dqd())
                    out.append(("ask_dqd", canon(s)))
                    obj, meas = det_eval(s, dt)
                    out.append(("tell_dqd", guarded(lambda: sched.tell_dqd(obj, meas, np.ones((len(s), MEAS + 1, SOL), dtype=dt),
                                                                           **ev(len(s))))))
                except Exception as e:  # noqa
                    out.append(("ask_dqd", type(e).__name__))
            try:
                s = np.array(sched.ask())
                out.append(("ask", canon(s)))
                obj, meas = det_eval(s, dt)
                out.append(("tell", guarded(lambda: sched.tell(obj, meas, **ev(len(s))))))
            except Exception as e:  # noqa
                out.append(("ask", type(e).__name__))
    d = archive_digest(sched.archive, cfg)
    if sched.result_archive is not sched.archive:
        d2 = archive_digest(sched.result_archive, cfg)
        d["stored"] += d2["stored"]
        d["extra"] += d2["extra"]
    d["extra"] += out
    return d


def ep_scheduler_tell(case, dqd=False, bandit=False):
    from ribs.schedulers import BanditScheduler, Scheduler
    cfg = case["cfg"]
    dt = np.dtype(cfg["dtype"])
    archive = _emitter_archive(cfg)
    result = make_archive(dict(cfg, kind=cfg.get("result_kind", "grid"))) if cfg.get("result") else None
    kinds = cfg.get("emitters", ["gaussian", "es"]) if not dqd else ["gae"]
    emitters = [make_emitter(k, archive, cfg) for k in kinds]
    if bandit:
        sched = BanditScheduler(archive, emitters, num_active=max(1, len(emitters) - 1), result_archive=result,
                                add_mode=cfg.get("mode", "batch"))
    else:
        sched = Scheduler(archive, emitters, result_archive=result, add_mode=cfg.get("mode", "batch"))
    rng = random.Random(case["vseed"])
    sols = np.array(sched.ask_dqd() if dqd else sched.ask())
    n = len(sols)
    named = [("objective", grid8(rng, (n,), 0, 4).astype(dt) + 6), ("measures", grid8(rng, (n, MEAS), 0, 1).astype(dt))]
    if dqd:
        named.append(("jacobian", (grid8(rng, (n, MEAS + 1, SOL), -2, 2) + 0.125).astype(dt)))
    if cfg.get("extras"):
        named.append(("ev", grid8(rng, (n, 2), -1, 1).astype(dt)))
    args = mkargs(case, named)
    m = argmap(args)

    def call():
        extra = {"ev": m["ev"]} if "ev" in m else {}
        with warnings.catch_warnings():
            warnings.simplefilter("ignore")
            if dqd:
                return sched.tell_dqd(m["objective"], m["measures"], m["jacobian"], **extra)
            return sched.tell(m["objective"], m["measures"], **extra)
    ep = "Scheduler.tell_dqd" if dqd else ("Bandit.tell" if bandit else "Scheduler.tell")
    akind = {"grid": 0, "cvt": 0, "sliding": 1, "proximity": 2}[cfg["kind"]]
    variant = akind * 2 + (1 if cfg.get("mode", "batch") == "single" else 0)
    return Ctx(ep, {"scheduler": sched}, args, call, lambda: scheduler_digest(sched, cfg, dqd), variant=variant)


# ---------------------------------------------------------------------------------------------
# gradient optimizers
def ep_gradopt(case, which, what):
    from ribs.emitters.opt import AdamOpt, GradientAscentOpt
    cfg = case["cfg"]
    dt = np.dtype(cfg["dtype"])
    rng = random.Random(case["vseed"])
    cls = AdamOpt if which == "Adam" else GradientAscentOpt
    roots = {}
    vec = grid8(rng, (SOL,), -2, 2).astype(dt) + 0.125
    args = mkargs(case, [("theta0" if what in ("ctor", "reset") else "gradient", vec)])
    kw = {"l2_coeff": 0.5} if (which == "Adam" and cfg.get("l2")) else {}      # the non-default regulariser touches the gradient once more
    if what != "ctor":
        roots["opt"] = cls(np.zeros(SOL, dtype=dt), lr=0.25, **kw)
        roots["opt"].step(np.ones(SOL, dtype=dt))

    def call():
        if what == "ctor":
            roots["opt"] = cls(args[0].value, lr=0.25, **kw)
        elif what == "reset":
            roots["opt"].reset(args[0].value)
        else:
            roots["opt"].step(args[0].value)
        return None

    def digest():
        if "opt" not in roots:
            return None
        o = roots["opt"]
        out = [guarded(lambda: o.theta.copy())]
        out.append(guarded(lambda: o.step(np.full(SOL, 0.5, dtype=dt))))
        out.append(guarded(lambda: o.theta.copy()))
        return {"stored": out, "extra": []}
    return Ctx("%s.%s" % (which, what), roots, args, call, digest)


# ---------------------------------------------------------------------------------------------
# visualisation functions taking a data frame
class DfArg:
    """the caller's data frame plays the role of the caller's array"""

    def __init__(self, df, layout):
        import pandas as pd
        self.name, self.layout = "df", layout
        self.value = df if layout == "exact" else pd.DataFrame(df)  # exact: ArchiveDataFrame; otherdtype: plain DataFrame
        self.owner = self.value
        self.before = self.snap()

    def snap(self):
        return canon(self.value)

    def mutated(self):
        return self.snap() != self.before

    def diff(self):
        return {"index_before": self.before[2], "index_after": [int(i) for i in self.value.index]}

    def list_ids(self):
        return set()

    def aliases(self, x):
        return False

    def poison(self):
        pass


def ep_viz(case, which):
    import matplotlib
    matplotlib.use("Agg")
    import matplotlib.pyplot as plt
    from ribs import visualize as V
    cfg = case["cfg"]
    archive = make_archive(cfg)
    prefill(archive, cfg)
    rng = random.Random(case["vseed"])
    dt = np.dtype(cfg["dtype"])
    # objectives deliberately NOT sorted in storage order
    b = batch_values(rng, 4, dt, cfg.get("extras"))
    b["objective"] = np.array([9, 7, 8, 6.5], dtype=dt)
    b["measures"] = np.array([[0.1, 0.1], [0.9, 0.9], [0.1, 0.9], [0.6, 0.4]], dtype=dt)
    archive.add(**b)
    df = archive.data(return_type="pandas")
    arg = DfArg(df, layout_of(case, "df"))
    fn = {"parallel_axes": V.parallel_axes_plot, "grid": V.grid_archive_heatmap, "cvt": V.cvt_archive_heatmap,
          "sliding": V.sliding_boundaries_archive_heatmap, "proximity": V.proximity_archive_plot}[which]

    def call():
        fig = plt.figure(figsize=(3, 3))
        try:
            if which == "parallel_axes":
                fn(archive, df=arg.value, sort_archive=bool(cfg.get("sort", 1)))
            else:
                fn(archive, df=arg.value)
        finally:
            plt.close(fig)
        return None
    ep = "viz.parallel_axes_plot" if which == "parallel_axes" else "viz.heatmap_df"
    return Ctx(ep, {"archive": archive}, [arg], call, lambda: archive_digest(archive, cfg, k_follow=0),
               variant=1 if (which == "parallel_axes" and cfg.get("sort", 1)) else 0)


BUILDERS = {
    "Store.add": ep_store_add, "Store.retrieve": ep_store_retrieve, "Store.data": ep_store_data, "Store.iter": ep_store_iter,
    "Store.as_raw_dict": ep_store_raw, "Store.occupied": ep_store_occupied, "Store.from_raw_dict": ep_store_from_raw,
    "Archive.add": ep_archive_add, "Archive.add_single": lambda c: ep_archive_add(c, True),
    "Archive.retrieve": ep_archive_retrieve, "Archive.retrieve_single": lambda c: ep_archive_retrieve(c, True),
    "Archive.sample_elites": ep_archive_sample, "Archive.data": ep_archive_data, "Archive.best_elite": ep_archive_best,
    "Archive.iter": ep_archive_iter, "Archive.index_of": ep_archive_index_of,
    "Archive.index_of_single": lambda c: ep_archive_index_of(c, True),
    "CVT.ctor_centroids": lambda c: ep_cvt_ctor(c, "centroids"), "CVT.ctor_samples": lambda c: ep_cvt_ctor(c, "samples"),
    "Grid.ctor": ep_grid_ctor, "Archive.cqd_score": ep_cqd, "Proximity.compute_novelty": ep_novelty,
    "Emitter.ask": ep_emitter_ask, "Emitter.ctor": ep_emitter_ctor, "Emitter.tell": ep_emitter_tell, "Emitter.tell_dqd": ep_emitter_tell_dqd,
    "Scheduler.tell": ep_scheduler_tell, "Scheduler.tell_dqd": lambda c: ep_scheduler_tell(c, dqd=True),
    "Bandit.tell": lambda c: ep_scheduler_tell(c, bandit=True),
    "viz": lambda c: ep_viz(c, c["cfg"]["which"]),
}
for _w in ("Adam", "GradAscent"):
    for _k in ("ctor", "reset", "step"):
        BUILDERS["%s.%s" % (_w, _k)] = (lambda w, k: (lambda c: ep_gradopt(c, w, k)))(_w, _k)
