"""C16 correspondence: real ribs.schedulers.BanditScheduler (spy emitters on the public EmitterBase, with and without a
`restarts` attribute; spy archives as public subclasses of GridArchive / ProximityArchive) vs the extracted BanditScheduler
model (Model/Bandit.v through run_C16), on random ask/tell programs, plus an independent oracle that evaluates the clauses
of the property directly on what the implementation did."""
import py2v_proto
import py2v_ucb
import py2v_bandit
import copy
import json
import math
import os
import random
import warnings

import numpy as np

import c04_util as U

CONFIG = {
    "cone": ["Base/ListUtil.v", "Base/SliceUtil.v", "Model/Store.v", "Model/Scheduler.v", "Proofs/SchedulerProofs.v",
             "Model/Bandit.v", "Proofs/BanditProofs.v", "Generated/ProtoGen.v", "Refine/ProtoRefine.v", "Generated/UcbGen.v", "Refine/UcbRefine.v", "Properties/C16.v",
             "Model/BanditTellFacts.v", "Generated/BanditTellGen.v", "Refine/BanditTellRefine.v"],
    "extra_property_files": ["Refine/ProtoRefine.v", "Refine/UcbRefine.v", "Refine/BanditTellRefine.v"],
    "trusted": ["harness/py2v_ucb.py: fail-closed translator of the UCB1 score expression (and of +inf initialisation, the selection != 0 mask, the "
                "descending argsort) of BanditScheduler.ask; Refine/UcbRefine.v proves it equal to the documented formula over R with uninterpreted "
                "sqrt / log (stdlib real-number axioms)",
                "harness/py2v_proto.py: fail-closed extractor of the ask/tell protocol table (guard on _last_called evaluated first, state assigned right "
                "after it) of Scheduler and BanditScheduler into Generated/ProtoGen.v on every run; Refine/ProtoRefine.v proves the models follow it",
                "Model/Bandit.v abstracts emitters (scripted answers, recorded arguments, their `restarts` attribute is an input of "
                "every ask) and archives (list of accepted insertion calls; add feedback and validation failures are oracle inputs "
                "taken from the real archive), exactly as Model/Scheduler.v does for C04",
                "the UCB1 score of a previously selected emitter is an input of the model's ask: the harness evaluates the documented "
                "formula success/selection + zeta*sqrt(ln(total success)/selection) in float64 (numpy scalars, libm log) on the counts "
                "of what really happened (rows each spy emitted / rows of it the archive reported a non-zero status for) and ships "
                "the value as an exact rational; where the formula is undefined (total success 0: ln 0) the score is 'undefined' and "
                "the model's relational spec imposes no order among such emitters but still ranks never-selected emitters first",
                "the implementation's private counters _selection/_success are read (when present) only as an additional, earlier "
                "detector; the public observables (active mask, spy logs, returned rows) already determine the verdict",
                "candidate ids are encoded redundantly into every field by harness/c04_util.py; its decoder flags torn rows"],
    "level_text": "Theorems in coq/Properties/C16.v quantify over every pool size n >= num_active k, both reselect modes, both add "
                  "modes, with/without result archive, and every sequence of ask / tell / ask_dqd / tell_dqd calls of the "
                  "BanditScheduler model with arbitrary emitter answers (any batch sizes, 0 included), restart counters, scores and "
                  "archive feedback: exactly k emitters are active in every state reached after an accepted call "
                  "(C16_num_active); only active emitters are asked and told, once each, with the pos:end slice of every field and of "
                  "the add feedback (C16_only_active_asked, C16_only_active_told, C16_routes_like_scheduler); selection_i / success_i "
                  "equal the number of rows / of non-zero statuses handed back to emitter i over the whole history (C16_counts, by "
                  "induction over the history); whenever emitter i is newly activated while j stays inactive, j never selected "
                  "implies i never selected, and if both were selected and have defined scores then score_j <= score_i "
                  "(C16_never_selected_first_and_order); reselect='terminated' keeps every active emitter whose restarts counter "
                  "did not increase (C16_terminated_keeps); reselect='all' keeps nothing (C16_all_fresh); out-of-order calls and the "
                  "DQD entry points raise and leave the whole state unchanged (C16_protocol_step). The model is tied to "
                  "ribs/schedulers/_bandit_scheduler.py by a differential run against the real BanditScheduler on every run.",
    "level_note": "'Never selected' is the code's own notion (selection counter 0, i.e. no solution of the emitter was ever handed to "
                  "tell): an emitter that was active but only ever returned empty batches still counts as never selected. Where "
                  "scores tie or are undefined the specification is relational (valid_selection), so the implementation's tie order "
                  "is not compared. The UCB1 formula itself is tied by the harness evaluating the documented expression and the "
                  "model ranking by those values (no translated fragment). Model and theorems describe the behaviour AFTER "
                  "fixes/F9.patch: before it, ln(0) while total success is 0 made every score NaN and never-selected emitters were "
                  "not preferred. Trusted: Coq kernel; extraction + OCaml driver; the hand-written model (tied by sampling); harness "
                  "generators/canonicalisers. No axioms.",
    "technique": "Rocq/Coq proof over an executable Gallina model + model-vs-implementation correspondence run",
    "design_ref": "DESIGN.md section 5, C16",
}

ARCHIVES = ["grid", "grid", "grid_mae", "grid_reject", "thresh", "thresh", "proximity"]
ZETAS = [0.0, 0.0, 0.05, 0.05, 0.3, 1.0, 4.0]
ID_CAP = U.ID_MAX - 8


# ----------------------------------------------------------------------------------------------------------
def quality(i, salt, qmode):
    if qmode == "low":
        return (i * 5 + salt) % 2
    if qmode == "high":
        return 2 + (i * 5 + salt) % 2
    return (i * 5 + salt) % 4


def cell_of(i, salt, ncell):
    return ((i * 7 + salt) % ncell, (i * 13 + salt // 7) % ncell)


def gen_case(rng, tier, directed=None):
    """directed: None | 'starve' (nothing is ever inserted for a long prefix, pool > 2*num_active)"""
    n_pool = rng.choice([1, 2, 3, 3, 4, 4, 5, 6, 6, 7, 8])
    k = rng.randint(1, n_pool)
    kind = rng.choice(ARCHIVES)
    if directed == "starve":
        n_pool = rng.choice([4, 5, 6, 7, 8])
        k = rng.randint(1, max(1, (n_pool - 1) // 2))
        kind = rng.choice(["grid_reject", "thresh"])
    style = rng.random()
    if style < 0.25:
        pool = ["plain"] * n_pool
    elif style < 0.45:
        pool = ["counter"] * n_pool
    else:
        pool = [rng.choice(["plain", "counter"]) for _ in range(n_pool)]
    case = {
        "pool": pool, "restarts0": [rng.choice([0, 0, 0, 3]) for _ in range(n_pool)],
        "num_active": k, "reselect": rng.choice(["terminated", "all"]), "mode": rng.choice(["batch", "batch", "single"]),
        "zeta": rng.choice(ZETAS), "archive": kind, "result": rng.random() < 0.4,
        "extra": rng.choice([[], [], [], ["tag"], ["vec", "tag"]]), "ncell": rng.choice([1, 2, 3, U.GRID]),
        "tmin_q": rng.choice([1, 2, 2, 3]), "lr": rng.choice([0.5, 1.0]),
    }
    if rng.random() < 0.3:
        case["relay"] = rng.choice([1, 2, 3, 5])
    if directed == "starve":
        case["reselect"] = rng.choice(["all", "all", "terminated"])
        if case["reselect"] == "terminated" and rng.random() < 0.7:
            case["pool"] = ["plain"] * n_pool
    n_iter = rng.randint(3, 16 if tier == "quick" else 60)
    p_illegal = rng.choice([0.0, 0.0, 0.1, 0.25])
    p_restart = rng.choice([0.0, 0.15, 0.4, 0.8])
    p_mal = rng.choice([0.0, 0.0, 0.08])
    base = [rng.choice([0, 1, 1, 2, 2, 3, 4]) for _ in range(n_pool)]
    if rng.random() < 0.5 and n_pool > 1:     # make sure sizes are unequal
        base[rng.randrange(n_pool)] = 5
    qmode = "low" if (directed == "starve" or rng.random() < 0.35) else rng.choice(["mix", "high", "mix"])
    low_left = rng.randint(3, n_iter) if qmode == "low" else 0
    ops, phase, budget, it = [], None, ID_CAP, 0
    while it < n_iter:
        legal = "ask" if phase is None else "tell"
        if rng.random() < p_illegal:
            name = rng.choice([c for c in ("ask", "tell", "ask_dqd", "tell_dqd") if c != legal])
        else:
            name = legal
        if name == "ask":
            sizes = []
            zero_iter = rng.random() < 0.05
            for e in range(n_pool):
                if rng.random() < 0.1:
                    base[e] = rng.choice([0, 1, 2, 3, 4, 6])
                s = 0 if zero_iter else (base[e] if rng.random() < 0.8 else rng.choice([0, 1, 2, 3]))
                s = min(s, budget)
                budget -= s
                sizes.append(s)
            bumps = [e for e in range(n_pool) if rng.random() < p_restart]
            ops.append(["ask", sizes, bumps])
            if name == legal:
                phase = "ask"
        elif name == "tell":
            mal = None
            r = rng.random()
            if r < p_mal:
                mal = ["badlen", rng.randrange(2 + len(case["extra"])), rng.choice([-1, 1, 2])]
            elif r < 2 * p_mal:
                mal = ["nan", rng.randrange(8)]
            if low_left > 0:
                low_left -= 1
                qm = "low"
            else:
                if rng.random() < 0.08:
                    qmode = rng.choice(["low", "mix", "high"])
                    if qmode == "low":
                        low_left = rng.randint(1, 6)
                qm = qmode
            ops.append(["tell", rng.randrange(1000), mal, qm])
            if name == legal:
                phase = None
                it += 1
        else:
            ops.append([name])
    case["ops"] = ops
    return case


# ----------------------------------------------------------------------------------------------------------
def make_archive(case, result=False):
    kind = case["archive"]
    if result:
        return U.make_spy_archive("grid" if kind.startswith("grid") or kind == "thresh" else kind, case["extra"])
    if kind != "thresh":
        return U.make_spy_archive(kind, case["extra"])
    cls = type(U.make_spy_archive("grid", case["extra"]))     # the public SpyArchive subclass of GridArchive
    a = cls(solution_dim=U.SOL_DIM, dims=[U.GRID, U.GRID], ranges=[(0, U.GRID), (0, U.GRID)],
            extra_fields={f: U.EXTRA_FIELDS[f] for f in case["extra"]}, learning_rate=case["lr"],
            threshold_min=float(case["tmin_q"]) * U.QSCALE)
    a._spy_init()
    return a


def build(case):
    from ribs.schedulers import BanditScheduler
    Spy = U.make_spy_emitter_class()
    arch = make_archive(case)
    res = make_archive(case, result=True) if case["result"] else None
    ems = [Spy(arch, kind="plain", restarts=(r0 if kd == "counter" else None)) for kd, r0 in zip(case["pool"], case["restarts0"])]
    for o in ems + [arch] + ([res] if res is not None else []):
        o.field_order = tuple(case["extra"])
    sch = BanditScheduler(arch, ems, case["num_active"], reselect=case["reselect"], zeta=case["zeta"], result_archive=res,
                          add_mode=case["mode"])
    return sch, arch, res, ems


def tell_payload(case, op, cur_ids):
    _, salt, mal, qm = op
    n = len(cur_ids)
    order = ["objective", "measures"] + list(case["extra"])
    cols = {f: list(cur_ids) for f in order}
    fail = None
    if mal and mal[0] == "badlen":
        f = order[mal[1] % len(order)]
        d = mal[2]
        if d < 0 and n == 0:
            d = 1
        cols[f] = (cols[f] + [cols[f][0] if cols[f] else 1] * d) if d > 0 else cols[f][:d]

    def arr(f):
        ids = cols[f]
        if f == "objective":
            return U.enc_objective(ids, [quality(i, salt, qm) for i in ids])
        if f == "measures":
            return U.enc_measures(ids, [cell_of(i, salt, case["ncell"]) for i in ids])
        return U.enc_tag(ids) if f == "tag" else U.enc_vec(ids)
    arrays = {f: arr(f) for f in order}
    lens_fine = all(len(c) == n for c in cols.values())
    if mal and mal[0] == "nan" and n > 0 and lens_fine:
        kk = mal[1] % n
        arrays["measures"][kk, 1] = np.nan
        fail = kk
    return arrays, [U.col(cols[f]) for f in order], fail, lens_fine


def ucb_scores(sel, suc, zeta):
    """the documented UCB1 score per emitter in float64; None = never selected (no score) or undefined (ln 0 / non-finite)"""
    total = float(sum(suc))
    out = []
    for s, n in zip(suc, sel):
        if n == 0 or total <= 0.0:
            out.append(None)
            continue
        with np.errstate(all="ignore"):
            v = np.float64(s) / np.float64(n) + zeta * np.sqrt(np.log(np.float64(total)) / np.float64(n))
        out.append(float(v) if math.isfinite(float(v)) else None)
    return out


def private_counts(sch):
    try:
        sel = [int(x) for x in np.asarray(getattr(sch, "_selection")).tolist()]
        suc = [int(x) for x in np.asarray(getattr(sch, "_success")).tolist()]
        return [sel, suc]
    except Exception:  # noqa
        return None


def run_impl(case):
    """Runs the program on the real BanditScheduler.  Returns dict(steps, mops, final)."""
    sch, arch, res, ems = build(case)
    n_pool = len(ems)
    sel, suc = [0] * n_pool, [0] * n_pool        # what really happened (by candidate id), credited at accepted tells
    steps, mops = [], []
    cur_ids, owner, next_id = [], {}, 1
    with warnings.catch_warnings():
        warnings.simplefilter("ignore")
        for step, op in enumerate(case["ops"]):
            name = op[0]
            if case.get("relay") and step and step % case["relay"] == 0:
                # checkpoint / resume: a deep copy of the whole scheduler (pool, archives) continues exactly like the original
                import copy
                sch = copy.deepcopy(sch)
                arch, res, ems = sch.archive, (sch.result_archive if res is not None else None), list(sch.emitter_pool)
            st = {"op": name, "active_before": [bool(x) for x in sch.active], "sel_before": list(sel), "suc_before": list(suc)}
            nfb = len(arch.feedback)
            if name == "ask":
                for e in op[2]:
                    if e < n_pool and hasattr(ems[e], "restarts"):
                        ems[e].restarts += 1
                scripts = []
                for e, s in enumerate(op[1]):
                    ids = list(range(next_id, next_id + s))
                    next_id += s
                    scripts.append(ids)
                    ems[e].script = list(ids)
                st["scripts"] = scripts
                st["restarts"] = [int(e.restarts) if hasattr(e, "restarts") else -1 for e in ems]
                st["scores"] = ucb_scores(sel, suc, case["zeta"])
                try:
                    sols = sch.ask()
                    ids = U.dec_field("solution", sols)
                    r = [0, ids]
                    if np.asarray(sols).shape != (len(ids), U.SOL_DIM):
                        r = ["bad-shape", list(np.asarray(sols).shape)]
                    else:
                        cur_ids = [i for i in ids if isinstance(i, int)]
                        for e, sc in enumerate(scripts):
                            for i in sc:
                                owner[i] = e
                except Exception as e:  # noqa
                    r = [U.err_code(e)]
                chosen = [bool(x) for x in sch.active]
                mops.append([0, st["restarts"], [[] if v is None else [U.fval(v)] for v in st["scores"]], chosen, scripts])
            elif name == "tell":
                arrays, cols, fail, lens_fine = tell_payload(case, op, cur_ids)
                st["cur"] = list(cur_ids)
                st["fail"], st["lens_fine"] = fail, lens_fine
                try:
                    sch.tell(arrays["objective"], arrays["measures"], **{f: arrays[f] for f in case["extra"]})
                    r = [0]
                except Exception as e:  # noqa
                    r = [U.err_code(e)]
                fbs = [row for call in arch.feedback[nfb:] for row in call]
                st["fbs"] = fbs
                if r == [0]:
                    for i, row in zip(cur_ids, fbs):
                        e = owner.get(i)
                        if e is not None:
                            sel[e] += 1
                            suc[e] += 1 if (isinstance(row, list) and row and row[0] != 0) else 0
                mops.append([2, cols, fbs, [] if fail is None else [fail]])
            else:
                try:
                    getattr(sch, name)(*([] if name == "ask_dqd" else [None, None, None]))
                    r = [0]
                except Exception as e:  # noqa
                    r = [U.err_code(e)]
                mops.append([1] if name == "ask_dqd" else [3])
            st.update({"r": r, "active": [bool(x) for x in sch.active], "loglens": [len(e.log) for e in ems],
                       "ncalls": len(arch.calls), "nrcalls": len(res.calls) if res is not None else None,
                       "sel": list(sel), "suc": list(suc), "priv": private_counts(sch)})
            steps.append(st)
    final = [[e.log for e in ems], arch.calls, [res.calls] if res is not None else []]
    return {"steps": steps, "mops": mops, "final": final}


def model_input(case, mops):
    return [len(case["pool"]), case["num_active"], case["reselect"] == "all", case["mode"] == "single", bool(case["result"]), mops]


# ----------------------------------------------------------------------------------------------------------
def classify_selection(case, st, kept, chosen):
    """finding class of an ask whose outcome is not a valid selection"""
    n = len(chosen)
    if sum(chosen) != case["num_active"] or n != len(kept):
        return "bandit-num-active"
    if any(kept[i] and not chosen[i] for i in range(n)):
        return "bandit-kept-deactivated"
    sel = st["sel_before"]
    new = [i for i in range(n) if chosen[i] and not kept[i]]
    out = [j for j in range(n) if not chosen[j]]
    if sum(st["suc_before"]) == 0 and any(sel[j] == 0 and sel[i] != 0 for i in new for j in out):
        return "bandit-nan-ucb"
    if any(sel[j] == 0 and sel[i] != 0 for i in new for j in out):
        return "bandit-never-selected-not-first"
    return "bandit-selection-order"


def compare(case, driver, im=None):
    """None when model and implementation agree, else a dict describing the first disagreement (with key 'class')"""
    im = im or run_impl(case)
    mout = driver.call("C16", model_input(case, im["mops"]))
    if mout == [-999] or not isinstance(mout, list) or len(mout) != 2:
        return {"what": "model rejected the input", "model": mout, "class": "harness"}
    mouts, fin = mout
    m_active = [False] * len(case["pool"])
    for k, st in enumerate(im["steps"]):
        if k >= len(mouts):
            return {"step": k, "what": "model stopped early", "class": "correspondence"}
        mr, diag, sizes = mouts[k]
        where = {"step": k, "op": case["ops"][k]}
        if st["op"] == "ask" and len(diag) == 5:
            any_, ok, kept, msel, mact = diag
            kept, msel, mact = [bool(x) for x in kept], [bool(x) for x in msel], [bool(x) for x in mact]
            if not ok:
                return dict(where, what="the active set after ask is not a valid selection (C16_ask_selects): " +
                            ("reselection took place" if any_ else "no emitter was up for reselection, the active set must not change"),
                            kept=kept, impl_active=st["active"], model_select=msel, scores=st["scores"],
                            selection=st["sel_before"], success=st["suc_before"], restarts=st["restarts"],
                            **{"class": classify_selection(case, st, kept, st["active"])})
            m_active = mact
        if mr != st["r"]:
            return dict(where, what="result / returned rows differ", model=mr, impl=st["r"],
                        **{"class": "bandit-routing" if mr[0] == 0 and st["r"][0] == 0 else "bandit-protocol"})
        if m_active != st["active"]:
            return dict(where, what="active mask differs", model=m_active, impl=st["active"], **{"class": "bandit-active"})
        isz = [st["loglens"], st["ncalls"], [] if st["nrcalls"] is None else [st["nrcalls"]]]
        if sizes[:3] != isz:
            return dict(where, what="which emitters were asked/told, or how many insertion calls the archives saw, differs "
                        "([spy log lengths, archive calls, result archive calls])", model=sizes[:3], impl=isz,
                        **{"class": "bandit-routing"})
        if st["op"] == "tell" and len(diag) == 2:
            if diag != [st["sel"], st["suc"]]:
                return dict(where, what="model counters differ from the counts of what happened (rows emitted / non-zero statuses "
                            "by candidate id)", model=diag, happened=[st["sel"], st["suc"]], **{"class": "bandit-routing"})
            if st["priv"] is not None and st["priv"] != diag:
                return dict(where, what="BanditScheduler._selection/_success differ from the model's counters (C16_counts)",
                            model=diag, impl=st["priv"], **{"class": "bandit-counters"})
        elif st["priv"] is not None and st["priv"] != [st["sel"], st["suc"]]:
            return dict(where, what="BanditScheduler._selection/_success changed outside an accepted tell", impl=st["priv"],
                        happened=[st["sel"], st["suc"]], **{"class": "bandit-counters"})
    if len(mouts) != len(im["steps"]):
        return {"what": "model produced more outputs than operations", "class": "harness"}
    core = fin[0]
    names = ["emitter logs", "archive insertion calls", "result archive insertion calls"]
    for nm, m, i in zip(names, core[:3], im["final"]):
        if m != i:
            if nm == "emitter logs":
                for e, (lm, li) in enumerate(zip(m, i)):
                    if lm != li:
                        j = next((x for x in range(min(len(lm), len(li))) if lm[x] != li[x]), min(len(lm), len(li)))
                        return {"what": nm + " (what the spy was handed)", "emitter": e, "event": j, "model": lm[j] if j < len(lm) else None,
                                "impl": li[j] if j < len(li) else None, "class": "bandit-routing"}
            return {"what": nm, "model": m, "impl": i, "class": "bandit-routing"}
    return None


# ----------------------------------------------------------------------------------------------------------
def oracle(case, im=None):
    """C16's own clauses checked directly on the implementation's observables (no model).  Returns None or (text, class)."""
    im = im or run_impl(case)
    n, k = len(case["pool"]), case["num_active"]
    has_counter = [kd == "counter" for kd in case["pool"]]
    phase, first = None, True
    seen_restarts = None        # the restarts attributes at the previous accepted ask (0 initially, as documented state)
    loglens, ncalls = [0] * n, 0
    logs = im["final"][0]
    asked, pending = None, None
    for t, (op, st) in enumerate(zip(case["ops"], im["steps"])):
        name = st["op"]
        legal = "ask" if phase is None else "tell"
        if name != legal:
            want = [7] if name in ("ask_dqd", "tell_dqd") else [3]
            if st["r"] != want:
                return "op %d: %s while expecting %s did not raise %s (got %s)" % (
                    t, name, legal, "NotImplementedError" if want == [7] else "RuntimeError", st["r"]), "bandit-protocol"
            if st["loglens"] != loglens or st["ncalls"] != ncalls or st["active"] != st["active_before"]:
                return "op %d: rejected %s disturbed an emitter, the archive or the active set" % (t, name), "bandit-protocol"
            if st["priv"] is not None and st["priv"] != [st["sel_before"], st["suc_before"]]:
                return "op %d: rejected %s changed the counters" % (t, name), "bandit-counters"
            continue
        if name == "ask":
            act, prev = st["active"], st["active_before"]
            if st["r"][0] != 0:
                return "op %d: ask in order raised %s" % (t, st["r"]), "bandit-protocol"
            if sum(act) != k or len(act) != n:
                return "op %d: %d emitters active after ask, num_active = %d (active = %s)" % (t, sum(act), k, act), "bandit-num-active"
            idx = [i for i in range(n) if act[i]]
            want_rows = [i for e in idx for i in st["scripts"][e]]
            if st["r"] != [0, want_rows]:
                return "op %d: ask returned %s; the active emitters %s generated %s" % (t, st["r"], idx, want_rows), "bandit-routing"
            for e in range(n):
                grew = st["loglens"][e] - loglens[e]
                if grew != (1 if act[e] else 0):
                    return "op %d: emitter %d (%s) was asked %d time(s)" % (t, e, "active" if act[e] else "inactive", grew), "bandit-routing"
                if act[e] and logs[e][loglens[e]] != [0, 0, st["scripts"][e]]:
                    return "op %d: emitter %d log entry %s is not its ask" % (t, e, logs[e][loglens[e]]), "bandit-routing"
            sel, suc = st["sel_before"], st["suc_before"]
            if first:
                if act != [i < k for i in range(n)]:
                    return "op %d: first ask must activate the first %d emitters, active = %s" % (t, k, idx), "bandit-first-fill"
                kept = list(act)
            else:
                if case["reselect"] == "all":
                    kept = [False] * n
                else:
                    kept = [prev[i] and has_counter[i] and st["restarts"][i] <= seen_restarts[i] for i in range(n)]
                for i in range(n):
                    if kept[i] and not act[i]:
                        return ("op %d: reselect='terminated': active emitter %d has not restarted (restarts %d) but was deactivated"
                                % (t, i, st["restarts"][i])), "bandit-kept-deactivated"
                if not any(prev[i] and not kept[i] for i in range(n)) and act != prev:
                    return "op %d: no active emitter was up for reselection but the active set changed %s -> %s" % (t, prev, act), \
                        "bandit-kept-deactivated"
                total = sum(suc)
                scores = ucb_scores(sel, suc, case["zeta"])
                for i in range(n):
                    if not (act[i] and not kept[i]):
                        continue
                    for j in range(n):
                        if act[j]:
                            continue
                        if sel[j] == 0 and sel[i] != 0:
                            return ("op %d: emitter %d (never selected) stays inactive while the previously selected emitter %d "
                                    "(selection %d, success %d) is activated; total success = %d; active %s -> %s"
                                    % (t, j, i, sel[i], suc[i], total, [x for x in range(n) if prev[x]], idx)), \
                                ("bandit-nan-ucb" if total == 0 else "bandit-never-selected-not-first")
                        if sel[j] != 0 and sel[i] != 0 and scores[i] is not None and scores[j] is not None and scores[j] > scores[i]:
                            return ("op %d: emitter %d (UCB1 %.17g = %d/%d + %g*sqrt(ln %d/%d)) is activated while emitter %d with the "
                                    "larger score %.17g (%d/%d) stays inactive" % (t, i, scores[i], suc[i], sel[i], case["zeta"], total,
                                                                                   sel[i], j, scores[j], suc[j], sel[j])), \
                                "bandit-selection-order"
            first = False
            seen_restarts = list(st["restarts"]) if case["reselect"] == "terminated" else seen_restarts
            if seen_restarts is None:
                seen_restarts = [0] * n
            loglens = list(st["loglens"])
            asked, pending, phase = idx, st["scripts"], "ask"
            continue
        # tell in order
        phase = None
        if st["active"] != st["active_before"]:
            return "op %d: tell changed the active set" % t, "bandit-active"
        if not st["lens_fine"] or st["fail"] is not None:
            if st["r"] != [1] or st["loglens"] != loglens:
                return "op %d: malformed tell: expected ValueError and no emitter told, got %s" % (t, st["r"]), "bandit-protocol"
            ncalls = st["ncalls"]
            continue
        if st["r"] != [0]:
            return "op %d: valid tell raised %s" % (t, st["r"]), "bandit-protocol"
        fb_of = {i: row for i, row in zip(st["cur"], st["fbs"])}
        if len(st["fbs"]) != len(st["cur"]):
            return "op %d: %d rows told, archive feedback for %d" % (t, len(st["cur"]), len(st["fbs"])), "bandit-routing"
        for e in range(n):
            grew = st["loglens"][e] - loglens[e]
            if grew != (1 if e in asked else 0):
                return "op %d: emitter %d (%s in the preceding ask) was told %d time(s)" % (
                    t, e, "asked" if e in asked else "not asked", grew), "bandit-routing"
            if e not in asked:
                continue
            ev = logs[e][loglens[e]]
            mine = pending[e]
            if ev[0] != 1 or ev[1] != 0:
                return "op %d: emitter %d got the wrong call %s" % (t, e, ev[:2]), "bandit-routing"
            data, _, info = ev[2]
            for ci, c in enumerate(data):
                got = c[0] if c else None
                if got != mine:
                    return "op %d: emitter %d generated %s but was handed %s in field #%d" % (t, e, mine, got, ci), "bandit-routing"
            if info != [fb_of[i] for i in mine]:
                return "op %d: emitter %d was handed add feedback %s, its rows' feedback is %s" % (
                    t, e, info, [fb_of[i] for i in mine]), "bandit-routing"
        if st["priv"] is not None and st["priv"] != [st["sel"], st["suc"]]:
            return ("op %d: counters after tell: _selection=%s _success=%s, but the emitters emitted %s solutions and had %s inserted "
                    "(cumulative)" % (t, st["priv"][0], st["priv"][1], st["sel"], st["suc"])), "bandit-counters"
        loglens, ncalls = list(st["loglens"]), st["ncalls"]
    return None


def oracle_safe(case):
    try:
        return oracle(case)
    except Exception as e:  # noqa
        import traceback
        return "oracle crashed: %r %s" % (e, traceback.format_exc()[-400:]), "harness"


# ----------------------------------------------------------------------------------------------------------
def profile(case, im):
    """measured features of a run: set of strings"""
    feats = set()
    n, k = len(case["pool"]), case["num_active"]
    first = True
    phase = None
    for op, st in zip(case["ops"], im["steps"]):
        legal = "ask" if phase is None else "tell"
        if st["op"] != legal:
            feats.add("illegal")
            continue
        if st["op"] == "tell":
            phase = None
            if st["r"] == [0] and st["cur"] and all(r[0] == 0 for r in st["fbs"]):
                feats.add("tell_nothing_inserted")
            if st["r"] == [0] and sum(st["suc"]) == 0:
                feats.add("told_while_total_success_0")
            continue
        phase = "ask"
        sizes = [len(st["scripts"][e]) for e in range(n) if st["active"][e]]
        if len(set(s for s in sizes if s)) >= 2:
            feats.add("unequal_sizes")
        if 0 in sizes:
            feats.add("zero_batch")
        if not first and st["r"][0] == 0:
            sel, sc = st["sel_before"], st["scores"]
            changed = st["active"] != st["active_before"]
            if changed:
                feats.add("active_set_changed")
            out = [j for j in range(n) if not st["active"][j]]
            new = [i for i in range(n) if st["active"][i] and not st["active_before"][i]]
            if any(sel[i] == 0 for i in new) and any(sel[j] != 0 for j in out):
                feats.add("never_selected_beats_selected")
            cand = [x for x in new + out if sel[x] != 0 and sc[x] is not None]
            if new and out and len(set(sc[x] for x in cand)) >= 2 and any(sel[i] != 0 for i in new):
                feats.add("ranked_by_distinct_scores")
            if len(cand) >= 2 and len(set(sc[x] for x in cand)) < len(cand):
                feats.add("score_tie")
            if sum(st["suc_before"]) == 0 and any(sel[x] != 0 for x in range(n)) and k < n:
                feats.add("reselect_while_total_success_0")
            if case["reselect"] == "terminated" and any(st["active"][i] and st["active_before"][i] and case["pool"][i] == "counter"
                                                        for i in range(n)) and changed:
                feats.add("terminated_keeps_some_replaces_others")
        first = False
    return feats


def shrink(case, fails):
    ops = list(case["ops"])
    # drop the tail after the failure first (cheap), then single ops / ask-tell pairs
    changed = True
    while changed and len(ops) > 1:
        changed = False
        for width in (8, 4, 2, 1):
            k = 0
            while k + width <= len(ops):
                cand = dict(case, ops=ops[:k] + ops[k + width:])
                if cand["ops"] and fails(cand):
                    ops = cand["ops"]
                    changed = True
                else:
                    k += 1
    case = dict(case, ops=ops)
    for key, val in (("result", False), ("extra", []), ("mode", "batch"), ("zeta", 0.05)):
        if case[key] != val:
            cand = dict(case, **{key: val})
            if fails(cand):
                case = cand
    # well-formed tells, smaller batches, fewer restarts
    for k in range(len(case["ops"])):
        if case["ops"][k][0] == "tell" and case["ops"][k][2]:
            cand = copy.deepcopy(case)
            cand["ops"][k][2] = None
            if fails(cand):
                case = cand
        if case["ops"][k][0] != "ask":
            continue
        if case["ops"][k][2]:
            cand = copy.deepcopy(case)
            cand["ops"][k][2] = []
            if fails(cand):
                case = cand
        for e in range(len(case["pool"])):
            if case["ops"][k][1][e] > 1:      # never down to 0: an emitter that emits nothing stays 'never selected'
                cand = copy.deepcopy(case)
                cand["ops"][k][1][e] = 1
                if fails(cand):
                    case = cand
    # drop trailing pool members
    while len(case["pool"]) > case["num_active"]:
        cand = copy.deepcopy(case)
        cand["pool"].pop()
        cand["restarts0"].pop()
        for op in cand["ops"]:
            if op[0] == "ask":
                op[1].pop()
                op[2] = [e for e in op[2] if e < len(cand["pool"])]
        if fails(cand):
            case = cand
        else:
            break
    return case


def load_corpus():
    from common import CORPUS
    cdir = os.path.join(CORPUS, "C16")
    out = []
    if os.path.isdir(cdir):
        for f in sorted(os.listdir(cdir)):
            if f.endswith(".json"):
                out.append(json.load(open(os.path.join(cdir, f)))["case"])
    return out


def report(rep, case, d, driver):
    cls = d.get("class", "correspondence")

    def fails(c):
        try:
            x = compare(c, driver)
            return x is not None and x.get("class") == cls
        except Exception:  # noqa
            return False
    small = shrink(case, fails) if "harness_exception" not in d else case
    try:
        d2 = compare(small, driver) or d
    except Exception:  # noqa
        d2 = d
    orc = oracle_safe(small) or oracle_safe(case)
    text, ocls = orc if orc else (None, None)
    kind = ocls if ocls and ocls != "harness" else d2.get("class", cls)
    rep.violation("BanditScheduler and the BanditScheduler model disagree (%s)" % d2.get("what", "?") + (": " + text if text else ""),
                  {"kind": "correspondence", "broken": "Model/Bandit.v vs ribs/schedulers/_bandit_scheduler.py", "case": small,
                   "disagreement": d2, "oracle": text, "oracle_class": ocls,
                   "theorems_at_stake": ["C16_num_active", "C16_ask_selects", "C16_only_active_asked", "C16_only_active_told",
                                         "C16_routes_like_scheduler", "C16_counts", "C16_never_selected_first_and_order",
                                         "C16_terminated_keeps", "C16_all_fresh", "C16_protocol_step"]},
                  text is not None and ocls != "harness", {"kind": kind})


def check(rep, tier, seed, driver):
    py2v_proto.report(rep)
    py2v_ucb.report(rep)
    py2v_bandit.report(rep)
    rng = random.Random(seed)
    n = 420 if tier == "quick" else 3000
    rep.rule = ("random ask/tell programs (0-25% out-of-order calls incl. ask_dqd/tell_dqd, malformed tells) on a real BanditScheduler: "
                "pool of 1-8 scripted spy emitters (with/without a `restarts` attribute, restarting with probability 0-0.8 per "
                "iteration), num_active 1..pool, reselect terminated/all, add_mode batch/single, zeta in {0, .05, .3, 1, 4}, "
                "with/without result archive, per-emitter batch sizes 0..6 that differ between emitters and change over time, "
                "GridArchive / CMA-MAE / ProximityArchive / archives whose threshold_min rejects everything or everything below a "
                "quality level, with phases in which nothing is inserted; 1 in 8 cases is directed at 'pool > 2*num_active and no "
                "insertion for a long prefix'. A case is non-trivial when, in one run, some reselection activates a never-selected "
                "emitter ahead of a previously selected one AND some reselection ranks previously selected emitters with distinct "
                "defined UCB1 scores AND active emitters produced unequal non-zero batch sizes.")
    cases = [(c, "corpus") for c in load_corpus()]
    rep.count("corpus_cases", len(cases))
    for i in range(n):
        cases.append((gen_case(rng, tier, "starve" if i % 8 == 3 else None), "gen"))
    classes_seen = set()
    for case, src in cases:
        rep.count("archive_" + case["archive"])
        rep.count("reselect_" + case["reselect"])
        rep.count("mode_" + case["mode"])
        rep.count("pool_%d" % len(case["pool"]))
        rep.count("zeta_%g" % case["zeta"])
        rep.count("result_archive" if case["result"] else "no_result_archive")
        rep.count("pool_kinds_" + "+".join(sorted(set(case["pool"]))))
        rep.count("num_active_eq_pool" if case["num_active"] == len(case["pool"]) else "num_active_lt_pool")
        for o in case["ops"]:
            rep.count("op_" + o[0])
            if o[0] == "tell" and o[2]:
                rep.count("malformed_" + o[2][0])
        im = None
        try:
            im = run_impl(case)
            d = compare(case, driver, im)
            if d is None:
                orc = oracle(case, im)
                if orc is not None:
                    d = {"what": "oracle: " + orc[0], "class": orc[1], "oracle_only": True}
        except Exception as e:  # noqa
            import traceback
            d = {"harness_exception": repr(e), "trace": traceback.format_exc()[-1500:], "class": "harness"}
        feats = profile(case, im) if im is not None else set()
        for f in feats:
            rep.count("feature_" + f)
        nt = {"never_selected_beats_selected", "ranked_by_distinct_scores", "unequal_sizes"} <= feats
        rep.case(case, nt, sample=case if nt and len(case["ops"]) <= 16 else None)
        if d is not None:
            cls = d.get("class")
            if cls in classes_seen and src != "corpus":
                rep.count("further_disagreements_of_a_reported_class")
                continue
            classes_seen.add(cls)
            if d.get("oracle_only"):
                def ofails(c, cls=cls):
                    o = oracle_safe(c)
                    return o is not None and o[1] == cls
                small = shrink(case, ofails)
                o2 = oracle_safe(small) or (d["what"], cls)
                rep.violation("property clause fails on the implementation although the model run agreed: " + o2[0],
                              {"kind": "oracle", "case": small, "oracle": o2[0], "oracle_class": o2[1]}, True, {"kind": o2[1]})
            else:
                report(rep, case, d, driver)
            if len(rep.violations) >= 4:
                break
    for must in ("feature_never_selected_beats_selected", "feature_ranked_by_distinct_scores", "feature_reselect_while_total_success_0",
                 "feature_terminated_keeps_some_replaces_others", "feature_zero_batch", "feature_illegal"):
        if rep.hist.get(must, 0) < 5 and not rep.violations:
            rep.violation("generator degenerate: %s reached only %d times" % (must, rep.hist.get(must, 0)),
                          {"kind": "generator", "histogram": rep.hist}, False, {"kind": "generator-degenerate"})


def replay(rp, driver):
    case = rp["case"]
    d = compare(case, driver)
    print("replay C16:", "still disagrees: %s" % json.dumps(d, default=str)[:700] if d else "no disagreement any more")
    o = oracle_safe(case)
    print("oracle:", o)
    return 1 if (d or o) else 0
