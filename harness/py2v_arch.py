"""Fail-closed translator of the scalar decision logic of ribs/archives/_transforms.py (current source under $VERIF_REPO) into Gallina.

Targets
  * `single_entry_with_threshold` -- the whole function body -> `gen_single occ0 thr0 tmin lr obj0 : Z * Q * option Q * bool`
    (status, value, threshold written, stored?).
  * `_compute_thresholds` -- the expressions assigned to `ratio` and `new_threshold` -> `gen_batch_thr lr k t sum : Q`, with
    `objective_sizes` -> k (a nat), `objective_sums` -> sum, `x ** objective_sizes` -> `qpow x k`.

Typed environment (anything outside it raises `Unsupported`; the tie then counts as broken and the check says so):
  extra_args["threshold_min"] : extended number (option Q, None = -inf);  extra_args["learning_rate"] : Q;  extra_args["dtype"] : ignored;
  occupied[0] : bool;  cur_data["threshold"][0] : Q;  new_data["objective"][0] : Q;
  np_scalar(c, dtype=...) -> c;  np.array([e]) / [e] -> e;  `x == -np.inf` -> is-None test;
  `A if x == -np.inf else x` -> match x with None => A | Some t => t;  `ext < q` -> lt_ext;  `q < q` -> Qltb;  and / or / not;
  + - * and float literals (exact decimal value);  state: add_info["status"] : Z, add_info["value"] : Q, new_data["threshold"] : option Q;
  `if len(indices) != 1: raise ...` guard (documented single-entry precondition) is skipped;
  the final `if add_info["status"]: return indices, new_data, add_info / else: return np.array([], ...), {}, add_info` -> stored flag.
The output coq/Generated/TransGen.v is rewritten (atomically, only when its text changes) at import time, i.e. before the Coq gate of
./check runs; coq/Refine/TransRefine.v proves the generated functions equal to Model/Archive.v's for all arguments."""
import ast
import hashlib
import os
from fractions import Fraction

ROOT = os.path.dirname(os.path.dirname(os.path.abspath(__file__)))
REPO = os.environ.get("VERIF_REPO", "/repo")
OUT = os.path.join(ROOT, "coq", "Generated", "TransGen.v")
SRC = "ribs/archives/_transforms.py"


class Unsupported(Exception):
    pass


def _fail(node, why):
    raise Unsupported("%s at line %s: %s" % (why, getattr(node, "lineno", "?"), ast.dump(node)[:200]))


def _sub_chain(node):
    """x["k"][0] / x[0] / x["k"] -> (base name, [keys])"""
    keys = []
    while isinstance(node, ast.Subscript):
        s = node.slice
        if not isinstance(s, ast.Constant):
            return None
        keys.append(s.value)
        node = node.value
    if isinstance(node, ast.Name):
        return node.id, list(reversed(keys))
    return None


INPUTS = {("extra_args", ("threshold_min",)): ("tmin", "E"), ("extra_args", ("learning_rate",)): ("lr", "Q"),
          ("extra_args", ("dtype",)): ("tt", "U"), ("occupied", (0,)): ("occ0", "B"),
          ("cur_data", ("threshold", 0)): ("thr0", "Q"), ("new_data", ("objective", 0)): ("obj0", "Q")}
STATE = {("add_info", ("status",)): ("st_status", "Z"), ("add_info", ("value",)): ("st_value", "Q"),
         ("new_data", ("threshold",)): ("st_newthr", "O")}
INIT = {"st_status": "0%Z", "st_value": "0", "st_newthr": "None"}


def lit(v, node):
    if isinstance(v, bool) or not isinstance(v, (int, float)):
        _fail(node, "unsupported literal")
    fr = Fraction(repr(v)) if isinstance(v, float) else Fraction(v)
    if fr.denominator == 1:
        return "%d" % fr.numerator if fr >= 0 else "(-%d)" % -fr.numerator
    return "(%d # %d)" % (fr.numerator, fr.denominator)


class Single:
    """translator of single_entry_with_threshold"""

    def __init__(self, fdef):
        self.env = {}          # python local name -> (gallina name, type)
        self.ver = {}
        self.lines = []
        self.stored = None
        body = list(fdef.body)
        if body and isinstance(body[0], ast.Expr) and isinstance(body[0].value, ast.Constant) and isinstance(body[0].value.value, str):
            body = body[1:]
        # documented precondition guard
        if body and isinstance(body[0], ast.If) and self.is_len_guard(body[0]):
            body = body[1:]
        else:
            raise Unsupported("single_entry_with_threshold: the len(indices) != 1 guard is missing")
        for k, st in enumerate(body):
            last = k == len(body) - 1
            if last:
                self.final(st)
            else:
                self.stmt(st, self.lines)
        if self.stored is None:
            raise Unsupported("no final return")

    @staticmethod
    def is_len_guard(st):
        t = st.test
        return (isinstance(t, ast.Compare) and len(t.ops) == 1 and isinstance(t.ops[0], ast.NotEq) and isinstance(t.left, ast.Call)
                and isinstance(t.left.func, ast.Name) and t.left.func.id == "len" and isinstance(t.comparators[0], ast.Constant)
                and t.comparators[0].value == 1 and len(st.body) == 1 and isinstance(st.body[0], ast.Raise) and not st.orelse)

    # ---- expressions: return (text, type)
    def expr(self, e):
        ch = _sub_chain(e) if isinstance(e, ast.Subscript) else None
        if ch:
            key = (ch[0], tuple(ch[1]))
            if key in INPUTS:
                return INPUTS[key]
            if key in STATE:
                return STATE[key]
            _fail(e, "subscript outside the declared environment")
        if isinstance(e, ast.Name):
            if e.id in self.env:
                return self.env[e.id]
            _fail(e, "undefined name")
        if isinstance(e, ast.Constant):
            return lit(e.value, e), "Q"
        if isinstance(e, ast.List) and len(e.elts) == 1:
            return self.expr(e.elts[0])
        if isinstance(e, ast.Call):
            f = e.func
            if isinstance(f, ast.Name) and f.id == "np_scalar" and len(e.args) == 1:
                if any(k.arg != "dtype" for k in e.keywords):
                    _fail(e, "np_scalar keywords")
                return self.expr(e.args[0])
            if isinstance(f, ast.Attribute) and isinstance(f.value, ast.Name) and f.value.id == "np" and f.attr == "array" and len(e.args) == 1 and not e.keywords:
                a = e.args[0]
                if isinstance(a, ast.List) and len(a.elts) == 1:
                    t, ty = self.expr(a.elts[0])
                    if ty == "Q" and isinstance(a.elts[0], ast.Constant) and isinstance(a.elts[0].value, int):
                        return "%d%%Z" % a.elts[0].value, "Z"
                    return t, ty
            _fail(e, "unsupported call")
        if isinstance(e, ast.UnaryOp):
            if isinstance(e.op, ast.Not):
                t, ty = self.expr(e.operand)
                return "(negb %s)" % self.as_bool(t, ty, e), "B"
            if isinstance(e.op, ast.USub):
                t, ty = self.expr(e.operand)
                if ty != "Q":
                    _fail(e, "negation of a non-number")
                return "(- %s)" % t, "Q"
            _fail(e, "unsupported unary operator")
        if isinstance(e, ast.BoolOp):
            parts = [self.as_bool(*self.expr(v), v) for v in e.values]
            op = " && " if isinstance(e.op, ast.And) else " || "
            return "(" + op.join(parts) + ")%bool", "B"
        if isinstance(e, ast.Compare):
            if len(e.ops) != 1:
                _fail(e, "chained comparison")
            if self.is_ninf(e.comparators[0]) and isinstance(e.ops[0], ast.Eq):
                t, ty = self.expr(e.left)
                if ty != "E":
                    _fail(e, "== -inf on a finite quantity")
                return "(is_ninf %s)" % t, "B"
            l, lt = self.expr(e.left)
            r, rt = self.expr(e.comparators[0])
            if isinstance(e.ops[0], ast.Lt):
                if (lt, rt) == ("E", "Q"):
                    return "(lt_ext %s %s)" % (l, r), "B"
                if (lt, rt) == ("Q", "Q"):
                    return "(Qltb %s %s)" % (l, r), "B"
            _fail(e, "unsupported comparison")
        if isinstance(e, ast.IfExp):
            # A if x == -np.inf else x
            t = e.test
            if (isinstance(t, ast.Compare) and len(t.ops) == 1 and isinstance(t.ops[0], ast.Eq) and self.is_ninf(t.comparators[0])):
                x, xt = self.expr(t.left)
                o, ot = self.expr(e.orelse)
                a, at = self.expr(e.body)
                if xt == "E" and ot == "E" and o == x and at == "Q":
                    return "(match %s with None => %s | Some fin => fin end)" % (x, a), "Q"
            c, ct = self.expr(e.test)
            a, at = self.expr(e.body)
            b, bt = self.expr(e.orelse)
            if at != bt:
                _fail(e, "conditional expression with branches of different types")
            return "(if %s then %s else %s)" % (self.as_bool(c, ct, e), a, b), at
        if isinstance(e, ast.BinOp):
            l, lt = self.expr(e.left)
            r, rt = self.expr(e.right)
            if lt != "Q" or rt != "Q":
                _fail(e, "arithmetic on a non-number")
            for cls, s in ((ast.Add, "+"), (ast.Sub, "-"), (ast.Mult, "*")):
                if isinstance(e.op, cls):
                    return "(%s %s %s)" % (l, s, r), "Q"
            _fail(e, "unsupported operator")
        _fail(e, "unsupported expression")

    @staticmethod
    def is_ninf(n):
        return (isinstance(n, ast.UnaryOp) and isinstance(n.op, ast.USub) and isinstance(n.operand, ast.Attribute)
                and isinstance(n.operand.value, ast.Name) and n.operand.value.id == "np" and n.operand.attr == "inf")

    def as_bool(self, t, ty, node):
        if ty == "B":
            return t
        if ty == "Z":
            return "(negb (Z.eqb %s 0))" % t
        _fail(node, "truth value of a non-boolean")

    # ---- statements
    def fresh(self, base):
        self.ver[base] = self.ver.get(base, 0) + 1
        return "%s_%d" % (base, self.ver[base])

    def assign(self, target, text, ty, out):
        ch = _sub_chain(target) if isinstance(target, ast.Subscript) else None
        if ch:
            key = (ch[0], tuple(ch[1]))
            if key not in STATE:
                _fail(target, "assignment outside the declared state")
            name, sty = STATE[key]
            if sty == "O":
                if ty != "Q":
                    _fail(target, "threshold of a non-number")
                text = "(Some %s)" % text
            elif sty != ty:
                _fail(target, "state variable %s assigned a %s" % (name, ty))
            out.append((name, text))
            return name
        if isinstance(target, ast.Name):
            g = "v_" + target.id
            self.env[target.id] = (g, ty)
            out.append((g, text))
            return g
        _fail(target, "unsupported assignment target")

    def stmt(self, st, out):
        if isinstance(st, ast.Assign):
            if len(st.targets) != 1:
                _fail(st, "multiple targets")
            t, ty = self.expr(st.value)
            self.assign(st.targets[0], t, ty, out)
        elif isinstance(st, ast.If):
            c = self.as_bool(*self.expr(st.test), st)
            env0 = dict(self.env)
            a, b = [], []
            for s in st.body:
                self.stmt(s, a)
            env_a = dict(self.env)
            self.env = dict(env0)
            for s in st.orelse:
                self.stmt(s, b)
            env_b = dict(self.env)
            names = []
            for n, _ in a + b:
                if n not in names:
                    names.append(n)
            # every variable assigned in a branch must already have a value on the other path
            for n in names:
                known = n in INIT or any(v[0] == n for v in env0.values())
                if not known and not (any(x[0] == n for x in a) and any(x[0] == n for x in b)):
                    _fail(st, "variable %s defined on one path only" % n)
            self.env = dict(env0)
            for k, v in list(env_a.items()) + list(env_b.items()):
                if k in self.env and self.env[k][1] != v[1]:
                    _fail(st, "variable changes type across branches")
                self.env[k] = v

            def block(lines):
                s = ""
                for n, t in lines:
                    s += "let %s := %s in " % (n, t)
                return s + "(" + ", ".join(names) + ")" if len(names) > 1 else s + names[0]
            if not names:
                return
            pat = "'(" + ", ".join(names) + ")" if len(names) > 1 else names[0]
            out.append((pat, "(if %s then %s else %s)" % (c, block(a), block(b))))
        else:
            _fail(st, "unsupported statement")

    def final(self, st):
        ok = (isinstance(st, ast.If) and len(st.body) == 1 and len(st.orelse) == 1 and isinstance(st.body[0], ast.Return)
              and isinstance(st.orelse[0], ast.Return))
        if not ok:
            _fail(st, "unsupported final statement")
        c = self.as_bool(*self.expr(st.test), st)

        def kind(ret):
            v = ret.value
            if not (isinstance(v, ast.Tuple) and len(v.elts) == 3):
                _fail(ret, "return value")
            a, b, cc = v.elts
            if not (isinstance(cc, ast.Name) and cc.id == "add_info"):
                _fail(ret, "third component must be add_info")
            if isinstance(a, ast.Name) and a.id == "indices" and isinstance(b, ast.Name) and b.id == "new_data":
                return True
            if isinstance(b, ast.Dict) and not b.keys and isinstance(a, ast.Call):
                return False
            _fail(ret, "unrecognised return")
        ka, kb = kind(st.body[0]), kind(st.orelse[0])
        if ka == kb:
            _fail(st, "both branches return the same thing")
        self.stored = c if ka else "(negb %s)" % c

    def gallina(self):
        s = "Definition gen_single (occ0 : bool) (thr0 : Q) (tmin : option Q) (lr : Q) (obj0 : Q) : Z * Q * option Q * bool :=\n"
        s += "  let tt := tt in\n"
        for n, v in INIT.items():
            s += "  let %s := %s in\n" % (n, v)
        for n, t in self.lines:
            s += "  let %s := %s in\n" % (n, t)
        s += "  (st_status, st_value, st_newthr, %s).\n" % self.stored
        return s


def batch_thr(fdef):
    """the two assignments `ratio = ...` and `new_threshold = ...` of _compute_thresholds"""
    vals = {}
    for st in ast.walk(fdef):
        if isinstance(st, ast.Assign) and len(st.targets) == 1 and isinstance(st.targets[0], ast.Name) and st.targets[0].id in ("ratio", "new_threshold"):
            if st.targets[0].id in vals:
                raise Unsupported("_compute_thresholds assigns %s twice" % st.targets[0].id)
            vals[st.targets[0].id] = st.value
    if set(vals) != {"ratio", "new_threshold"}:
        raise Unsupported("_compute_thresholds: ratio / new_threshold assignments not found")
    env = {"learning_rate": "lr", "cur_threshold": "t", "objective_sums": "sm", "objective_sizes": "(qnat k)"}

    def ex(e):
        if isinstance(e, ast.Name):
            if e.id == "ratio":
                return "ratio"
            if e.id in env:
                return env[e.id]
            _fail(e, "undefined name")
        if isinstance(e, ast.Constant):
            return lit(e.value, e)
        if isinstance(e, ast.Call) and isinstance(e.func, ast.Name) and e.func.id == "np_scalar" and len(e.args) == 1:
            return ex(e.args[0])
        if isinstance(e, ast.BinOp):
            if isinstance(e.op, ast.Pow):
                if not (isinstance(e.right, ast.Name) and e.right.id == "objective_sizes"):
                    _fail(e, "power with an exponent other than objective_sizes")
                return "(qpow %s k)" % ex(e.left)
            for cls, s in ((ast.Add, "+"), (ast.Sub, "-"), (ast.Mult, "*"), (ast.Div, "/")):
                if isinstance(e.op, cls):
                    return "(%s %s %s)" % (ex(e.left), s, ex(e.right))
        _fail(e, "unsupported expression")
    return ("Definition gen_batch_thr (lr : Q) (k : nat) (t sm : Q) : Q :=\n  let ratio := %s in\n  %s.\n"
            % (ex(vals["ratio"]), ex(vals["new_threshold"])))


def find_fn(tree, name):
    fs = [n for n in tree.body if isinstance(n, ast.FunctionDef) and n.name == name]
    if len(fs) != 1 or fs[0].decorator_list:
        raise Unsupported("cannot locate %s" % name)
    return fs[0]


def translate(repo=None):
    repo = repo or REPO
    tree = ast.parse(open(os.path.join(repo, SRC)).read())
    f1, f2 = find_fn(tree, "single_entry_with_threshold"), find_fn(tree, "_compute_thresholds")
    h = hashlib.sha256((ast.dump(f1) + ast.dump(f2)).encode()).hexdigest()
    text = ("(** GENERATED by harness/py2v_arch.py from the current pyribs source (%s) on every run -- do not edit.\n"
            "    Refine/TransRefine.v proves these equal to Model/Archive.v's definitions for all arguments. *)\n"
            "From Coq Require Import ZArith QArith Bool.\nFrom PV Require Import Base.QUtil Model.Archive.\nOpen Scope Q_scope.\n\n"
            "Definition is_ninf (x : option Q) : bool := match x with None => true | Some _ => false end.\n"
            "Definition lt_ext (x : option Q) (y : Q) : bool := match x with None => true | Some t => Qltb t y end.\n\n"
            "(** single_entry_with_threshold *)\n%s\n(** _compute_thresholds: ratio, new_threshold (per cell: k accepted, prior threshold t, objective sum sm) *)\n%s"
            % (SRC, Single(f1).gallina(), batch_thr(f2)))
    return text, h


def generate():
    st = {"ok": False, "error": None, "source": SRC, "written": False, "sha": None}
    try:
        text, st["sha"] = translate()
        st["ok"] = True
    except Unsupported as e:
        st["error"] = str(e)
        return st
    except Exception as e:  # noqa
        st["error"] = repr(e)
        return st
    try:
        old = open(OUT).read() if os.path.exists(OUT) else None
        if old != text:
            os.makedirs(os.path.dirname(OUT), exist_ok=True)
            tmp = OUT + ".tmp%d" % os.getpid()
            with open(tmp, "w") as f:
                f.write(text)
            os.replace(tmp, OUT)
            st["written"] = True
    except OSError as e:
        st["ok"], st["error"] = False, "cannot write %s: %r" % (OUT, e)
    return st


STATUS = generate()


def report(rep):
    """to be called by the checks that stand on these fragments"""
    rep.extra["source_fragments"] = {"translator": "harness/py2v_arch.py", "source": SRC, "ok": STATUS["ok"], "sha256_of_ast": STATUS["sha"],
                                     "refinement": "coq/Refine/TransRefine.v"}
    if not STATUS["ok"]:
        rep.violation("the translator cannot read the current source of %s any more (fail-closed): %s" % (SRC, STATUS["error"]),
                      {"kind": "translation", "broken": "harness/py2v_arch.py on " + SRC, "error": STATUS["error"]}, False, {"kind": "translation"})


if __name__ == "__main__":
    print(STATUS)
    print(open(OUT).read() if STATUS["ok"] else "")
