"""Harness code for C14 (ProximityArchive): case generation, implementation runner (public API only), model input
construction, comparison, the independent oracle (the property's clauses evaluated on implementation outputs with
exact Fraction arithmetic), shrinking.

A case is {"cfg": {...}, "ops": [...]}.
  cfg : k, thr (float), lc (bool), cap0, dtype ("f"/"d"), dim, sol_dim, extras (list of names), leaf (cKDTree leafsize or None),
        stream ("exact1d" | "lattice")
  ops : ["add", noobj, [[id, obj, [m...]], ...]] | ["add_single", noobj, [id, obj, [m...]]] | ["clear"] | ["lower"] | ["upper"]
        | ["novelty", with_obj, [[obj, [m...]], ...]] | ["index_of", [[m...], ...]] | ["retrieve_own", [row positions]]
Distances: stream exact1d: |x-y| computed exactly with Fractions (every float operation of the implementation is exact on the
dyadic lattice used); stream lattice: numpy float64 sqrt(sum of squares) of the dtype-cast coordinates (integer / half-integer
lattices: the sum of squares is exact and sqrt is correctly rounded; the oracle re-checks that with Fractions)."""
import itertools
import math
import random
from fractions import Fraction

import numpy as np

from common import err_code

DT = {"f": np.float32, "d": np.float64}


class Borderline(Exception):
    """novelty within rounding distance of the threshold on the numpy-distance stream: decision not comparable"""


def F(x):
    return Fraction(float(x))


def ulp64(x):
    x = abs(float(x))
    if x == 0.0 or not math.isfinite(x):
        return 5e-324
    return math.nextafter(x, math.inf) - x


# ---------------------------------------------------------------------------------------------
# encoding of candidate ids into the payload fields
def enc_solution(i, sol_dim):
    return [float(i), float(-i), i / 2.0][:sol_dim]


def dec_row(cfg, d, j):
    ids = set()
    sol = [float(x) for x in d["solution"][j]]
    i = sol[0]
    if i != int(i) or sol != enc_solution(int(i), cfg["sol_dim"]):
        return ["torn", sol]
    ids.add(int(i))
    if "es" in cfg["extras"]:
        v = float(d["es"][j])
        if v != int(v) or (int(v) - 1) % 2:
            return ["torn", sol, v]
        ids.add((int(v) - 1) // 2)
    if "eo" in cfg["extras"]:
        v = d["eo"][j]
        if not (isinstance(v, dict) and set(v) == {"o"}):
            return ["torn", sol, str(v)]
        ids.add(v["o"])
    if len(ids) != 1:
        return ["torn", sorted(ids)]
    return ids.pop()


def extra_fields(cfg):
    d = {}
    if "es" in cfg["extras"]:
        d["es"] = ((), np.float64)
    if "eo" in cfg["extras"]:
        d["eo"] = ((), object)
    return d or None


def mk_archive(cfg):
    from ribs.archives import ProximityArchive
    kw = {}
    if cfg.get("leaf"):
        kw["ckdtree_kwargs"] = {"leafsize": cfg["leaf"]}
    return ProximityArchive(solution_dim=cfg["sol_dim"], measure_dim=cfg["dim"], k_neighbors=cfg["k"],
                            novelty_threshold=cfg["thr"], local_competition=cfg["lc"], initial_capacity=cfg["cap0"],
                            dtype=DT[cfg["dtype"]], extra_fields=extra_fields(cfg), seed=1, **kw)


def thr_exact(cfg):
    return F(DT[cfg["dtype"]](cfg["thr"]))


def cast(cfg, x):
    return DT[cfg["dtype"]](x)


def rows_of(archive, cfg):
    """data() as an ordered list [index, [obj, thr, id, measures]] in the order data() returns (occupied_list order)"""
    d = archive.data()
    out = []
    for j in range(len(d["index"])):
        out.append([int(d["index"][j]), [F(d["objective"][j]), F(d["threshold"][j]), dec_row(cfg, d, j),
                                         [F(x) for x in d["measures"][j]]]])
    return out


def exact_dists(cfg, meas_rows, m):
    """distances of point m (list of floats, already dtype-cast) to the stored measures (list of lists of Fractions)"""
    if not meas_rows:
        return []
    if cfg["stream"] == "exact1d":
        x = F(m[0])
        return [abs(x - r[0]) for r in meas_rows]
    M = np.array([[float(v) for v in r] for r in meas_rows], dtype=np.float64)
    c = np.array([float(v) for v in m], dtype=np.float64)
    d = np.sqrt(((M - c) ** 2).sum(axis=1))
    return [F(v) for v in d]


def cast_point(cfg, m):
    # "offset" configurations: every measure coordinate carries the same large offset (time stamps, absolute positions); the distances
    # between the points stay small and exactly representable, |m| / distance is huge
    off = float(cfg.get("offset", 0.0))
    return [float(cast(cfg, v + off)) for v in m]


# ---------------------------------------------------------------------------------------------
# implementation runner
def batch_arrays(cfg, cands, noobj, container):
    dtype = DT[cfg["dtype"]]
    sol = [enc_solution(c[0], cfg["sol_dim"]) for c in cands]
    obj = None if noobj else [float(dtype(c[1])) for c in cands]       # dtype-cast values (possibly in a wider container)
    meas = [cast_point(cfg, c[2]) for c in cands]
    fields = {}
    if "es" in cfg["extras"]:
        fields["es"] = [float(2 * c[0] + 1) for c in cands]
    if "eo" in cfg["extras"]:
        arr = np.empty(len(cands), dtype=object)
        for j, c in enumerate(cands):
            arr[j] = {"o": int(c[0])}
        fields["eo"] = arr
    if container == "nd" or not cands:
        sol = np.array(sol, dtype=dtype).reshape(len(cands), cfg["sol_dim"])
        meas = np.array(meas, dtype=dtype).reshape(len(cands), cfg["dim"])
        if obj is not None:
            obj = np.array(obj, dtype=dtype)
        if "es" in fields:
            fields["es"] = np.array(fields["es"], dtype=np.float64)
    elif container in ("f64", "wide"):
        sol = np.array(sol, dtype=np.float64)
        meas = np.array(meas, dtype=np.float64)
        if obj is not None:
            obj = np.array(obj, dtype=np.float64)
            if container == "wide" and dtype == np.float32:
                # float64 objectives that are NOT float32 values but round to the intended ones: everything the archive reports must
                # be computed from the stored (cast) objective
                pert = np.array([1.0 + (2.0 ** -30 if c[0] % 2 == 0 else -(2.0 ** -30)) for c in cands])
                wide = obj * pert
                assert np.array_equal(wide.astype(np.float32), obj.astype(np.float32))
                obj = wide
    return sol, obj, meas, fields


def info_out(cfg, info):
    exp_keys = {"status", "novelty"} | ({"value", "local_competition"} if cfg["lc"] else set())
    if set(info.keys()) != exp_keys:
        return ["keys", sorted(info.keys())]
    val = info.get("value")
    return [0, [int(x) for x in info["status"]], [float(x) for x in info["novelty"]],
            [int(x) for x in info["local_competition"]] if cfg["lc"] else [],
            [float(x) for x in val] if cfg["lc"] else [],
            (np.asarray(val).dtype.name if cfg["lc"] else "")]


def stats_problem(a, hist_scale=0.0):
    """C06 on a ProximityArchive: the statistics and best_elite must agree with the contents after every operation (the archive is elitist:
    entries are only ever replaced by strictly better ones). Returns a message or None."""
    st, d = a.stats, a.data()
    objs = np.asarray(d["objective"], dtype=np.float64)
    n = len(objs)
    be = a.best_elite
    if st.num_elites != n or len(a) != n:
        return "stats.num_elites = %r, len = %r, but data() has %d entries" % (st.num_elites, len(a), n)
    if n == 0:
        if be is not None or st.obj_max is not None or float(st.qd_score) != 0.0:
            return "empty archive but best_elite = %r, obj_max = %r, qd_score = %r" % (be, st.obj_max, st.qd_score)
        return None
    # the running sum is updated incrementally, so its rounding error scales with everything that was ever added or subtracted
    tol = (1e-4 if d["objective"].dtype == np.float32 else 1e-10) * (float(np.sum(np.abs(objs))) + 2.0 * hist_scale + abs(float(a.qd_score_offset)) * n + 1.0)
    want_qd = float(np.sum(objs - float(a.qd_score_offset)))
    if abs(float(st.qd_score) - want_qd) > tol:
        return "stats.qd_score = %r but the contents give %r" % (float(st.qd_score), want_qd)
    if float(st.obj_max) != float(np.max(objs)):
        return "stats.obj_max = %r but the largest stored objective is %r" % (float(st.obj_max), float(np.max(objs)))
    if abs(float(st.obj_mean) - want_qd / n - float(a.qd_score_offset)) > tol and abs(float(st.obj_mean) - float(np.mean(objs))) > tol:
        return "stats.obj_mean = %r but the contents give %r" % (float(st.obj_mean), float(np.mean(objs)))
    if be is None or float(be["objective"]) != float(np.max(objs)):
        return "best_elite has objective %r but the largest stored objective is %r" % (None if be is None else float(be["objective"]), float(np.max(objs)))
    k = int(be["index"])
    pos = [j for j in range(n) if int(d["index"][j]) == k]
    if not pos or not all(np.array_equal(np.asarray(be[f]), np.asarray(d[f][pos[0]])) for f in ("solution", "measures")) or float(d["objective"][pos[0]]) != float(be["objective"]):
        return "best_elite (index %d) is not the entry stored at that index" % k
    return None


def run_impl(case):
    """Runs the history on the real ProximityArchive. Returns a list of trace entries:
       {"op", "pre": rows, "cands": [[id, objF, measF, dists, near]], "out": ..., "post": rows, "len", "cap"}"""
    cfg = case["cfg"]
    try:
        a = mk_archive(cfg)
    except Exception as e:  # noqa
        return {"init": [err_code(e)], "trace": []}
    trace = []
    rows = rows_of(a, cfg)
    hist_scale = 0.0
    bufs = {}

    def reuse(x):
        """callers often keep ONE preallocated measures array and refill it in place between calls: same object, new contents"""
        if not case.get("reuse") or not isinstance(x, np.ndarray):
            return x
        key = (x.shape, x.dtype.str)
        if key in bufs:
            bufs[key][...] = x
            return bufs[key]
        bufs[key] = x
        return x
    for step, op in enumerate(case["ops"]):
        if case.get("relay") and step and step % case["relay"]["every"] == 0:
            # a deep copy / pickle round trip of the archive continues exactly like the original
            import copy
            import pickle
            a = copy.deepcopy(a) if case["relay"]["how"] == "deepcopy" else pickle.loads(pickle.dumps(a))
        ent = {"op": op, "pre": rows}
        pre_meas = [r[1][3] for r in rows]
        kind = op[0]
        if kind in ("add", "add_single"):
            noobj = op[1]
            cands = op[2] if kind == "add" else [op[2]]
            cl = []
            pts = [cast_point(cfg, c[2]) for c in cands]
            near = [0] * len(cands)
            if rows and cands:
                near = [int(x) for x in a.index_of(np.array(pts, dtype=DT[cfg["dtype"]]))]
            for c, p, nr in zip(cands, pts, near):
                o = Fraction(0) if noobj else F(cast(cfg, c[1]))
                cl.append([int(c[0]), o, [F(v) for v in p], exact_dists(cfg, pre_meas, p), nr])
            ent["cands"] = cl
            try:
                if kind == "add":
                    sol, obj, meas, fields = batch_arrays(cfg, cands, noobj, op[3] if len(op) > 3 else "list")
                    meas = reuse(meas)
                    info = a.add(sol, obj, meas, **fields)
                else:
                    c = cands[0]
                    fields = {}
                    if "es" in cfg["extras"]:
                        fields["es"] = float(2 * c[0] + 1)
                    if "eo" in cfg["extras"]:
                        fields["eo"] = {"o": int(c[0])}
                    info = a.add_single(enc_solution(c[0], cfg["sol_dim"]), None if noobj else float(cast(cfg, c[1])),
                                        cast_point(cfg, c[2]), **fields)
                ent["out"] = info_out(cfg, info)
            except Exception as e:  # noqa
                ent["out"] = [err_code(e), repr(e)[:200]]
        elif kind == "clear":
            a.clear()
            ent["out"] = [0]
        elif kind in ("lower", "upper"):
            try:
                v = a.lower_bounds if kind == "lower" else a.upper_bounds
                ent["out"] = [0, [F(x) for x in v]]
            except Exception as e:  # noqa
                ent["out"] = [err_code(e)]
        elif kind == "novelty":
            with_obj, qs = op[1], op[2]
            pts = [cast_point(cfg, q[1]) for q in qs]
            ent["cands"] = [[0, F(cast(cfg, q[0])), [F(v) for v in p], exact_dists(cfg, pre_meas, p), 0] for q, p in zip(qs, pts)]
            try:
                arr = reuse(np.array(pts, dtype=DT[cfg["dtype"]]).reshape(len(pts), cfg["dim"]))
                if with_obj:
                    nv, lc = a.compute_novelty(arr, local_competition=np.array([q[0] for q in qs], dtype=DT[cfg["dtype"]]))
                    ent["out"] = [0, [float(x) for x in nv], [int(x) for x in lc]]
                else:
                    nv = a.compute_novelty(arr)
                    ent["out"] = [0, [float(x) for x in nv], None]
            except Exception as e:  # noqa
                ent["out"] = [err_code(e), repr(e)[:200]]
        elif kind == "index_of":
            pts = [cast_point(cfg, m) for m in op[1]]
            ent["cands"] = [[0, Fraction(0), [F(v) for v in p], exact_dists(cfg, pre_meas, p), 0] for p in pts]
            try:
                idx = a.index_of(np.array(pts, dtype=DT[cfg["dtype"]]).reshape(len(pts), cfg["dim"]))
                ent["out"] = [0, [int(x) for x in idx]]
            except Exception as e:  # noqa
                ent["out"] = [err_code(e)]
        elif kind == "retrieve_own":
            pos = [p % len(rows) for p in op[1]] if rows else []
            ent["pos"] = pos
            pts = [[float(v) for v in rows[p][1][3]] for p in pos]
            ent["cands"] = [[0, Fraction(0), [F(v) for v in p], exact_dists(cfg, pre_meas, p), 0] for p in pts]
            try:
                if pts:
                    occ, d = a.retrieve(np.array(pts, dtype=DT[cfg["dtype"]]))
                    ent["out"] = [0, [bool(x) for x in occ], [int(x) for x in d["index"]],
                                  [[F(v) for v in r] for r in d["measures"]], [dec_row(cfg, d, j) for j in range(len(pts))]]
                else:
                    ent["out"] = [0, [], [], [], []]
            except Exception as e:  # noqa
                ent["out"] = [err_code(e), repr(e)[:200]]
        else:
            raise AssertionError(kind)
        rows = rows_of(a, cfg)
        ent["post"] = rows
        if kind in ("add", "add_single") and not op[1]:
            hist_scale += sum(abs(float(cast(cfg, c[1]))) for c in (op[2] if kind == "add" else [op[2]]))
        ent["stats_problem"] = stats_problem(a, hist_scale)
        ent["len"] = len(a)
        ent["cap"] = int(a.capacity)
        ent["empty"] = bool(a.empty)
        trace.append(ent)
    return {"init": [0], "trace": trace}


# ---------------------------------------------------------------------------------------------
# model side
def cfg_sx(cfg):
    return [cfg["k"], thr_exact(cfg), bool(cfg["lc"]), max(cfg["cap0"], 0)]


def cand_sx(c):
    return [c[1], c[0], c[2], c[3], c[4]]


def model_ops(trace):
    """model op list; returns (mops, owner) where owner[j] = (trace index, role)"""
    mops, owner = [], []
    for t, ent in enumerate(trace):
        op = ent["op"]
        k = op[0]
        if k == "add":
            mops.append([0, bool(op[1]), [cand_sx(c) for c in ent["cands"]]])
            owner.append((t, "op"))
        elif k == "add_single":
            mops.append([1, bool(op[1]), cand_sx(ent["cands"][0])])
            owner.append((t, "op"))
        elif k == "clear":
            mops.append([2])
            owner.append((t, "op"))
        elif k == "lower":
            mops.append([3])
            owner.append((t, "op"))
        elif k == "upper":
            mops.append([4])
            owner.append((t, "op"))
        elif k == "novelty":
            mops.append([6, [cand_sx(c) for c in ent["cands"]]])
            owner.append((t, "op"))
        elif k in ("index_of", "retrieve_own"):
            out = ent["out"]
            if out[0] == 0:
                idx = out[1] if k == "index_of" else out[2]
                for c, i in zip(ent["cands"], idx):
                    mops.append([7, c[3], max(int(i), 0)])
                    owner.append((t, "near"))
        mops.append([5])
        owner.append((t, "obs"))
    return mops, owner


def unq(p):
    return Fraction(p[0], p[1])


def model_rows(mo):
    return [[r[0], [unq(r[1][0]), unq(r[1][1]), r[1][2], [unq(x) for x in r[1][3]]] if r[1] else None] for r in mo[2]]


def round_to(dtype_name, fr):
    v = float(fr)
    if dtype_name == "float32":
        with np.errstate(over="ignore"):
            return float(np.float32(v))
    return v


def nov_close(cfg, impl, exact, n_pre):
    """reported novelty vs the exact mean of the exact distances"""
    if n_pre == 0:
        return F(impl) == exact
    if cfg["stream"] == "exact1d":
        return impl == float(exact)          # one correctly rounded division
    return abs(F(impl) - exact) <= 8 * Fraction(ulp64(float(exact)))


def check_borderline(cfg, exact_nov, n_pre):
    if n_pre == 0 or cfg["stream"] == "exact1d":
        return
    t = thr_exact(cfg)
    if exact_nov != t and abs(exact_nov - t) <= 16 * Fraction(ulp64(float(t)) if t else 5e-324):
        raise Borderline()
    if exact_nov == t and float(exact_nov) != exact_nov:
        raise Borderline()


def compare(case, driver, res=None):
    """Returns None when implementation and model agree on every observable, else a description."""
    cfg = case["cfg"]
    res = res or run_impl(case)
    trace = res["trace"]
    mops, owner = model_ops(trace)
    mout = driver.call("C14", [cfg_sx(cfg) if cfg["cap0"] >= 0 else [cfg["k"], thr_exact(cfg), bool(cfg["lc"]), 0], mops])
    if mout[0] != res["init"]:
        return {"step": -1, "what": "constructor", "model": mout[0], "impl": res["init"]}
    if res["init"] != [0]:
        return None
    mout = mout[1:]
    assert len(mout) == len(mops), (len(mout), len(mops))
    for t, ent in enumerate(trace):
        if ent.get("stats_problem"):
            return {"step": t, "what": "statistics / best_elite vs contents", "model": None, "impl": ent["stats_problem"]}
    for mo, mop, (t, role) in zip(mout, mops, owner):
        ent = trace[t]
        op, out = ent["op"], ent["out"]
        n_pre = len(ent["pre"])

        def bad(what, m, i):
            return {"step": t, "op": op[0], "what": what, "model": m, "impl": i}
        if role == "obs":
            if mo[0] != ent["len"]:
                return bad("len", mo[0], ent["len"])
            if mo[1] != ent["cap"]:
                return bad("capacity", mo[1], ent["cap"])
            if model_rows(mo) != ent["post"]:
                return bad("data()", model_rows(mo), ent["post"])
            if ent["empty"] != (ent["len"] == 0):
                return bad("empty", ent["len"] == 0, ent["empty"])
        elif role == "near":
            if mo != 1:
                return bad("index_of / retrieve returned an index that is not a stored entry at minimum distance", mop, out)
        elif op[0] in ("add", "add_single"):
            if mo[0] != 0 or out[0] != 0:
                if [mo[0]] != out[:1]:
                    return bad("result class", mo, out)
                continue
            exact_nov = [unq(x) for x in mo[2]]
            for v in exact_nov:
                check_borderline(cfg, v, n_pre)
            if mo[1] != out[1]:
                return bad("status", mo[1], out[1])
            if len(exact_nov) != len(out[2]) or not all(nov_close(cfg, i, e, n_pre) for i, e in zip(out[2], exact_nov)):
                return bad("novelty", [str(x) for x in exact_nov], out[2])
            if len(mo[3]) != len(out[3]) or not all(lo <= v <= hi for (lo, hi), v in zip(mo[3], out[3])):
                return bad("local_competition (allowed interval)", mo[3], out[3])
            mv = [unq(x) for x in mo[4]]
            if len(mv) != len(out[4]) or not all(round_to(out[5], e) == i for e, i in zip(mv, out[4])):
                return bad("value", [str(x) for x in mv], out[4])
        elif op[0] == "clear":
            pass
        elif op[0] in ("lower", "upper"):
            m = [0, [unq(x) for x in mo[1]]] if mo[0] == 0 else [mo[0]]
            if m != out:
                return bad(op[0] + "_bounds", m, out)
        elif op[0] == "novelty":
            if out[0] != 0:
                return bad("compute_novelty raised", mo, out)
            exact_nov = [unq(x) for x in mo[0]]
            if len(exact_nov) != len(out[1]) or not all(nov_close(cfg, i, e, n_pre) for i, e in zip(out[1], exact_nov)):
                return bad("compute_novelty", [str(x) for x in exact_nov], out[1])
            if out[2] is not None and not all(lo <= v <= hi for (lo, hi), v in zip(mo[1], out[2])):
                return bad("compute_novelty local competition", mo[1], out[2])
    # index_of / retrieve on an empty archive, retrieve_own payload checks
    for ent in trace:
        op, out = ent["op"], ent["out"]
        if op[0] == "index_of" and out[0] != (0 if ent["pre"] else 3):
            return {"step": trace.index(ent), "op": "index_of", "what": "error class", "impl": out, "model": "RuntimeError iff empty"}
        if op[0] == "retrieve_own" and ent["pre"]:
            if out[0] != 0:
                return {"step": trace.index(ent), "op": "retrieve_own", "what": "raised", "impl": out, "model": "ok"}
            for p, occ, i, m, ident in zip(ent["pos"], out[1], out[2], out[3], out[4]):
                want = ent["pre"][p][1][3]
                got_row = [r for r in ent["pre"] if r[0] == i]
                if not occ or m != want or not got_row or got_row[0][1][2] != ident or got_row[0][1][3] != m:
                    return {"step": trace.index(ent), "op": "retrieve_own", "what": "retrieve of a stored entry's own measures",
                            "impl": [occ, i, [str(x) for x in m], ident], "model": [str(x) for x in want]}
    return None


# ---------------------------------------------------------------------------------------------
# independent oracle: the clauses of C14 on implementation outputs, exact arithmetic, no model
def knn_info(k, dists):
    """(exact mean of the min(k,n) smallest, kk, strictly-below index list, tie index list, need)"""
    n = len(dists)
    kk = min(k, n)
    srt = sorted(dists)
    dk = srt[kk - 1]
    below = [i for i in range(n) if dists[i] < dk]
    tie = [i for i in range(n) if dists[i] == dk]
    return sum(srt[:kk]) / kk, kk, below, tie, kk - len(below)


def lc_allowed(k, dists, objs, o):
    _, kk, below, tie, need = knn_info(k, dists)
    base = sum(1 for i in below if objs[i] < o)
    if math.comb(len(tie), need) <= 3000:
        return {base + sum(1 for i in sel if objs[i] < o) for sel in itertools.combinations(tie, need)}
    tl = sum(1 for i in tie if objs[i] < o)
    return set(range(base + max(0, need - (len(tie) - tl)), base + min(need, tl) + 1))


def sqrt_correctly_rounded(d, s):
    """float d (as Fraction) is a correctly rounded sqrt of the exact rational s"""
    f = float(d)
    lo, hi = Fraction(math.nextafter(f, -math.inf)), Fraction(math.nextafter(f, math.inf))
    a, b = (d + lo) / 2, (d + hi) / 2
    return (a < 0 or a * a <= s) and s <= b * b


def oracle(case, res=None):
    """Returns (message, tags) for the first clause of C14 that the implementation's own outputs violate, else None."""
    cfg = case["cfg"]
    res = res or run_impl(case)
    if res["init"] != [0]:
        return ("constructor raised for initial_capacity %r" % cfg["cap0"], {"kind": "constructor"}) if cfg["cap0"] >= 1 else None
    thr = thr_exact(cfg)
    k = cfg["k"]
    cap = cfg["cap0"]
    cleared_since_add = False
    for t, ent in enumerate(res["trace"]):
        op, out, pre, post = ent["op"], ent["out"], ent["pre"], ent["post"]
        tag = "op %d (%s): " % (t, op[0])
        n = len(pre)
        if [r[0] for r in post] != list(range(len(post))) or ent["len"] != len(post):
            return tag + "stored indices %s are not 0..n-1 (len %d)" % ([r[0] for r in post], ent["len"]), {"kind": "indices"}
        if any(isinstance(r[1][2], list) for r in post):
            return tag + "torn row in data(): %s" % [r for r in post if isinstance(r[1][2], list)][:2], {"kind": "torn-row"}
        if ent["cap"] < ent["len"]:
            return tag + "capacity %d < len %d" % (ent["cap"], ent["len"]), {"kind": "capacity"}
        if ent.get("stats_problem"):
            return tag + ent["stats_problem"], {"kind": "stats-vs-contents"}
        if op[0] in ("add", "add_single"):
            if out[0] != 0:
                if op[1] and cfg["lc"] and out[0] == 1 and post == pre:
                    continue
                return tag + "valid add raised %s" % out, {"kind": "add-raised"}
            cands = ent["cands"]
            st, nov, lcs, vals = out[1], out[2], out[3], out[4]
            pre_obj = [r[1][0] for r in pre]
            novel = []
            for j, c in enumerate(cands):
                dists = c[3]
                if cfg["stream"] == "lattice" and pre:
                    for d, r in zip(dists, pre):
                        if not sqrt_correctly_rounded(d, sum((a - b) ** 2 for a, b in zip(c[2], r[1][3]))):
                            return tag + "numpy distance %s is not the correctly rounded Euclidean distance" % float(d), {"kind": "harness-distance"}
                if n == 0:
                    ex = thr
                    is_nov = True
                else:
                    ex = knn_info(k, dists)[0]
                    is_nov = ex >= thr
                    if cfg["stream"] == "lattice" and ex != thr and abs(ex - thr) <= 16 * Fraction(ulp64(float(thr)) if thr else 5e-324):
                        return None   # borderline: not judged
                novel.append(is_nov)
                if (st[j] == 2) != is_nov:
                    return (tag + "candidate %d: status %d but exact novelty %s %s threshold %s (C14_admit_iff)"
                            % (j, st[j], float(ex), ">=" if is_nov else "<", float(thr)), {"kind": "admit"})
                if not nov_close(cfg, nov[j], ex, n):
                    return tag + "candidate %d: reported novelty %r, exact mean of the %d nearest distances %r (C14_reported_novelty)" % (
                        j, nov[j], min(k, n), float(ex)), {"kind": "novelty"}
                if cfg["lc"]:
                    allowed = {0} if n == 0 else lc_allowed(k, dists, pre_obj, c[1])
                    if lcs[j] not in allowed:
                        return tag + "candidate %d: local_competition %d, allowed %s (C14_lc_count)" % (j, lcs[j], sorted(allowed)), {"kind": "lc-count"}
            new_rows = [[c[1], c[1], c[0], c[2]] for c, nv in zip(cands, novel) if nv]
            n_new = n + len(new_rows)
            # growth
            want_cap = cap
            while want_cap < n_new:
                want_cap *= 2
            if ent["cap"] != want_cap:
                return tag + "capacity %d, expected %d (double %d until >= %d) (C14_growth)" % (ent["cap"], want_cap, cap, n_new), {"kind": "growth"}
            exp = [list(r[1]) for r in pre]
            if cfg["lc"]:
                target = {}
                for j, (c, nv) in enumerate(zip(cands, novel)):
                    if nv:
                        if vals[j] != round_to(out[5], c[1]):
                            return tag + "candidate %d: value %r for a new entry with objective %r" % (j, vals[j], float(c[1])), {"kind": "value"}
                        continue
                    nr = c[4]
                    if not (0 <= nr < n) or any(c[3][nr] > d for d in c[3]):
                        return tag + "candidate %d: index_of returned %d which is not a nearest stored entry" % (j, nr), {"kind": "index-of"}
                    better = c[1] > pre_obj[nr]
                    if st[j] != (1 if better else 0):
                        return tag + "candidate %d (not novel): status %d, objective %r vs nearest entry's %r (C14_replace_iff)" % (
                            j, st[j], float(c[1]), float(pre_obj[nr])), {"kind": "replace-status"}
                    if vals[j] != round_to(out[5], c[1] - pre_obj[nr]):
                        return tag + "candidate %d: value %r, objective - nearest objective = %r" % (j, vals[j], float(c[1] - pre_obj[nr])), {"kind": "value"}
                    target.setdefault(nr, []).append(c)
                for nr, l in target.items():
                    best = None
                    for c in l:
                        if best is None or c[1] > best[1]:
                            best = c
                    if best[1] > pre_obj[nr]:
                        exp[nr] = [best[1], best[1], best[0], best[2]]
            else:
                for j, nv in enumerate(novel):
                    if not nv and st[j] != 0:
                        return tag + "candidate %d not novel but status %d" % (j, st[j]), {"kind": "admit"}
            exp = exp + new_rows
            got = [list(r[1]) for r in post]
            if got[:n] != exp[:n]:
                diff = [i for i in range(n) if got[i] != exp[i]]
                return (tag + "existing entries %s changed / not replaced as the property says (%s)" % (
                    diff[:4], "C14_replace_iff" if cfg["lc"] else "C14_append_only"), {"kind": "replace" if cfg["lc"] else "append-only"})
            if got != exp:
                return tag + "appended entries differ: got ids %s expected ids %s (C14_append_only/C14_growth)" % (
                    [g[2] for g in got[n:]], [e[2] for e in exp[n:]]), {"kind": "append"}
            cap = ent["cap"]
            if len(post) > n or got != [list(r[1]) for r in pre]:
                cleared_since_add = False
        elif op[0] == "clear":
            if post or ent["len"] != 0:
                return tag + "archive not empty after clear", {"kind": "clear"}
            cleared_since_add = True
        elif op[0] in ("lower", "upper"):
            if not post:
                if out[0] == 0:
                    kind = "proximity-bounds-stale-after-clear" if cleared_since_add else "proximity-bounds-on-empty"
                    return (tag + "archive is empty but %s_bounds returned %s instead of raising RuntimeError (C14_bounds)" % (
                        op[0], [float(x) for x in out[1]]), {"kind": kind})
                if out[0] != 3:
                    return tag + "empty archive: %s_bounds raised error class %d, expected RuntimeError" % (op[0], out[0]), {"kind": "bounds-error-class"}
            else:
                f = min if op[0] == "lower" else max
                want = [f(r[1][3][d] for r in post) for d in range(cfg["dim"])]
                if out != [0, want]:
                    return (tag + "%s_bounds = %s but the current measures give %s (C14_bounds)" % (
                        op[0], out[1:] and [float(x) for x in out[1]], [float(x) for x in want]), {"kind": "proximity-bounds-stale"})
        elif op[0] == "novelty":
            if out[0] != 0:
                return tag + "compute_novelty raised %s" % out, {"kind": "novelty-raised"}
            pre_obj = [r[1][0] for r in pre]
            for j, c in enumerate(ent["cands"]):
                ex = thr if n == 0 else knn_info(k, c[3])[0]
                if not nov_close(cfg, out[1][j], ex, n):
                    return tag + "compute_novelty point %d: %r vs exact %r" % (j, out[1][j], float(ex)), {"kind": "novelty"}
                if out[2] is not None:
                    allowed = {0} if n == 0 else lc_allowed(k, c[3], pre_obj, c[1])
                    if out[2][j] not in allowed:
                        return tag + "compute_novelty point %d: local competition %d, allowed %s" % (j, out[2][j], sorted(allowed)), {"kind": "lc-count"}
        elif op[0] in ("index_of", "retrieve_own"):
            if not pre:
                if op[0] == "index_of" and out[0] != 3:
                    return tag + "index_of on an empty archive: %s, expected RuntimeError" % out, {"kind": "index-of"}
                continue
            if out[0] != 0:
                return tag + "raised %s" % out, {"kind": "index-of"}
            idx = out[1] if op[0] == "index_of" else out[2]
            for c, i in zip(ent["cands"], idx):
                if not (0 <= i < n) or any(c[3][i] > d for d in c[3]):
                    return tag + "returned index %d is not a stored entry at minimum distance" % i, {"kind": "index-of"}
            if op[0] == "retrieve_own":
                for p, occ, i, m in zip(ent["pos"], out[1], out[2], out[3]):
                    if not occ or m != pre[p][1][3]:
                        return tag + "retrieve(own measures of entry %d) returned entry %d with other measures" % (p, i), {"kind": "retrieve-own"}
    return None


# ---------------------------------------------------------------------------------------------
# generation
THR_1D = [0.0, 0.0, 0.125, 0.25, 0.5, 0.5, 1.0, 1.0, 1.5, 2.0, 3.25, 6.0]
THR_ND = [0.0, 0.5, 1.0, 1.0, 1.5, 2.0, 2.0, 2.5, 1.4142135623730951, 2.23606797749979, 3.0, 1.7]
OBJ_POOL = [-2.0, -1.0, -0.5, 0.0, 0.0, 0.25, 0.5, 1.0, 1.0, 1.5, 2.0, 3.0]


def gen_obj(rng, cfg):
    r = rng.random()
    if r < 0.75 or cfg["stream"] == "exact1d" and r < 0.9:
        return rng.choice(OBJ_POOL)
    if r < 0.9:
        return rng.randrange(-64, 65) / 8.0
    return rng.choice([1e30, -1e30, 1e-30, 3.0000001, 2.9999999, 0.1, 1 / 3.0])


def gen_point(rng, cfg, pool):
    dim = cfg["dim"]
    if cfg["stream"] == "exact1d":
        step = 0.125
        thr = float(DT[cfg["dtype"]](cfg["thr"]))
        r = rng.random()
        if pool and r < 0.2:
            return list(rng.choice(pool))                        # duplicate of an earlier point
        if pool and r < 0.45:
            b = rng.choice(pool)[0]
            return [b + rng.choice([-1, 1]) * thr]               # exactly at threshold distance of an earlier point
        if pool and r < 0.65:
            b = rng.choice(pool)[0]
            return [b + rng.randrange(-8, 9) * step]             # close to an earlier point
        return [rng.randrange(-160, 161) * step]
    r = rng.random()
    half = cfg.get("half", False)
    span = cfg.get("span", 4)
    if pool and r < 0.2:
        return list(rng.choice(pool))
    if pool and r < 0.5:
        b = rng.choice(pool)
        return [v + rng.choice([-1, 0, 0, 1]) * (0.5 if half and rng.random() < 0.5 else 1.0) for v in b]
    return [rng.randrange(-span, span + 1) * (0.5 if half else 1.0) for _ in range(dim)]


def gen_case(rng, tier, force=None):
    stream = force or rng.choice(["exact1d", "lattice", "lattice"])
    cfg = {"stream": stream, "k": rng.choice([1, 1, 2, 2, 3, 3, 4, 5, 6, 7, 8]), "lc": rng.random() < 0.55,
           "cap0": rng.choice([1, 1, 1, 2, 3, 4, 5, 8, 128]), "dtype": rng.choice(["f", "d"]),
           "dim": 1 if stream == "exact1d" else rng.choice([2, 2, 3]), "sol_dim": rng.randint(1, 3),
           "extras": rng.choice([[], [], ["es"], ["es", "eo"]]), "leaf": rng.choice([None, 1, 1, 2, 3])}
    cfg["thr"] = rng.choice(THR_1D if stream == "exact1d" else THR_ND)
    if cfg["dtype"] == "d" and rng.random() < 0.2:
        cfg["offset"] = float(rng.choice([2 ** 30, -(2 ** 30), 2 ** 31 + 2 ** 20]))
    if stream == "lattice":
        cfg["half"] = rng.random() < 0.3
        cfg["span"] = rng.choice([2, 3, 4, 6])
    nops = rng.randint(3, 12 if tier == "quick" else 30)
    ops, pool = [], []
    next_id = 1
    for _ in range(nops):
        r = rng.random()
        if r < 0.5:
            nb = rng.choice([0, 1, 2, 3, 3, 4, 5, 6, 8, 10, 12])
            cands = []
            # several competitors for one neighbour: cluster part of the batch around one point
            centre = gen_point(rng, cfg, pool) if rng.random() < 0.5 else None
            cl_objs = []
            for _ in range(nb):
                o = gen_obj(rng, cfg)
                if centre is not None and rng.random() < 0.5:
                    m = list(centre) if rng.random() < 0.5 else gen_point(rng, cfg, [centre])
                    if cl_objs and rng.random() < 0.45:
                        o = rng.choice(cl_objs)                      # exact objective tie between competitors
                    cl_objs.append(o)
                else:
                    m = gen_point(rng, cfg, pool)
                cands.append([next_id, o, m])
                next_id += 1
            for c in cands:
                pool.append(c[2])
            noobj = (not cfg["lc"] and rng.random() < 0.25) or (cfg["lc"] and rng.random() < 0.04)
            ops.append(["add", noobj, cands, rng.choice(["list", "nd", "f64", "wide"])])
        elif r < 0.66:
            m = gen_point(rng, cfg, pool)
            pool.append(m)
            noobj = (not cfg["lc"] and rng.random() < 0.25) or (cfg["lc"] and rng.random() < 0.04)
            ops.append(["add_single", noobj, [next_id, gen_obj(rng, cfg), m]])
            next_id += 1
        elif r < 0.73:
            ops.append(["clear"])
        elif r < 0.81:
            ops.append(["lower"])
        elif r < 0.89:
            ops.append(["upper"])
        elif r < 0.94:
            ops.append(["novelty", rng.random() < 0.6, [[gen_obj(rng, cfg), gen_point(rng, cfg, pool)] for _ in range(rng.randint(0, 4))]])
        elif r < 0.97:
            ops.append(["index_of", [gen_point(rng, cfg, pool) for _ in range(rng.randint(1, 4))]])
        else:
            ops.append(["retrieve_own", [rng.randrange(1000) for _ in range(rng.randint(1, 3))]])
    # local competition: read the bounds (they get cached), then let a better, non-novel candidate REPLACE the entry that holds an
    # extreme coordinate by a less extreme one, then read the bounds again (they must shrink)
    if cfg["lc"] and pool and rng.random() < 0.5:
        for _ in range(rng.choice([1, 2])):
            j = rng.randrange(cfg["dim"])
            sign = rng.choice([-1, 1])
            ext = max(pool, key=lambda m: sign * m[j])
            step = 0.125 if stream == "exact1d" else (0.5 if cfg.get("half") else 1.0)
            inward = list(ext)
            inward[j] = ext[j] - sign * step * rng.choice([1, 1, 2])
            ops.append(["upper"])
            ops.append(["lower"])
            ops.append(["add_single", False, [next_id, rng.choice([64.0, 1e30, 1000.5]) + next_id, inward]])
            next_id += 1
            pool.append(inward)
            ops.append([rng.choice(["upper", "lower"])])
            ops.append([rng.choice(["upper", "lower"])])
    # make bound reads surround clears often (a cached value must not survive clear)
    if rng.random() < 0.5:
        out = []
        for o in ops:
            if o[0] == "clear" and rng.random() < 0.7:
                out.append([rng.choice(["lower", "upper"])])
            out.append(o)
            if o[0] == "clear" and rng.random() < 0.7:
                out.append([rng.choice(["lower", "upper"])])
        ops = out
    case = {"cfg": cfg, "ops": ops, "reuse": rng.random() < 0.4}
    if rng.random() < 0.3:
        case["relay"] = {"how": rng.choice(["deepcopy", "pickle"]), "every": rng.choice([1, 2, 3, 5])}
    return case


def gen_malformed(rng):
    c = gen_case(rng, "quick")
    c["cfg"]["cap0"] = rng.choice([0, -1, -5])
    c["ops"] = []
    return c


def features(case, res=None):
    """measured classes of a case (from the implementation run)"""
    res = res or run_impl(case)
    f = {"doublings": 0, "mixed_batch": False, "replaced": False, "multi_competitors": False, "tied_winners": False, "clear_nonempty": False,
         "dup_admitted": False, "eq_threshold": False, "lc_tie": False, "max_len": 0}
    cfg = case["cfg"]
    thr = thr_exact(cfg)
    for ent in res["trace"]:
        op, out = ent["op"], ent["out"]
        f["max_len"] = max(f["max_len"], ent["len"])
        if op[0] == "clear" and ent["pre"]:
            f["clear_nonempty"] = True
        if op[0] in ("add", "add_single") and out[0] == 0:
            st = out[1]
            if ent["pre"] and 2 in st and any(s != 2 for s in st):
                f["mixed_batch"] = True
            if 1 in st:
                f["replaced"] = True
            if ent["pre"]:
                near = [c[4] for c, s in zip(ent["cands"], st) if s != 2]
                if len(near) != len(set(near)):
                    f["multi_competitors"] = True
                win = [(c[4], c[1]) for c, s in zip(ent["cands"], st) if s == 1]
                best = {}
                for nr, o in win:
                    best[nr] = max(best.get(nr, o), o)
                if any(sum(1 for nr2, o2 in win if nr2 == nr and o2 == o) > 1 for nr, o in best.items()):
                    f["tied_winners"] = True
                for c, s in zip(ent["cands"], st):
                    ex, kk, below, tie, need = knn_info(cfg["k"], c[3])
                    if ex == thr:
                        f["eq_threshold"] = True
                    if len(tie) > need:
                        f["lc_tie"] = True
                    if s == 2 and any(d == 0 for d in c[3]):
                        f["dup_admitted"] = True
    caps = [cfg["cap0"]] + [e["cap"] for e in res["trace"]]
    for a, b in zip(caps, caps[1:]):
        while a < b:
            a *= 2
            f["doublings"] += 1
    return f


# ---------------------------------------------------------------------------------------------
def shrink(case, fails):
    """greedy delta debugging: drop ops, then candidates of batches"""
    ops = list(case["ops"])
    changed = True
    while changed:
        changed = False
        for k in range(len(ops)):
            cand = dict(case, ops=ops[:k] + ops[k + 1:])
            if fails(cand):
                ops = cand["ops"]
                changed = True
                break
        if changed:
            continue
        for k, o in enumerate(ops):
            if o[0] == "add" and len(o[2]) > 0:
                for j in range(len(o[2])):
                    o2 = [o[0], o[1], o[2][:j] + o[2][j + 1:]] + o[3:]
                    cand = dict(case, ops=ops[:k] + [o2] + ops[k + 1:])
                    if fails(cand):
                        ops = cand["ops"]
                        changed = True
                        break
            if changed:
                break
    return dict(case, ops=ops)


def jsonable(o):
    if isinstance(o, Fraction):
        return float(o) if o.denominator & (o.denominator - 1) == 0 else str(o)
    if isinstance(o, dict):
        return {k: jsonable(v) for k, v in o.items()}
    if isinstance(o, (list, tuple)):
        return [jsonable(x) for x in o]
    return o
