"""C05 correspondence: CMA-MAE threshold rule (GridArchive, CVTArchive; float32/float64) vs Model/Archive.v."""
import math
import random
from fractions import Fraction

import numpy as np

import arch_util as au
import py2v_arch
import py2v_thr

CONFIG = {
    "cone": ["Base/ListUtil.v", "Base/QUtil.v", "Base/FirstArgmax.v", "Model/Store.v", "Proofs/StoreProofs.v", "Model/Archive.v", "Model/GridFloat.v", "Model/ThrFloat.v",
             "Proofs/ArchiveProofs.v", "Proofs/C01Proofs.v", "Proofs/C02Proofs.v", "Generated/TransGen.v", "Refine/TransRefine.v", "Properties/C05.v",
             "Model/GridRound.v", "Proofs/GridRoundProofs.v", "Model/ThrRound.v", "Proofs/ThrRoundProofs.v", "Generated/ThrGenR.v", "Refine/ThrRoundRefine.v",
             "Properties/C05Float.v"],
    "extra_property_files": ["Refine/TransRefine.v", "Refine/ThrRoundRefine.v", "Properties/C05Float.v"],
    "trusted": ["harness/py2v_arch.py: fail-closed ast translator of single_entry_with_threshold and of the ratio/new_threshold expressions of "
                "_compute_thresholds into Generated/TransGen.v on every run; Refine/TransRefine.v proves them equal to the model for all arguments "
                "(the numpy-vectorised batch transform itself is tied by the correspondence run only)",
                "Model/Archive.v (see C01)", "libm pow is not modelled: (1-a)^k is exact repeated multiplication in the model",
                "floating point: the theorems are exact-arithmetic; the implementation's thresholds are compared step-wise against the exact "
                "formula within 16 (float64) / 32 (float32) ulp of the magnitudes involved, decisions and untouched thresholds exactly; an "
                "exact stream (dyadic inputs, learning rate 1/2, add_single only) is compared bit for bit over whole histories"],
    "level_text": "Theorem C05_call: for every well-formed archive state, batch and cell, with acc = the candidates of the call aimed at the "
                  "cell whose objective exceeds the prior effective threshold t (threshold_min for an empty cell): acc = [] keeps elite and "
                  "threshold; otherwise the cell holds the first arg-max of acc and threshold' == (1-a)^k t + (1-(1-a)^k) mean(acc), "
                  "t <= threshold' <= best accepted objective, stored objective > t; C05_single, C05_a0_frozen, C05_history_monotone "
                  "(induction over histories). Exact arithmetic over Q; the float layer is decided by the step-wise correspondence.",
    "level_note": "Trusted: Coq kernel; extraction + driver; model tied by sampling; harness; float rounding handled by tolerance as described. No axioms.",
    "technique": "source-derived fragments (py2v translator + refinement lemmas) + Rocq/Coq proof over Q (nra/lra) + step-wise model-vs-implementation simulation + bit-exact dyadic stream",
    "design_ref": "DESIGN.md section 5, C05",
}


def oracle(spec, ops):
    """C05 stated directly on the implementation's data(): thresholds start at threshold_min, change only where candidates were
    accepted, follow the closed form (within float tolerance), never decrease, never exceed the best accepted objective; the cell
    holds the first arg-max of the accepted candidates; a candidate at or below the threshold is never stored; a = 0 freezes."""
    if spec.get("tmin") is None:
        return None
    dtype = au.DT[spec["dtype"]]
    ul = 32 if spec["dtype"] == "f" else 16
    a = au.F(dtype(spec["lr"]))
    t0 = au.F(dtype(spec["tmin"]))
    trace, mops, archive, table = au.run_impl(spec, ops)
    pre = au.EMPTY_OBS
    for step, (op, ent) in enumerate(zip(ops, trace)):
        post = {r[0]: r for r in ent["obs"]["rows"]}
        prer = {r[0]: r for r in pre["rows"]}
        if op[0] in ("add", "add_single"):
            cands = op[1] if op[0] == "add" else [op[1]]
            groups = {}
            for cell, c in zip(ent["cells"], cands):
                groups.setdefault(cell, []).append(c)
            scale = max([abs(float(c[1])) for c in cands] + [abs(float(r[3])) for r in pre["rows"]] + [abs(float(t0)), 1e-300])
            for cell in set(prer) | set(post) | set(groups):
                t = prer[cell][3] if cell in prer else t0
                acc = [c for c in groups.get(cell, []) if au.F(dtype(c[1])) > t]
                if not acc:
                    if (cell in post) != (cell in prer) or (cell in post and post[cell][1:] != prer[cell][1:]):
                        return "step %d: cell %d changed although it accepted nothing" % (step, cell)
                    continue
                if cell not in post:
                    return "step %d: cell %d accepted %d candidates but is empty" % (step, cell, len(acc))
                best = acc[0]
                for c in acc:
                    if float(dtype(c[1])) > float(dtype(best[1])):
                        best = c
                if post[cell][1] != best[0]:
                    return "step %d: cell %d holds %s, expected the first arg-max %d of the accepted candidates" % (step, cell, post[cell][1], best[0])
                k = len(acc)
                m = sum(au.F(dtype(c[1])) for c in acc) / k
                exp = (1 - a) ** k * t + (1 - (1 - a) ** k) * m
                got = post[cell][3]
                if not au.near(exp, got, dtype, scale, ul):
                    return "step %d: cell %d threshold %r, rule gives %r (t=%r, k=%d, mean=%r, a=%r)" % (step, cell, float(got), float(exp), float(t), k, float(m), float(a))
                tol = Fraction(4 * au.ulp(scale, dtype))
                if got < t - tol:
                    return "step %d: cell %d threshold decreased from %r to %r" % (step, cell, float(t), float(got))
                if got > au.F(dtype(best[1])) + tol:
                    return "step %d: cell %d threshold %r exceeds the best accepted objective %r" % (step, cell, float(got), float(best[1]))
                if a == 0 and got != t:
                    return "step %d: learning rate 0 but threshold moved from %r to %r" % (step, float(t), float(got))
        pre = ent["obs"]
    return None


def nontrivial(case):
    """CMA-MAE history in which some measure point receives accepted-looking and rejected-looking candidates in one batch and >= 3 calls hit it"""
    ops = case["ops"]
    per = {}
    for k, o in enumerate(ops):
        cands = o[1] if o[0] == "add" else [o[1]] if o[0] == "add_single" else []
        for c in cands:
            per.setdefault(tuple(c[2]), set()).add(k)
    multi = any(o[0] == "add" and len({tuple(c[2]) for c in o[1]}) < len(o[1]) for o in ops)
    return case["spec"].get("tmin") is not None and multi and any(len(v) >= 3 for v in per.values())



# ---------------------------------------------------------------------------------------------
# bit-exact stream: arbitrary floats, Model/ThrFloat.v evaluated inside Coq (vm_compute on generated case files)
_THR_RES = None


def thrfloat_eval(cases, jobs=8):
    """cases: list of (mode, f32, t, a, f) python floats -> list of (threshold Fraction, value Fraction) from Model/ThrFloat.v"""
    import concurrent.futures
    import os
    import re
    import shutil
    import subprocess
    import tempfile
    from common import COQ
    import c03_util as cu
    if not cases:
        return []
    tmp = tempfile.mkdtemp(prefix="c05cases_")
    pat = re.compile(r"=\s*\((-?\d+),\s*(-?\d+),\s*\((-?\d+),\s*(-?\d+)\)\)")
    try:
        files = []
        for k in range(0, len(cases), 500):
            lines = ["From Coq Require Import ZArith.", "From PV Require Import Model.ThrFloat.", "Open Scope Z_scope."]
            for (mode, f32, t, a, f) in cases[k:k + 500]:
                args = [mode, f32, *cu.mant_exp(t), *cu.mant_exp(a), *cu.mant_exp(f)]
                lines.append("Eval vm_compute in (run_thr %s)." % " ".join("(%d)" % x for x in args))
            path = os.path.join(tmp, "thr_%d.v" % (k // 500))
            open(path, "w").write("\n".join(lines) + "\n")
            files.append(path)

        def run_file(path):
            try:
                pr = subprocess.run(["timeout", "300", "coqc", "-Q", COQ, "PV", path], stdout=subprocess.PIPE, stderr=subprocess.STDOUT, text=True,
                                    timeout=330, cwd=os.path.dirname(path))
                return pr.returncode, pr.stdout
            except subprocess.TimeoutExpired:
                return 124, "TIMEOUT"
        with concurrent.futures.ThreadPoolExecutor(max_workers=jobs) as ex:
            outs = list(ex.map(run_file, files))
        res = []
        for (rc, out), k in zip(outs, range(0, len(cases), 500)):
            got = pat.findall(out)
            if rc != 0 or len(got) != len(cases[k:k + 500]):
                raise RuntimeError("bit-exact threshold model evaluation failed (rc=%s, %d results): %s" % (rc, len(got), out[-500:]))
            for tm, te, vm, ve in got:
                res.append((Fraction(int(tm)) * Fraction(2) ** int(te), Fraction(int(vm)) * Fraction(2) ** int(ve)))
        return res
    finally:
        shutil.rmtree(tmp, ignore_errors=True)


def bitexact_stream(rep, rng, n):
    """single-cell CMA-MAE archives, arbitrary float learning rates / thresholds / objectives (both dtypes): after every accepted
    insertion through add_single or a batch of one, the stored threshold and the reported value must equal Model/ThrFloat.v bit for bit"""
    from ribs.archives import GridArchive
    steps, meta = [], []
    # the witness of Properties/C05Float.v (C05_float_never_decrease_refuted), replayed on the real archive: binary32, a = float32(1/3),
    # objective one ulp above the threshold -> the new threshold is BELOW the old one; model and implementation must agree on the bits
    wt, wa, wf = 14286183 * 2.0 ** -24, 11184811 * 2.0 ** -25, 14286184 * 2.0 ** -24
    warch = GridArchive(solution_dim=1, dims=[2], ranges=[(0, 1)], learning_rate=np.float32(wa), threshold_min=np.float32(wt), dtype=np.float32)
    winfo = warch.add_single(np.zeros(1, dtype=np.float32), np.float32(wf), np.array([0.25], dtype=np.float32))
    wnew = float(warch.data("threshold")[0])
    steps.append((0, 1, wt, wa, wf))
    meta.append({"dtype": "f", "lr": wa, "threshold_min": wt, "step": 0, "path": "add_single", "t": wt, "objective": wf, "impl_threshold": wnew,
                 "impl_value": float(winfo["value"]), "status": int(winfo["status"])})
    rep.count("witness_threshold_decreases_by_rounding_on_the_implementation", 1 if wnew < wt else 0)
    for _ in range(n):
        dt = rng.choice(["f", "d"])
        dtype = au.DT[dt]
        a = float(dtype(rng.choice([rng.random(), rng.random() ** 3, 0.1, 0.3, 1 / 3.0, 0.999, 1e-3])))
        tmin = float(dtype(rng.choice([-1.0, 0.0, -rng.random() * 100, rng.uniform(-3, 3), -1e-3])))
        arch = GridArchive(solution_dim=1, dims=[2], ranges=[(0, 1)], learning_rate=a, threshold_min=tmin, dtype=dtype)
        t = tmin
        for k in range(rng.randint(1, 6)):
            scale = rng.choice([1e-6, 1e-3, 0.1, 1.0, 30.0])
            f = float(dtype(t + abs(rng.gauss(0, 1)) * scale + float(np.spacing(dtype(abs(t) + 1e-30)))))
            if not (f > t) or not math.isfinite(f):
                break
            mode = rng.choice([0, 1])
            if mode == 0:
                info = arch.add_single(np.zeros(1, dtype=dtype), dtype(f), np.array([0.25], dtype=dtype))
                st, val = int(info["status"]), float(info["value"])
            else:
                info = arch.add(np.zeros((1, 1), dtype=dtype), np.array([f], dtype=dtype), np.array([[0.25]], dtype=dtype))
                st, val = int(info["status"][0]), float(info["value"][0])
            new_t = float(arch.data("threshold")[0])
            steps.append((mode, 1 if dt == "f" else 0, t, a, f))
            meta.append({"dtype": dt, "lr": a, "threshold_min": tmin, "step": k, "path": ["add_single", "add([x])"][mode], "t": t, "objective": f,
                         "impl_threshold": new_t, "impl_value": val, "status": st})
            t = new_t
    rep.count("bitexact_steps", len(steps))
    try:
        model = thrfloat_eval(steps)
    except Exception as e:  # noqa
        rep.violation("the bit-exact threshold model could not be evaluated: %r" % (e,), {"kind": "proof-obligation", "broken": "Model/ThrFloat.v (vm_compute)"},
                      False, {"kind": "build"})
        return
    for (mt, mv), m in zip(model, meta):
        rep.case({"bitexact": [m["dtype"], m["path"], float(m["t"]).hex(), float(m["lr"]).hex(), float(m["objective"]).hex()]}, m["step"] > 0)
        it, iv = Fraction(m["impl_threshold"]), Fraction(m["impl_value"])
        if m["status"] == 0 or it != mt or iv != mv:
            # a difference of a few units in the last place means the code evaluates an algebraically equivalent expression in another
            # order (the correspondence with Model/ThrFloat.v is broken, the property is not shown to fail); a larger one is a wrong formula
            dtp = au.DT[m["dtype"]]
            tol = 4 * Fraction(au.ulp(max(abs(m["t"]), abs(m["objective"]), 1e-300), dtp))
            wrong = m["status"] == 0 or abs(it - mt) > tol or abs(iv - mv) > tol
            rep.violation("CMA-MAE threshold update is not the documented formula evaluated in the archive's floating-point format: %s, t=%r, a=%r, f=%r: "
                          "threshold %r (model %r), value %r (model %r), status %d" % (m["path"], m["t"], m["lr"], m["objective"], m["impl_threshold"], float(mt),
                                                                                      m["impl_value"], float(mv), m["status"]),
                          {"kind": "property", "broken": "Model/ThrFloat.v vs ribs/archives/_transforms.py (bit-exact)", "case": m,
                           "model_threshold": float(mt), "model_value": float(mv)}, wrong, {"kind": "threshold-float-formula"})
            return


def check(rep, tier, seed, driver):
    py2v_arch.report(rep)
    py2v_thr.report(rep)
    rng = random.Random(seed)
    _dd = au.dict_dtype_stream(rep, random.Random(seed + 77), 40 if tier == "quick" else 400, "threshold")
    if _dd:
        rep.violation("dict-dtype archive: " + _dd[0], {"kind": "property", "broken": "C05 under the dict form of dtype (objective and measures in different float types)",
                                                     "case": _dd[1]}, True, {"kind": "dict-dtype"})
    n = 300 if tier == "quick" else 3500
    rep.rule = ("(a) CMA-MAE GridArchive/CVTArchive(kd,brute,chunk), float32/float64, learning rates {0,1/4,1/2,3/4,1,0.1,0.3}, step-wise "
                "simulation with objectives at/around live thresholds; (b) exact stream: learning rate 1/2, dyadic objectives, add_single "
                "only, whole-history bit-exact comparison; non-trivial = CMA-MAE history with a batch whose members share a measure point and "
                "a measure point hit by >= 3 calls; distinct by hash of (spec, ops)")
    cases = au.load_corpus("C05")
    rep.count("corpus_cases", len(cases))
    for k in range(n):
        spec = au.gen_spec(rng, kinds=("grid", "cvt", "cvt_brute", "cvt_chunk"), cma=True, max_cells=16)
        dtype = au.DT[spec["dtype"]]
        if k % 5 == 4:
            spec["lr"], spec["tmin"] = 0.5, float(rng.randrange(-16, 1))
            ops = au.gen_history(rng, spec, rng.randint(3, 12), 1, lambda r: r.randrange(-64, 65) / 4.0, single_rate=1.0, clear_rate=0.05)
            ops = [o for o in ops if o[0] != "add"]
            cases.append({"spec": spec, "ops": ops, "exact": True})
            rep.count("exact_stream")
        else:
            ops, st = au.gen_history_live(rng, spec, rng.randint(2, 12 if tier == "quick" else 40), 8, lambda r: au.moderate_float(r, dtype))
            for a, b in st.items():
                rep.count("objective_" + a, b)
            cases.append({"spec": spec, "ops": ops})
        rep.count("lr_%s" % spec["lr"])
    # many accepted candidates for ONE cell in one call (k = 8, 16, 30 ... in (1-a)^k): few cells, large batches, rising objectives
    for kb in range(6 if tier == "quick" else 60):
        spec = au.gen_spec(rng, kinds=("grid", "cvt"), cma=True, max_cells=3)
        spec["extras"] = []
        spec["lr"] = rng.choice([0.25, 0.5, 0.75, 0.1, 0.3])
        pool = [au.gen_measures(rng, spec, []) for _ in range(2)]
        ops, nid = [], 1
        for call in range(rng.randint(1, 3)):
            nb = rng.choice([8, 9, 16, 17, 33])
            cands = []
            for j in range(nb):
                cands.append([nid, float(spec["tmin"]) + 1.0 + rng.randrange(0, 64) / 8.0 + 8.0 * call, list(rng.choice(pool))])
                nid += 1
            ops.append(["add", cands, "nd"])
        cases.append({"spec": spec, "ops": ops})
        rep.count("many_per_cell_cases")
    exact_ids = {au.canon_hash if False else id(c["ops"]) for c in cases if c.get("exact")}

    def compare(spec, ops):
        if spec["lr"] == 0.5 and all(o[0] != "add" for o in ops) and all(float(o[1][1] * 4).is_integer() for o in ops if o[0] == "add_single"):
            d = au.compare_history(driver, spec, ops, exact_values=True, stats_mode="none")
            if d:
                return d
        return au.compare_stepwise(driver, spec, ops, check_stats=False)
    au.run_cases(rep, "C05", cases, compare=compare, oracle=oracle, nontrivial=nontrivial,
                 what="CMA-MAE threshold rule", broken="Model/Archive.v vs ribs/archives/_transforms.py (_compute_thresholds, batch/single entry)",
                 theorems=["C05_call", "C05_single", "C05_history_monotone"])
    bitexact_stream(rep, rng, 120 if tier == "quick" else 1500)
