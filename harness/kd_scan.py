"""Fail-closed scan of every use of scipy's cKDTree in ribs/archives (current source under $VERIF_REPO).

The models (Model/CVT.v, Model/Proximity.v) and the per-answer oracles assume EXACT nearest-neighbour queries in the Euclidean norm:
    cKDTree(<data>[, **self._ckdtree_kwargs / **ckdtree_kwargs])       -- no positional extras
    tree.query(<points>)  |  tree.query(<points>, k=<expr>)               -- no eps / p / distance_upper_bound / workers
Anything else (an approximate query, another norm, a distance cut-off) is a broken tie: such a change alters answers only for inputs
that random tests practically never hit (a candidate whose true neighbour lies in a pruned branch)."""
import ast
import os

REPO = os.environ.get("VERIF_REPO", "/repo")
FILES = ["ribs/archives/_cvt_archive.py", "ribs/archives/_proximity_archive.py"]


def scan(repo=None):
    repo = repo or REPO
    problems, n_query, n_ctor = [], 0, 0
    for rel in FILES:
        tree = ast.parse(open(os.path.join(repo, rel)).read())
        for n in ast.walk(tree):
            if not isinstance(n, ast.Call):
                continue
            f = n.func
            if isinstance(f, ast.Attribute) and f.attr == "query" and "kd_tree" in ast.dump(f.value):
                n_query += 1
                bad_kw = [k.arg for k in n.keywords if k.arg != "k"]
                if len(n.args) != 1 or bad_kw:
                    problems.append("%s:%d: k-D tree query with %d positional argument(s) and keyword(s) %s (only `query(points[, k=...])` is an exact "
                                    "Euclidean nearest-neighbour query)" % (rel, n.lineno, len(n.args), bad_kw))
            if isinstance(f, ast.Name) and f.id == "cKDTree":
                n_ctor += 1
                named = [k.arg for k in n.keywords if k.arg is not None]
                if len(n.args) != 1 or named:
                    problems.append("%s:%d: cKDTree constructed with %d positional argument(s) and keyword(s) %s" % (rel, n.lineno, len(n.args), named))
    if n_query < 3 or n_ctor < 3:
        problems.append("expected at least 3 k-D tree queries and 3 constructions in %s, found %d / %d (the scan no longer sees the code it is meant for)" % (
            FILES, n_query, n_ctor))
    return problems, {"queries": n_query, "constructions": n_ctor}


def report(rep):
    try:
        problems, info = scan()
    except Exception as e:  # noqa
        problems, info = ["the k-D tree scan could not read the source: %r" % (e,)], {}
    rep.extra["kd_tree_scan"] = {"scanner": "harness/kd_scan.py", "files": FILES, **info, "ok": not problems}
    for p in problems[:3]:
        rep.violation("k-D tree use outside the modelled form (fail-closed): " + p, {"kind": "translation", "broken": "harness/kd_scan.py", "error": p}, False,
                      {"kind": "translation"})


if __name__ == "__main__":
    print(scan())
