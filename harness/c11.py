"""C11 failure atomicity: every entry point x argument x malformation x batch position x archive type x reachable state.
A rejected call must raise and leave contents, thresholds, statistics, best elite (and for SlidingBoundariesArchive boundaries / bounds)
exactly as they were, and the continuation must behave as if the rejected call had never happened: the implementation is compared with a
twin archive that never saw the rejected call AND with the extracted model (Model/Validate.v semantics: rejected calls are no-ops)."""
import copy
import math
import random

import numpy as np

import arch_util as au
import c15
from common import err_code

CONFIG = {
    "cone": ["Base/ListUtil.v", "Base/QUtil.v", "Base/FirstArgmax.v", "Model/Store.v", "Proofs/StoreProofs.v", "Model/Archive.v",
             "Proofs/ArchiveProofs.v", "Model/Validate.v", "Proofs/C11Proofs.v", "Model/Scheduler.v", "Proofs/C11SchedProofs.v", "Properties/C11.v",
             "Generated/StoreAddGen.v", "Refine/StoreAddRefine.v"],
    "extra_property_files": ["Refine/StoreAddRefine.v"],
    "trusted": ["harness/py2v_store.py + Refine/StoreAddRefine.v: the phase order of ArrayStore.add read from the current source (everything that can "
                "raise comes before the first write)",
                "Model/Validate.v describes a malformed call by WHERE the code rejects it (before the store is touched / inside ArrayStore.add "
                "after the update counter was bumped); that every malformation of the catalogue is rejected at one of these two points, "
                "before any write, is what the correspondence run checks on the real code (sampled)",
                "the observation function: data() of every field, stats, best_elite, len, empty (+ boundaries and bounds for "
                "SlidingBoundariesArchive, capacity and bounds for ProximityArchive); the SlidingBoundariesArchive buffer and insertion "
                "counter are not public and are observed through the continuation (next remaps)"],
    "level_text": "Theorems C11_atomic (for every configuration, every archive state and every rejected add / add_single / retrieve / index_of: "
                  "all observables unchanged), C11_as_if_never (for every continuation the final observables and the outputs of every later "
                  "call equal those of the history without the rejected call), C11_valid_never_rejected, C11_store_atomic (ArrayStore.add "
                  "rejected => store unchanged except its update counter). The catalogue of malformations x entry points x batch positions "
                  "x archive types x reachable states is run against the real code with a twin archive and the extracted model.",
    "level_note": "Trusted: Coq kernel; extraction + driver; the rejection points of the model are tied to the code by sampling; harness. No axioms.",
    "technique": "Rocq/Coq proof (rejected step = identity on observables; continuation simulation) + fault-injection correspondence with twin run",
    "design_ref": "DESIGN.md section 5, C11",
}


# ---------------------------------------------------------------------------------------------
def hexf(x):
    a = np.asarray(x)
    if a.dtype == object:
        return repr(a.tolist())
    return [float(v).hex() if np.issubdtype(a.dtype, np.floating) else int(v) for v in a.reshape(-1)] + [list(a.shape), a.dtype.name]


def snapshot(archive, kind):
    d = archive.data()
    snap = {"data": {k: hexf(v) for k, v in d.items()}, "len": len(archive), "empty": bool(archive.empty)}
    st = archive.stats
    snap["stats"] = [int(st.num_elites)] + [None if v is None else float(v).hex() for v in (st.coverage, st.qd_score, st.norm_qd_score, st.obj_max, st.obj_mean)]
    be = archive.best_elite
    snap["best"] = None if be is None else {k: hexf(v) for k, v in be.items()}
    if kind == "sliding":
        snap["bnd"] = [hexf(b) for b in archive.boundaries]
        snap["lohi"] = [hexf(archive.lower_bounds), hexf(archive.upper_bounds)]
    if kind == "prox":
        # capacity (the allocation, grown before an add is validated) is not among the observables C11 lists
        try:
            snap["bounds"] = [hexf(archive.lower_bounds), hexf(archive.upper_bounds)]
        except Exception as e:  # noqa
            snap["bounds"] = "raises " + type(e).__name__
    return snap


def diff_snap(a, b):
    for k in a:
        if a[k] != b[k]:
            if isinstance(a[k], dict):
                for kk in a[k]:
                    if a[k][kk] != b[k].get(kk):
                        return "%s.%s" % (k, kk)
            return k
    return None


# ---------------------------------------------------------------------------------------------
# specs (grid / cvt / sliding with small remap frequency / proximity)
def gen_spec(rng):
    r = rng.random()
    if r < 0.45:
        spec = au.gen_spec(rng, kinds=("grid", "cvt", "cvt_brute"), cma=rng.random() < 0.4, max_cells=24)
        if spec.get("lr") is not None:
            spec["lr"] = rng.choice([0.0, 0.5, 1.0])
    elif r < 0.75:
        spec = c15.gen_spec(rng, "quick")
    else:
        nd = rng.choice([1, 2])
        spec = {"kind": "prox", "dtype": rng.choice(["f", "d"]), "sol_dim": rng.randint(1, 3), "extras": rng.choice(au.EXTRA_LAYOUTS),
                "k": rng.choice([1, 2, 3]), "thr": rng.choice([0.0, 0.25, 1.0]), "lc": rng.random() < 0.5, "cap": rng.choice([1, 2, 8]),
                "nd": nd, "seed": rng.randrange(1 << 30), "ranges": [[-2.0, 2.0]] * nd, "offset": 0.0}
    if rng.random() < 0.5 and not spec["extras"]:
        spec["extras"] = rng.choice(au.EXTRA_LAYOUTS[1:])
    return spec


def make(spec):
    if spec["kind"] == "prox":
        import c07
        return c07.make_prox(spec)
    return au.make_archive(spec)


def gen_valid_ops(rng, spec, n):
    if spec["kind"] == "sliding":
        return c15.gen_ops(rng, spec, n)
    if spec["kind"] == "prox":
        ops, nid = [], rng.randrange(1000, 2000)
        for _ in range(n):
            r = rng.random()
            if r < 0.08:
                ops.append(["clear"])
                continue
            m = 1 if r < 0.4 else rng.choice([1, 2, 3, 5])
            cands = [[nid + j, rng.randrange(-16, 17) / 4.0, [rng.randrange(-8, 9) / 4.0 for _ in range(spec["nd"])]] for j in range(m)]
            nid += m
            ops.append(["add_single", cands[0], "nd"] if r < 0.4 else ["add", cands, "nd"])
        return ops
    return au.gen_history(rng, spec, n, 6, lambda q: q.randrange(-64, 65) / 8.0, tie_rate=0.25, clear_rate=0.08)


def apply_valid(archive, spec, op):
    """-> canonical feedback of a valid op"""
    if op[0] == "clear":
        archive.clear()
        return []
    if op[0] == "add":
        info = archive.add(**au.batch_arrays(spec, op[1], op[2] if len(op) > 2 else "nd"))
        return {k: hexf(v) for k, v in sorted(info.items())}
    info = archive.add_single(**au.single_args(spec, op[1], op[2] if len(op) > 2 else "nd"))
    return {k: hexf(v) for k, v in sorted(info.items())}


# ---------------------------------------------------------------------------------------------
# the malformation catalogue
BAD_VALUES = [float("nan"), float("inf"), float("-inf")]
OVERFLOW_VALUES = [1e39, -1e39, 3.5e38, -3.5e38, 1e300]      # finite as float64, not finite in a float32 archive
ADD_KINDS = ["sol_rank", "sol_dim", "sol_len", "obj_rank", "obj_len", "obj_nonfinite", "obj_overflow", "obj_none", "mea_rank", "mea_dim", "mea_len",
             "mea_nonfinite", "mea_overflow", "extra_missing", "extra_unknown", "extra_shape", "extra_len", "extra_rank", "extra_type", "all_missing_objective"]
SINGLE_KINDS = ["sol_shape", "sol_rank", "obj_nonfinite", "obj_overflow", "obj_none", "mea_shape", "mea_rank", "mea_nonfinite", "mea_overflow", "extra_missing",
                "extra_unknown",
                "extra_shape", "extra_type"]
QUERY_KINDS = ["rank", "dim", "nonfinite"]


def gen_bad(rng, spec, nid):
    """-> dict(entry=..., kind=..., pos=..., call=lambda archive: ...) ; the call must be REJECTED"""
    dtype = au.DT[spec["dtype"]]
    nd = au.measure_dim(spec)
    entry = rng.choice(["add", "add", "add", "add_single", "add_single", "retrieve", "retrieve_single", "index_of", "index_of_single"])
    n = rng.choice([1, 2, 3, 5])
    cands = [[nid + j, rng.randrange(-64, 65) / 8.0, [rng.randrange(-8, 9) / 8.0 for _ in range(nd)]] for j in range(n)]
    pos = rng.choice([0, n - 1, n // 2])
    desc = {"entry": entry, "n": n, "pos": pos, "cands": cands}
    # non-finite values are written into the array LATE: with [warm] the very same array object, still holding finite numbers, is first
    # passed to the same entry point of a scratch archive (callers refill preallocated evaluation buffers in place; a value seen to be
    # finite once says nothing about the next call)
    late = []
    warm = rng.random() < 0.4

    def poison(first_call):
        if late and warm:
            try:
                first_call(make(dict(spec, decoy=False)))
            except Exception:  # noqa   (the finite version may be invalid for other reasons; only its side effects on caches matter)
                pass
        for arr, where, val in late:
            arr[where] = val
    if entry == "add":
        kind = rng.choice(ADD_KINDS)
        kw = au.batch_arrays(spec, cands)
        ex = spec["extras"]
        if kind.startswith("extra") and not ex and kind != "extra_unknown":
            kind = "extra_unknown"
        if kind.endswith("_overflow") and dtype != np.float32:
            kind = kind.replace("_overflow", "_nonfinite")
        if kind == "obj_overflow":
            kw["objective"] = kw["objective"].astype(np.float64)
            kw["objective"][pos] = rng.choice(OVERFLOW_VALUES)
        elif kind == "mea_overflow":
            kw["measures"] = kw["measures"].astype(np.float64)
            kw["measures"][pos, rng.randrange(nd)] = rng.choice(OVERFLOW_VALUES)
        if kind == "sol_rank":
            kw["solution"] = kw["solution"].reshape(-1)
        elif kind == "sol_dim":
            kw["solution"] = np.concatenate([kw["solution"], kw["solution"][:, :1]], axis=1)
        elif kind == "sol_len":
            kw["solution"] = np.concatenate([kw["solution"], kw["solution"][:1]], axis=0)
        elif kind == "obj_rank":
            kw["objective"] = kw["objective"].reshape(n, 1)
        elif kind == "obj_len":
            kw["objective"] = kw["objective"][:-1] if n > 1 else np.concatenate([kw["objective"], kw["objective"]])
        elif kind == "obj_nonfinite":
            kw["objective"] = kw["objective"].copy()
            late.append((kw["objective"], pos, rng.choice(BAD_VALUES)))
        elif kind == "obj_none":
            kw["objective"] = None
        elif kind == "all_missing_objective":
            del kw["objective"]
        elif kind == "mea_rank":
            kw["measures"] = kw["measures"].reshape(-1)
        elif kind == "mea_dim":
            kw["measures"] = np.concatenate([kw["measures"], kw["measures"][:, :1]], axis=1)
        elif kind == "mea_len":
            kw["measures"] = kw["measures"][:-1] if n > 1 else np.concatenate([kw["measures"], kw["measures"]], axis=0)
        elif kind == "mea_nonfinite":
            kw["measures"] = kw["measures"].copy()
            late.append((kw["measures"], (pos, rng.randrange(nd)), rng.choice(BAD_VALUES)))
        elif kind == "extra_missing":
            del kw[rng.choice(ex)]
        elif kind == "extra_unknown":
            kw["bogus"] = np.zeros(n)
        elif kind == "extra_shape":
            name = rng.choice(ex)
            kw[name] = np.zeros((n, 3)) if name != "eo" else np.zeros((n, 2, 2))
            if name == "eo":
                kw[name] = kw[name].astype(object)
        elif kind == "extra_len":
            name = rng.choice(ex)
            kw[name] = np.concatenate([kw[name], kw[name][:1]], axis=0)
        elif kind == "extra_rank":
            name = rng.choice(ex)
            kw[name] = np.zeros((n, 2, 3)) if name != "eo" else np.zeros((n, 4)).astype(object)
        elif kind == "extra_type":
            name = rng.choice([e for e in ex if e != "eo"] or ["bogus"])
            if name == "ev":
                kw[name] = np.array([["x", "y"]] * n)
            else:
                kw[name] = np.array(["x"] * n)
        desc["kind"] = kind
        desc["warm"] = bool(late) and warm
        desc["call"] = lambda a: (poison(lambda s: s.add(**kw)), a.add(**kw))[1]
    elif entry == "add_single":
        kind = rng.choice(SINGLE_KINDS)
        kw = au.single_args(spec, cands[0])
        ex = spec["extras"]
        if kind.startswith("extra") and not ex and kind != "extra_unknown":
            kind = "extra_unknown"
        if kind.endswith("_overflow") and dtype != np.float32:
            kind = kind.replace("_overflow", "_nonfinite")
        if kind == "obj_overflow":
            kw["objective"] = rng.choice(OVERFLOW_VALUES)
        elif kind == "mea_overflow":
            kw["measures"] = np.asarray(kw["measures"], dtype=np.float64).copy()
            kw["measures"][rng.randrange(nd)] = rng.choice(OVERFLOW_VALUES)
        if kind == "sol_shape":
            kw["solution"] = np.concatenate([kw["solution"], kw["solution"][:1]])
        elif kind == "sol_rank":
            kw["solution"] = kw["solution"][None]
        elif kind == "obj_nonfinite":
            kw["objective"] = rng.choice(BAD_VALUES)
        elif kind == "obj_none":
            kw["objective"] = None
        elif kind == "mea_shape":
            kw["measures"] = np.concatenate([kw["measures"], kw["measures"][:1]])
        elif kind == "mea_rank":
            kw["measures"] = kw["measures"][None]
        elif kind == "mea_nonfinite":
            kw["measures"] = kw["measures"].copy()
            late.append((kw["measures"], rng.randrange(nd), rng.choice(BAD_VALUES)))
        elif kind == "extra_missing":
            del kw[rng.choice(ex)]
        elif kind == "extra_unknown":
            kw["bogus"] = 1.0
        elif kind == "extra_shape":
            name = rng.choice(ex)
            kw[name] = np.zeros(3) if name != "eo" else np.zeros((2, 2)).astype(object)
        elif kind == "extra_type":
            name = rng.choice([e for e in ex if e != "eo"] or ["bogus"])
            kw[name] = np.array(["x", "y"]) if name == "ev" else "x"
        desc["kind"] = kind
        desc["warm"] = bool(late) and warm
        desc["call"] = lambda a: (poison(lambda s: s.add_single(**kw)), a.add_single(**kw))[1]
    else:
        kind = rng.choice(QUERY_KINDS)
        single = entry.endswith("single")
        q = np.array([c[2] for c in cands], dtype=dtype).reshape(n, nd)
        if single:
            q = q[0]
        if kind == "rank":
            q = q[None] if single or rng.random() < 0.5 else q.reshape(-1)
            if not single and q.ndim == 2:
                q = q[None]
        elif kind == "dim":
            q = np.concatenate([q, q[..., :1]], axis=-1)
        else:
            q = q.copy()
            late.append((q, rng.randrange(nd) if single else (pos, rng.randrange(nd)), rng.choice(BAD_VALUES)))
        desc["kind"] = kind
        desc["warm"] = bool(late) and warm
        desc["query"] = [q.tolist(), [[list(w[1]) if isinstance(w[1], tuple) else w[1], repr(w[2])] for w in late]]
        desc["call"] = lambda a: (poison(lambda s: getattr(s, entry)(q)), getattr(a, entry)(q))[1]
    return desc


def strip(desc):
    return {k: v for k, v in desc.items() if k != "call"}


# ---------------------------------------------------------------------------------------------
def run_case(driver, case):
    """-> None | (what, detail, failing_input_found, tags)"""
    spec = case["spec"]
    rng = random.Random(case["seed"])
    kind = spec["kind"]
    main, twin = make(spec), make(spec)
    main_table, twin_table = {}, {}
    valid_ops, mtrace, mmops = [], [], []     # for the model comparison (grid/cvt kinds)
    use_model = kind in ("grid", "cvt", "cvt_brute", "cvt_chunk") and (spec.get("tmin") is None or spec["lr"] in (0.0, 0.5, 1.0))
    log = []
    nid = 5000
    for phase, item in enumerate(case["script"]):
        if item[0] == "valid":
            op = item[1]
            err_main = err_twin = None
            if use_model:
                ent, m = au.apply_op(main, spec, op, main_table)
                ent2, _ = au.apply_op(twin, spec, op, twin_table, obs=False)
                err_main, err_twin = ent["ret"].get("msg"), ent2["ret"].get("msg")
                if err_main is None:
                    valid_ops.append(op)
                    mtrace.append(ent)
                    mmops.extend(m)
                fb_main = {k: str(v) for k, v in ent["ret"].items()}
                fb_twin = {k: str(v) for k, v in ent2["ret"].items()}
            else:
                try:
                    fb_twin = apply_valid(twin, spec, op)
                except Exception as e:  # noqa
                    err_twin = repr(e)
                try:
                    fb_main = apply_valid(main, spec, op)
                except Exception as e:  # noqa
                    err_main = repr(e)
            if err_main is not None and err_twin is None:
                return ("a valid %s raised %s after an earlier rejected call (the twin archive that never saw the rejected call accepts it)" % (op[0], err_main),
                        {"phase": phase, "log": log}, True, {"kind": "as-if-never", "entry": last_bad(log)})
            if err_main is not None or err_twin is not None:
                return ("valid operation raised: main %s, twin %s" % (err_main, err_twin), {"phase": phase, "log": log, "op": op}, False, {"kind": "harness"})
            if fb_main != fb_twin:
                return ("feedback of a valid %s differs from the archive that never saw the rejected call" % op[0],
                        {"phase": phase, "main": fb_main, "twin": fb_twin, "log": log}, True, {"kind": "as-if-never", "entry": last_bad(log)})
            sm, stw = snapshot(main, kind), snapshot(twin, kind)
            dd = diff_snap(sm, stw)
            if dd:
                return ("after a valid %s the archive differs (%s) from the archive that never saw the rejected call" % (op[0], dd),
                        {"phase": phase, "field": dd, "main": sm.get(dd.split(".")[0]), "twin": stw.get(dd.split(".")[0]), "log": log}, True,
                        {"kind": "as-if-never", "entry": last_bad(log)})
            log.append(["valid", op[0]])
        else:
            desc = gen_bad(random.Random(item[1]), spec, nid)
            nid += 10
            before = snapshot(main, kind)
            try:
                desc["call"](main)
                raised = None
            except Exception as e:  # noqa
                raised = e
            if raised is None:
                # the implementation accepts this input (lenient broadcasting / conversion): it is a valid call, the twin gets it too
                try:
                    desc["call"](twin)
                except Exception as e:  # noqa
                    return ("nondeterministic acceptance of %s" % strip(desc), {"log": log}, False, {"kind": "harness"})
                if desc["kind"].endswith("_overflow"):
                    dd_ = main.data()
                    nonfin = [f for f in ("objective", "measures", "threshold") if f in dd_ and not np.all(np.isfinite(np.asarray(dd_[f], dtype=np.float64)))]
                    if nonfin:
                        return ("%s accepted a %s that is not finite in the archive's dtype (%s) and now stores a non-finite %s" %
                                (desc["entry"], desc["kind"].split("_")[0], strip(desc).get("kind"), "/".join(nonfin)),
                                {"bad": strip(desc), "log": log, "stored": {f: np.asarray(dd_[f], dtype=np.float64).tolist() for f in nonfin}}, True,
                                {"kind": "overflow-accepted", "entry": desc["entry"], "malformation": desc["kind"]})
                if desc["kind"] in ("nonfinite", "mea_nonfinite", "obj_nonfinite"):
                    return ("%s accepted non-finite input (%s) instead of raising" % (desc["entry"], desc["kind"]),
                            {"bad": strip(desc), "log": log}, True, {"kind": "nonfinite-accepted", "entry": desc["entry"], "malformation": desc["kind"]})
                if desc["kind"].startswith("extra_"):
                    # a call with a missing / unknown / mis-shaped extra field may only pass when nothing of it reaches the store (every
                    # candidate rejected by the thresholds: the documented "new_data is ignored when no index is left"); if the archive
                    # changed, the malformed data was silently dropped or stored
                    dd_acc = diff_snap(before, snapshot(main, kind))
                    if dd_acc:
                        return ("%s with a malformed extra field (%s) did not raise and changed the archive: %s" % (desc["entry"], desc["kind"], dd_acc),
                                {"bad": strip(desc), "field": dd_acc, "log": log}, True,
                                {"kind": "malformed-accepted", "entry": desc["entry"], "malformation": desc["kind"], "archive": kind if kind in ("sliding", "prox") else "fixed"})
                log.append(["accepted", desc["entry"], desc["kind"]])
                case.setdefault("accepted", []).append([desc["entry"], desc["kind"]])
                continue
            after = snapshot(main, kind)
            dd = diff_snap(before, after)
            log.append(["rejected", desc["entry"], desc["kind"], type(raised).__name__])
            if dd:
                return ("%s rejected (%s: %s) but the archive changed: %s" % (desc["entry"], desc["kind"], type(raised).__name__, dd),
                        {"bad": strip(desc), "field": dd, "before": before.get(dd.split(".")[0]), "after": after.get(dd.split(".")[0]), "log": log,
                         "exception": repr(raised)}, True, {"kind": "not-atomic", "entry": desc["entry"], "malformation": desc["kind"], "archive": kind if kind in ("sliding", "prox") else "fixed"})
            case.setdefault("rejected", []).append([desc["entry"], desc["kind"], type(raised).__name__])
    if use_model and valid_ops:
        d = au.compare_trace(driver, spec, valid_ops, mtrace, mmops, exact_values=(spec.get("tmin") is None), stats_mode="exact" if spec.get("tmin") is None else "none",
                             check_value=(spec.get("tmin") is None))
        if d:
            return ("with rejected calls interleaved, the implementation differs from the model run on the valid calls only (C11_as_if_never)",
                    {"disagreement": d, "log": log}, False, {"kind": "as-if-never-model"})
    return None


def last_bad(log):
    for x in reversed(log):
        if x[0] == "rejected":
            return x[1]
    return None


def gen_case(rng, tier):
    spec = gen_spec(rng)
    script = []
    for op in gen_valid_ops(rng, spec, rng.randint(0, 6)):
        script.append(["valid", op])
    nbad = rng.choice([1, 1, 2, 3])
    cont = gen_valid_ops(rng, spec, rng.randint(2, 8 if tier == "quick" else 16))
    ci = 0
    for _ in range(nbad):
        script.append(["bad", rng.randrange(1 << 30)])
        take = rng.randint(0, 2)
        for op in cont[ci:ci + take]:
            script.append(["valid", op])
        ci += take
    for op in cont[ci:]:
        script.append(["valid", op])
    # ids must be unique over the whole script (prefix and continuation generators restart at 1)
    nid = 1
    for it in script:
        if it[0] == "valid" and it[1][0] in ("add", "add_single"):
            for c in (it[1][1] if it[1][0] == "add" else [it[1][1]]):
                c[0] = nid
                nid += 1
    return {"spec": spec, "script": script, "seed": rng.randrange(1 << 30)}


def shrink(driver, case, fails):
    script = list(case["script"])
    changed = True
    rounds = 0
    while changed and rounds < 150:
        changed = False
        for k in range(len(script)):
            rounds += 1
            cand = dict(case, script=script[:k] + script[k + 1:])
            if any(it[0] == "bad" for it in cand["script"]) and fails(cand):
                script = cand["script"]
                changed = True
                break
    return dict(case, script=script)


def scheduler_cases(rep, rng, n):
    """Scheduler.tell in batch mode with malformed evaluations: both archives untouched"""
    from ribs.archives import GridArchive
    from ribs.emitters import GaussianEmitter
    from ribs.schedulers import Scheduler
    for _ in range(n):
        with_result = rng.random() < 0.6
        extras = rng.choice([None, {"es": ((), np.float64)}])
        seed = rng.randrange(1 << 30)

        def build():
            ckw = {"learning_rate": 0.5, "threshold_min": -10.0} if cma else {}
            a = GridArchive(solution_dim=2, dims=[4, 4], ranges=[(-1, 1), (-1, 1)], seed=seed, extra_fields=extras, **ckw)
            r = GridArchive(solution_dim=2, dims=[4, 4], ranges=[(-1, 1), (-1, 1)], seed=seed, extra_fields=extras) if with_result else None
            ems = [GaussianEmitter(a, sigma=0.3, x0=[0.0, 0.0], batch_size=bs, seed=seed + i) for i, bs in enumerate(sizes)]
            return a, r, Scheduler(a, ems, result_archive=r, add_mode="batch")
        cma = rng.random() < 0.4
        rng0 = random.Random(seed)
        sizes = [rng.choice([1, 2, 3]) for _ in range(rng.choice([1, 2, 3]))]
        a, r, sch = build()
        n_tot = sum(sizes)
        for it in range(rng.randint(0, 3)):
            sols = sch.ask()
            kw = {"es": np.arange(n_tot, dtype=float)} if extras else {}
            sch.tell(np.round(-np.sum(sols ** 2, axis=1) * 8) / 8, np.clip(np.round(sols * 8) / 8, -1, 1), **kw)
        sols = sch.ask()
        obj = np.round(-np.sum(sols ** 2, axis=1) * 8) / 8
        mea = np.clip(np.round(sols * 8) / 8, -1, 1)
        kw = {"es": np.arange(n_tot, dtype=float)} if extras else {}
        kind = rng.choice(["obj_nan", "obj_len", "mea_nan", "mea_dim", "mea_len", "extra_missing", "extra_unknown", "extra_len", "extra_shape", "obj_rank"])
        if kind.startswith("extra") and not extras and kind != "extra_unknown":
            kind = "extra_unknown"
        pos = rng.randrange(n_tot)
        if kind == "obj_nan":
            obj = obj.copy()
            obj[pos] = rng.choice(BAD_VALUES)
        elif kind == "obj_len":
            obj = obj[:-1] if n_tot > 1 else np.concatenate([obj, obj])
        elif kind == "obj_rank":
            obj = obj.reshape(-1, 1)
        elif kind == "mea_nan":
            mea = mea.copy()
            mea[pos, rng.randrange(2)] = rng.choice(BAD_VALUES)
        elif kind == "mea_dim":
            mea = np.concatenate([mea, mea[:, :1]], axis=1)
        elif kind == "mea_len":
            mea = np.concatenate([mea, mea[:1]], axis=0)
        elif kind == "extra_missing":
            kw = {}
        elif kind == "extra_unknown":
            kw["bogus"] = np.zeros(n_tot)
        elif kind == "extra_len":
            kw["es"] = np.zeros(n_tot + 1)
        elif kind == "extra_shape":
            kw["es"] = np.zeros((n_tot, 3))
        before = [snapshot(a, "grid"), snapshot(r, "grid") if r is not None else None]
        try:
            sch.tell(obj, mea, **kw)
            raised = None
        except Exception as e:  # noqa
            raised = e
        rep.count("sched_" + kind + ("_rejected" if raised is not None else "_accepted"))
        rep.case({"sched": kind, "sizes": sizes, "result": with_result, "seed": seed}, True)
        if raised is None:
            continue
        after = [snapshot(a, "grid"), snapshot(r, "grid") if r is not None else None]
        for which, (b, af) in enumerate(zip(before, after)):
            if b is not None and diff_snap(b, af):
                rep.violation("Scheduler.tell (batch mode) rejected (%s: %s) but the %s changed: %s" % (kind, type(raised).__name__, ["archive", "result archive"][which], diff_snap(b, af)),
                              {"kind": "property", "case": {"sched": kind, "sizes": sizes, "result": with_result, "seed": seed, "extras": bool(extras), "cma": cma, "pos": pos},
                               "broken": "C11_scheduler_batch", "exception": repr(raised)}, True, {"kind": "not-atomic", "entry": "scheduler.tell", "malformation": kind})
                return


def check(rep, tier, seed, driver):
    import py2v_store
    py2v_store.report(rep)
    rng = random.Random(seed)
    _dd = au.dict_dtype_stream(rep, random.Random(seed + 77), 40 if tier == "quick" else 400, "reject")
    if _dd:
        rep.violation("dict-dtype archive: " + _dd[0], {"kind": "property", "broken": "C11 under the dict form of dtype (objective and measures in different float types)",
                                                     "case": _dd[1]}, True, {"kind": "dict-dtype"})
    n = 400 if tier == "quick" else 8000
    rep.rule = ("fault injection: a valid random prefix (reachable state), then 1-3 malformed calls drawn from the catalogue {add, add_single, "
                "retrieve, retrieve_single, index_of, index_of_single} x {wrong rank / trailing shape / length of solution, objective, measures; "
                "NaN, +inf, -inf objective or measure at batch position first/middle/last; None or missing objective; missing, unknown, "
                "mis-shaped, wrong-rank, wrong-length, non-numeric extra field} interleaved with valid calls, then a valid continuation; archive "
                "types Grid / CVT (default and CMA-MAE), SlidingBoundariesArchive with small remap_frequency (the continuation crosses remaps), "
                "ProximityArchive (with and without local competition), all extra-field layouts, both dtypes. Every rejected call: full "
                "before/after snapshot; every later valid call: feedback and snapshot equal to a twin archive that never saw the rejected calls, "
                "and (Grid/CVT) to the extracted model run on the valid calls only. Scheduler.tell in batch mode with and without result "
                "archive. A case is non-trivial when a call was actually rejected in a non-empty archive or followed by >= 2 valid calls." 
                "; plus: objectives / measures that are finite as given but overflow a float32 archive")
    cases = au.load_corpus("C11")
    for _ in range(n):
        cases.append(gen_case(rng, tier))
    for case in cases:
        case = copy.deepcopy(case)
        try:
            res = run_case(driver, case)
        except Exception as e:  # noqa
            import traceback
            res = ("harness exception %r" % (e,), {"trace": traceback.format_exc()[-1500:]}, False, {"kind": "crash"})
        nrej = len(case.get("rejected", []))
        rep.case({"spec": case["spec"], "script": case["script"], "seed": case["seed"]}, nrej > 0 and sum(1 for it in case["script"] if it[0] == "valid") >= 2,
                 sample={"spec": case["spec"], "script": case["script"][:6], "rejected": case.get("rejected")} if nrej else None)
        rep.count("kind_" + case["spec"]["kind"])
        for r in case.get("rejected", []):
            rep.count("rejected_%s_%s" % (r[0], r[1]))
            rep.count("exc_" + r[2])
        for r in case.get("accepted", []):
            rep.count("accepted_%s_%s" % (r[0], r[1]))
        if res is None:
            continue
        what, detail, found, tags = res
        if tags.get("kind") != "crash":
            def fails(c2):
                try:
                    r2 = run_case(driver, copy.deepcopy(c2))
                    return r2 is not None and r2[3].get("kind") == tags.get("kind")
                except Exception:  # noqa
                    return False
            small = shrink(driver, case, fails)
            r2 = run_case(driver, copy.deepcopy(small))
            if r2 is not None:
                what, detail, found, tags = r2
                case = small
        rep.violation(what, {"kind": "property" if found else "correspondence", "broken": "C11_atomic / C11_as_if_never vs ribs/archives",
                             "case": {"spec": case["spec"], "script": case["script"], "seed": case["seed"]}, "detail": detail}, found, tags)
        if len(rep.violations) >= 4:
            break
    scheduler_cases(rep, rng, 60 if tier == "quick" else 1500)
