"""Fail-closed reader of SolutionBuffer.{add, full, __next__}, SlidingBoundariesArchive.{_remap, add_single, add} (current source under
$VERIF_REPO) -> coq/Generated/SlidingGen.v (rewritten on every run); Refine/SlidingRefine.v ties it to Model/Sliding.v.

Translated: the sample index of a new boundary (`int(j * self._buffer.size / self.dims[i])` -> (j * size) / d), the remap trigger
(`self._total_num_sol % self._remap_frequency == 0` -> Nat.eqb (tot mod freq) 0), the buffer-full test (`len(self._queue) >=
self._buffer_capacity` -> Nat.leb cap len).  Matched statement by statement and recorded as facts: the buffer drops its OLDEST entry when
full and appends (queue and sorted lists in step); _remap sets boundaries[i][j] from the sorted measures and the last one from
sorted[-1], recomputes lower / upper bounds and the interval size from the NEW boundaries before anything is re-inserted, takes the
stored elites (without threshold / index) plus ALL buffered entries except the newest, clears, re-adds them in that order with one
ArchiveBase.add and the newest with ArchiveBase.add_single; add_single validates, checks the field names and converts every field BEFORE
the entry enters the buffer and is counted; add is a loop of add_single in batch order.  Anything else raises Unsupported (= broken tie)."""
import ast
import hashlib
import os

ROOT = os.path.dirname(os.path.dirname(os.path.abspath(__file__)))
REPO = os.environ.get("VERIF_REPO", "/repo")
OUT = os.path.join(ROOT, "coq", "Generated", "SlidingGen.v")
SRC = "ribs/archives/_sliding_boundaries_archive.py"


class Unsupported(Exception):
    pass


def src(e):
    return ast.unparse(e)


def stmts(fn):
    return [s for s in fn.body if not (isinstance(s, ast.Expr) and isinstance(s.value, ast.Constant) and isinstance(s.value.value, str))]


def nat_arith(e, atoms):
    s = src(e)
    if s in atoms:
        return atoms[s]
    if isinstance(e, ast.Constant) and isinstance(e.value, int) and not isinstance(e.value, bool):
        return str(e.value)
    if isinstance(e, ast.BinOp):
        op = {ast.Mult: "*", ast.Add: "+", ast.Mod: "mod"}.get(type(e.op))
        if op:
            return "(%s %s %s)" % (nat_arith(e.left, atoms), op, nat_arith(e.right, atoms))
    raise Unsupported("unsupported integer expression: %s" % s)


def translate(repo=None):
    repo = repo or REPO
    tree = ast.parse(open(os.path.join(repo, SRC)).read())
    classes = {n.name: n for n in tree.body if isinstance(n, ast.ClassDef)}
    for need in ("SolutionBuffer", "SlidingBoundariesArchive"):
        if need not in classes:
            raise Unsupported("cannot locate class %s" % need)
    buf = {n.name: n for n in classes["SolutionBuffer"].body if isinstance(n, ast.FunctionDef)}
    arc = {n.name: n for n in classes["SlidingBoundariesArchive"].body if isinstance(n, ast.FunctionDef)}
    for extra in ("clear", "__getstate__", "__setstate__", "__deepcopy__", "__reduce__"):
        if extra in arc or extra in buf:
            raise Unsupported("%s is overridden: _remap's self.clear() and copying no longer mean what the model assumes" % extra)
    facts = []
    # ---- SolutionBuffer
    fb = stmts(buf["full"])
    if len(fb) != 1 or not isinstance(fb[0], ast.Return):
        raise Unsupported("SolutionBuffer.full is not a single return")
    c = fb[0].value
    if not (isinstance(c, ast.Compare) and len(c.ops) == 1 and isinstance(c.ops[0], ast.GtE) and src(c.left) == "len(self._queue)" and src(c.comparators[0]) == "self._buffer_capacity"):
        raise Unsupported("SolutionBuffer.full is not len(queue) >= capacity: %s" % src(c))
    full = "(Nat.leb cap n)"
    want = ["if self.full():\n    deleted_data = self._queue.popleft()\n    for i, m in enumerate(deleted_data['measures']):\n        self._measure_lists[i].remove(m)",
            "self._queue.append(data)", "for i, m in enumerate(data['measures']):\n    self._measure_lists[i].add(m)"]
    if [src(s) for s in stmts(buf["add"])] != want:
        raise Unsupported("SolutionBuffer.add is not (drop the oldest when full, append, keep the sorted lists in step): %r" % [src(s) for s in stmts(buf["add"])])
    want = ["if self._iter_idx >= self.size:\n    self._iter_idx = 0\n    raise StopIteration", "result = self._queue[self._iter_idx]", "self._iter_idx += 1", "return result"]
    if [src(s) for s in stmts(buf["__next__"])] != want:
        raise Unsupported("SolutionBuffer.__next__ does not walk the queue from the oldest entry and reset its cursor at the end")
    if [src(s) for s in stmts(buf["size"])] != ["return len(self._queue)"] or [src(s) for s in stmts(buf["sorted_measures"])] != ["return np.array(self._measure_lists, dtype=np.float64)"]:
        raise Unsupported("SolutionBuffer.size / sorted_measures are not the queue length / the sorted lists")
    facts.append("BufferDropsOldestWhenFull")
    # ---- _remap
    rm = [src(s) for s in stmts(arc["_remap"])]
    loop = [s for s in stmts(arc["_remap"]) if isinstance(s, ast.For)]
    if not loop or src(loop[0].iter) != "range(self.measure_dim)":
        raise Unsupported("_remap does not loop over the measure dimensions first")
    inner = stmts(loop[0])
    if not (len(inner) == 2 and isinstance(inner[0], ast.For) and src(inner[0].iter) == "range(self.dims[i])"
            and src(inner[1]) == "self._boundaries[i][self.dims[i]] = sorted_measures[i][-1]"):
        raise Unsupported("_remap's boundary loop is not (dims[i] sampled boundaries, then the last one = the largest sorted measure)")
    ib = stmts(inner[0])
    if not (len(ib) == 2 and isinstance(ib[0], ast.Assign) and src(ib[0].targets[0]) == "sample_idx" and src(ib[1]) == "self._boundaries[i][j] = sorted_measures[i][sample_idx]"):
        raise Unsupported("_remap does not set boundaries[i][j] = sorted_measures[i][sample_idx]")
    v = ib[0].value
    if not (isinstance(v, ast.Call) and src(v.func) == "int" and len(v.args) == 1 and isinstance(v.args[0], ast.BinOp) and isinstance(v.args[0].op, ast.Div)):
        raise Unsupported("sample_idx is not int(<a> / <b>): %s" % src(v))
    sample = "(%s / %s)" % (nat_arith(v.args[0].left, {"j": "j", "self._buffer.size": "size", "self.dims[i]": "d"}),
                           nat_arith(v.args[0].right, {"j": "j", "self._buffer.size": "size", "self.dims[i]": "d"}))
    want_rest = ["sorted_measures = self._buffer.sorted_measures", None,
                 "self._lower_bounds = np.array([bound[0] for bound in self._boundaries])",
                 "self._upper_bounds = np.array([bound[dim] for bound, dim in zip(self._boundaries, self._dims)])",
                 "self._interval_size = self._upper_bounds - self._lower_bounds",
                 "cur_data = self._store.data()", "cur_data.pop('threshold')", "cur_data.pop('index')",
                 "new_data_single = list(self._buffer)", "new_data = {name: None for name in new_data_single[0]}",
                 "for name in new_data:\n    new_data[name] = [d[name] for d in new_data_single]",
                 "last_data = {name: arr.pop() for name, arr in new_data.items()}", "self.clear()",
                 "final_data = {name: np.concatenate((cur_data[name], new_data[name])) if len(new_data[name]) > 0 else cur_data[name] for name in cur_data}",
                 "ArchiveBase.add(self, **final_data)", "add_info = ArchiveBase.add_single(self, **last_data)", "return add_info"]
    if len(rm) != len(want_rest) or any(w is not None and w != g for w, g in zip(want_rest, rm)):
        diff = [(w, g) for w, g in zip(want_rest, rm) if w is not None and w != g][:1]
        raise Unsupported("_remap is not the sequence the model was written from; first difference: %r" % (diff or [len(rm), len(want_rest)]))
    facts += ["RemapBoundariesFromSortedMeasures", "RemapBoundsFromNewBoundariesFirst", "RemapReaddsElitesThenBufferThenNewest"]
    # ---- add_single
    body = stmts(arc["add_single"])
    sb = [src(s) for s in body]
    if not (sb and sb[0].startswith("new_data = validate_single(self,") and sb[1] == "field_desc = self._store.field_desc"
            and sb[2].startswith("if new_data.keys() != field_desc.keys() - {'threshold'}:\n    raise ValueError(")
            and sb[3] == "for name, arr in new_data.items():\n    shape, dtype = field_desc[name]\n    new_data[name] = np.array(np.broadcast_to(np.asarray(arr, dtype=dtype), shape))"
            and sb[4:6] == ["self._buffer.add(new_data)", "self._total_num_sol += 1"] and sb[7:] == ["return add_info"] and len(sb) == 8):
        raise Unsupported("add_single is not (validate, check the field names, convert every field, THEN buffer and count, then remap or insert): %r" % [x[:60] for x in sb])
    br = body[6]
    if not (isinstance(br, ast.If) and [src(s) for s in br.body] == ["add_info = self._remap()"] and [src(s) for s in br.orelse] == ["add_info = ArchiveBase.add_single(self, **new_data)"]):
        raise Unsupported("add_single does not end with (remap | ArchiveBase.add_single)")
    t = br.test
    if not (isinstance(t, ast.Compare) and len(t.ops) == 1 and isinstance(t.ops[0], ast.Eq) and src(t.comparators[0]) == "0"):
        raise Unsupported("the remap trigger is not <expr> == 0: %s" % src(t))
    due = "(Nat.eqb %s 0)" % nat_arith(t.left, {"self._total_num_sol": "tot", "self._remap_frequency": "freq"})
    facts.append("AddSingleRejectsBeforeBuffering")
    # ---- add: a loop of add_single
    ab = [src(s) for s in stmts(arc["add"])]
    loops = [s for s in stmts(arc["add"]) if isinstance(s, ast.For)]
    if len(loops) != 1 or not any(isinstance(x, ast.Call) and src(x.func) == "self.add_single" for x in ast.walk(loops[0])):
        raise Unsupported("add is not one loop of self.add_single over the batch: %r" % [x[:60] for x in ab])
    facts.append("AddIsLoopOfAddSingle")
    text = ("(** GENERATED by harness/py2v_sliding.py from the current pyribs source (%s) on every run -- do not edit.\n"
            "    Refine/SlidingRefine.v ties these to Model/Sliding.v. *)\nFrom Coq Require Import List Arith.\nFrom PV Require Import Model.SlidingFacts.\nImport ListNotations.\n\n"
            "Definition gen_sample_idx (j size d : nat) : nat := %s.\n"
            "Definition gen_remap_due (tot freq : nat) : bool := %s.\n"
            "Definition gen_buf_full (cap n : nat) : bool := %s.\n"
            "Definition gen_sliding_facts : list sliding_fact := [%s].\n" % (SRC, sample, due, full, "; ".join(facts)))
    h = hashlib.sha256("".join(ast.dump(x) for x in (buf["add"], arc["_remap"], arc["add_single"], arc["add"])).encode()).hexdigest()
    return text, h


def generate():
    st = {"ok": False, "error": None, "written": False, "sha": None}
    try:
        text, st["sha"] = translate()
        st["ok"] = True
    except Unsupported as e:
        st["error"] = str(e)
        return st
    except Exception as e:  # noqa
        st["error"] = repr(e)
        return st
    try:
        old = open(OUT).read() if os.path.exists(OUT) else None
        if old != text:
            os.makedirs(os.path.dirname(OUT), exist_ok=True)
            tmp = OUT + ".tmp%d" % os.getpid()
            with open(tmp, "w") as f:
                f.write(text)
            os.replace(tmp, OUT)
            st["written"] = True
    except OSError as e:
        st["ok"], st["error"] = False, "cannot write %s: %r" % (OUT, e)
    return st


STATUS = generate()


def report(rep):
    rep.extra["source_fragments_sliding"] = {"translator": "harness/py2v_sliding.py", "source": [SRC], "ok": STATUS["ok"], "sha256_of_ast": STATUS["sha"],
                                             "refinement": "coq/Refine/SlidingRefine.v"}
    if not STATUS["ok"]:
        rep.violation("the SlidingBoundariesArchive reader cannot read the current source of the buffer / _remap / add_single any more (fail-closed): %s" % STATUS["error"],
                      {"kind": "translation", "broken": "harness/py2v_sliding.py", "error": STATUS["error"]}, False, {"kind": "translation"})


if __name__ == "__main__":
    print(STATUS)
    print(open(OUT).read() if STATUS["ok"] else "")
