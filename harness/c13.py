"""C13 correspondence: real ArrayStore vs the extracted Store model, on random histories."""
import random

import numpy as np

from common import err_code
import py2v_store
import py2v_storeops

CONFIG = {
    "source_ties": 'Since round 7 also tied statically: harness/py2v_storeops.py re-reads ArrayStore.clear / resize / the getters / the iterator on every run (Refine/StoreOpsRefine.v), next to the add-phase reader py2v_store.py.',
    "cone": ["Base/ListUtil.v", "Model/Store.v", "Proofs/StoreProofs.v", "Properties/C13.v", "Generated/StoreAddGen.v", "Refine/StoreAddRefine.v",
             "Model/StoreOpsFacts.v", "Generated/StoreOpsGen.v", "Refine/StoreOpsRefine.v"],
    "extra_property_files": ["Refine/StoreAddRefine.v", "Refine/StoreOpsRefine.v"],
    "trusted": ["harness/py2v_store.py: fail-closed extractor of the phase order of ArrayStore.add (count, transforms, empty return, length check, key "
                "check, conversion of every field, occupancy, writes) into Generated/StoreAddGen.v on every run; Refine/StoreAddRefine.v proves it is the "
                "order Model/Store.v implements and that no phase that can raise follows a phase that writes",
                "Model/Store.v models ArrayStore row-wise (a row = one candidate id encoded redundantly into every field; "
                "the harness decoder flags torn rows)"],
    "level_text": "Theorems in coq/Properties/C13.v quantify over every capacity (0 and 1 included), every history of add/clear/resize "
                  "and every transform chain of the Store model: invariant (len = #occupied, occupied_list duplicate-free and exact, "
                  "append-only in first-filled order), read-your-writes with last-wins, resize/raw round trip preservation, iterator "
                  "invalidation. The model is tied to ribs/archives/_array_store.py by a differential run of the extracted model "
                  "against the real ArrayStore on generated histories on every run.",
    "level_note": "Trusted: Coq kernel; extraction (ExtrOcamlBasic only) + OCaml driver; the hand-written model (tied by sampling "
                  "only); harness generators/canonicalisers. No axioms (Print Assumptions: closed under the global context).",
    "technique": "Rocq/Coq proof over an executable Gallina model + model-vs-implementation correspondence run",
    "design_ref": "DESIGN.md section 5, C13",
}

LAYOUTS = [
    [("a", (), np.float64)],
    [("a", (), np.float32), ("v", (3,), np.float64)],
    [("v", (2,), np.float32), ("m", (2, 2), np.int64), ("o", (), object)],
    [("o", (), object), ("a", (), np.float64), ("i", (), np.int32)],
    [("a", (), np.float64), ("v", 3, np.float32), ("m", (2, 2), np.int64), ("o", (), object)],
]


def enc(shape, dtype, i):
    if dtype is object:
        return ("row", int(i))
    if shape == ():
        return i
    if shape in ((3,), 3):
        return [i, i + 0.5 if dtype != np.int64 else i + 1, -i]
    if shape == (2,):
        return [i, -i - 1]
    if shape == (2, 2):
        return [[i, i + 1], [i + 2, -i]]
    raise ValueError(shape)


def enc_col(shape, dtype, ids):
    if dtype is object:
        arr = np.empty(len(ids), dtype=object)
        for k, i in enumerate(ids):
            arr[k] = ("row", int(i))
        return arr
    if isinstance(shape, int):
        shape = (shape,)
    return np.array([enc(shape, dtype, i) for i in ids], dtype=dtype).reshape((len(ids),) + tuple(shape))


def dec(shape, dtype, v):
    """field value -> id, or None when the value is not a well-formed encoding"""
    if isinstance(shape, int):
        shape = (shape,)
    if dtype is object:
        return v[1] if isinstance(v, tuple) and len(v) == 2 and v[0] == "row" else None
    a = np.asarray(v)
    if a.shape != tuple(shape):
        return None
    i = a.reshape(-1)[0]
    if i != int(i):
        return None
    i = int(i)
    return i if np.array_equal(a, np.array(enc(shape, dtype, i), dtype=dtype)) else None


def dec_row(layout, vals):
    ids = {dec(sh, dt, vals[name]) for name, sh, dt in layout if name in vals}
    if len(ids) != 1 or None in ids:
        return ("torn", sorted(map(str, ids)))
    return ids.pop()


# transforms (user code): deterministic functions of their inputs; each records what it saw
def make_transform(kind, layout, log):
    def t(indices, new_data, add_info, extra_args, occupied, cur_data):
        indices = np.asarray(indices)
        n = len(indices)
        if kind == "id":
            keep = list(range(n))
        elif kind == "rev":
            keep = list(range(n))[::-1]
        elif kind == "evens":
            keep = list(range(0, n, 2))
        elif kind == "dedupe_first":
            seen, keep = set(), []
            for k in range(n):
                if int(indices[k]) not in seen:
                    seen.add(int(indices[k]))
                    keep.append(k)
        elif kind == "only_unocc":
            keep = [k for k in range(n) if not occupied[k]]
        elif kind == "only_occ":
            keep = [k for k in range(n) if occupied[k]]
        elif kind == "none":
            keep = []
        else:
            raise AssertionError(kind)
        seen_rows = []
        for k in range(n):
            if occupied[k]:
                seen_rows.append(dec_row(layout, {name: cur_data[name][k] for name, _, _ in layout}))
            else:
                seen_rows.append(None)
        out_idx = indices[keep] if n else indices
        out_data = {name: arr[keep] for name, arr in new_data.items()} if n else new_data
        out_ids = [dec_row(layout, {name: out_data[name][k] for name, _, _ in layout if name in out_data}) for k in range(len(keep))]
        log.append({"in_idx": [int(x) for x in indices], "occ": [bool(x) for x in occupied], "rows": seen_rows,
                    "index_echo": [int(x) for x in cur_data["index"]],
                    "out_idx": [int(x) for x in out_idx], "out_ids": out_ids})
        add_info = dict(add_info)
        add_info["n_" + kind] = add_info.get("n_" + kind, 0) + 1
        return out_idx, out_data, add_info
    return t


def gen_history(rng, tier):
    layout = rng.choice(LAYOUTS)
    cap = rng.choice([0, 1, 1, 2, 3, 5, 8, 13] if tier == "quick" else [0, 1, 2, 3, 5, 8, 13, 40, 100])
    nops = rng.randint(3, 14 if tier == "quick" else 40)
    ops = []
    next_id = [1]
    cur_cap = cap
    n_iters = 0
    with_iters = rng.random() < 0.65      # histories without iterators continue on a store rebuilt from its raw dict instead
    for _ in range(nops):
        r = rng.random()
        if r < 0.55:
            n = rng.choice([0, 1, 1, 2, 3, 4, 6, 9])
            bad = rng.random()
            hi = max(cur_cap, 1)
            if rng.random() < 0.5 and n > 1:  # force repeats
                pool = [rng.randrange(hi) for _ in range(max(1, n // 2))]
                idxs = [rng.choice(pool) for _ in range(n)]
            else:
                idxs = [rng.randrange(hi) for _ in range(n)]
            if cur_cap == 0:
                idxs = [] if bad > 0.3 else idxs
            ids = list(range(next_id[0], next_id[0] + n))
            next_id[0] += n
            mode = "ok"
            tr = [rng.choice(["id", "rev", "evens", "dedupe_first", "only_unocc", "only_occ", "none"])
                  for _ in range(rng.choice([0, 0, 1, 1, 2, 3]))]
            if bad < 0.06 and n > 0:
                mode, tr = "missing_key", [t for t in tr if t == "id"]
            elif bad < 0.12 and n > 0:
                mode, tr = "extra_key", [t for t in tr if t == "id"]
            elif bad < 0.18 and n > 0:
                mode, tr = "bad_len", []
            elif bad < 0.21 and n > 0:
                mode, tr = "bad_shape", [t for t in tr if t == "id"]      # right keys and lengths, one field with rows of the wrong shape
            elif bad < 0.27 and n > 0:
                mode = "oob"
                idxs[rng.randrange(n)] = cur_cap + rng.randrange(3)
            ops.append(["add", idxs, ids, mode, tr])
        elif r < 0.65:
            ops.append(["clear"])
        elif r < 0.75:
            c = rng.choice([cur_cap, max(cur_cap - 1, 0), cur_cap + 1, cur_cap + 1, cur_cap * 2 + 1, cur_cap + 3])
            ops.append(["resize", c])
            if c > cur_cap:
                cur_cap = c
        elif r < 0.83 and not with_iters:
            ops.append(["reload", rng.choice(["mem", "npz", "npz", "pickle", "deepcopy"])])
        elif r < 0.83:
            ops.append(["iter_new"])
            n_iters += 1
        elif r < 0.95 and n_iters:
            ops.append(["iter_next", rng.randrange(n_iters)])
        else:
            ops.append(["raw"])
    return {"layout": [(n, s if not isinstance(s, tuple) else list(s), "object" if d is object else np.dtype(d).name) for n, s, d in layout],
            "cap": cap, "ops": ops, "obs_seed": rng.randrange(1 << 30), "quiet": rng.choice([0, 0, 2, 3, 5])}


def layout_of(case):
    out = []
    for n, s, d in case["layout"]:
        out.append((n, tuple(s) if isinstance(s, list) else s, object if d == "object" else np.dtype(d).type))
    return out


def observe(store, layout, orng, cap_hint):
    """public-API observation of a store -> (summary, data, retrieve_query, retrieve_result)"""
    raw = store.as_raw_dict()
    upd = [int(x) for x in raw["props.updates"]]
    summary = [int(store.capacity), len(store), [int(x) for x in store.occupied_list], [bool(x) for x in store.occupied], upd[0], upd[1]]
    # data() through a random read path
    names = [n for n, _, _ in layout]
    path = orng.choice(["dict", "tuple", "pandas", "single"])
    if path == "pandas" and any((isinstance(s, tuple) and len(s) > 1) for _, s, _ in layout):
        try:
            store.data(return_type="pandas")
            data = "no-error"
        except ValueError:
            path = "dict"
    if path == "dict":
        d = store.data()
        data = [[int(d["index"][k]), dec_row(layout, {n: d[n][k] for n in names})] for k in range(len(d["index"]))]
    elif path == "tuple":
        d = store.data(return_type="tuple")
        data = [[int(d[-1][k]), dec_row(layout, {n: d[j][k] for j, n in enumerate(names)})] for k in range(len(d[-1]))]
    elif path == "single":
        idx = store.data("index")
        cols = {n: store.data(n) for n in names}
        data = [[int(idx[k]), dec_row(layout, {n: cols[n][k] for n in names})] for k in range(len(idx))]
    elif path == "pandas":
        df = store.data(return_type="pandas")
        data = []
        for k in range(len(df)):
            vals = {}
            for n, s, dt in layout:
                if s == () or s == []:
                    vals[n] = df[n].iloc[k]
                else:
                    ln = s if isinstance(s, int) else s[0]
                    vals[n] = np.array([df["%s_%d" % (n, j)].iloc[k] for j in range(ln)], dtype=dt)
            data.append([int(df["index"].iloc[k]), dec_row(layout, vals)])
    # whatever happened to the store (resize, reload, clear): the fields keep their declared dtypes
    dd = store.data()
    for n, _s, dt in layout:
        want_dt = np.dtype(object) if dt is object else np.dtype(dt)
        if dd[n].dtype != want_dt:
            data = "field %s has dtype %s, declared %s" % (n, dd[n].dtype, want_dt)
    cap = int(store.capacity)
    query = [orng.randrange(cap) for _ in range(orng.randint(0, 5))] if cap else []
    if cap and orng.random() < 0.15:
        query.append(cap + orng.randrange(2))
    try:
        occ, d = store.retrieve(query)
        res = [0, [[bool(occ[k]), dec_row(layout, {n: d[n][k] for n in names}) if occ[k] else None] for k in range(len(query))]]
        assert [int(x) for x in d["index"]] == query
    except Exception as e:  # noqa
        res = [err_code(e)]
    return summary, data, query, res


def own_list_probe(rep, rng):
    """the indices of an add() may be an array the store itself handed out: occupied_list (a read-only VIEW of the store's own
    bookkeeping array, which add() rewrites) taken before a clear() and used to put entries back -- each value must land at its index"""
    from ribs.archives import ArrayStore
    for _ in range(20):
        cap = rng.choice([4, 7, 12])
        order = rng.sample(range(cap), rng.randint(2, min(cap, 5)))
        s = ArrayStore({"o": ((), np.float64), "v": ((2,), np.float32)}, cap)
        for i in order:
            s.add([i], {"o": [0.0], "v": [[0.0, 0.0]]}, {}, [])
        ol = s.occupied_list
        want = {int(i): 100.0 + k for k, i in enumerate(ol)}
        s.clear()
        vals = [want[int(i)] for i in ol]
        rep.count("own_list_probes")
        try:
            s.add(ol, {"o": vals, "v": [[v, -v] for v in vals]}, {}, [])
        except Exception as e:  # noqa
            rep.violation("ArrayStore.add(store.occupied_list, ...) after clear() raised %r" % (e,), {"kind": "property", "order": order, "capacity": cap}, True,
                          {"kind": "store-add-own-occupied-list"})
            return
        occ, got = s.retrieve(sorted(want), "o")
        got = {i: float(x) for i, x in zip(sorted(want), got)}
        if not bool(np.all(occ)) or got != want or len(s) != len(want):
            rep.violation("ArrayStore: entries first added at indices %s; ol = occupied_list; clear(); add(ol, o=%s): retrieve gives %s, written was %s" % (
                order, vals, got, want), {"kind": "property", "broken": "data written at an index is what retrieve and data return for it",
                                          "order": order, "capacity": cap, "written": want, "retrieved": got}, True, {"kind": "store-add-own-occupied-list"})
            return


def many_clears_probe(rep):
    """'indices never written stay unoccupied' is about the NUMBER of clears as well: several hundred clear() calls in a row (a long run of a
    SlidingBoundariesArchive clears at every remap), looking at the store after each"""
    from ribs.archives import ArrayStore
    s = ArrayStore({"o": ((), np.float64)}, 6)
    s.add([0, 2], {"o": [1000.0, 2000.0]}, {}, [])
    rep.count("many_clears_probes")
    for k in range(1, 601):
        s.clear()
        occ, _ = s.retrieve([0, 1, 2, 5])
        if len(s) != 0 or bool(np.any(s.occupied)) or bool(np.any(occ)) or len(s.occupied_list) != 0:
            rep.violation("ArrayStore: add([0, 2]) and then %d clear() calls: occupied = %s, retrieve([0, 1, 2, 5]) occupied = %s, len = %d" % (
                k, s.occupied.tolist(), occ.tolist(), len(s)), {"kind": "property", "broken": "after clear() nothing is occupied", "clears": k}, True,
                {"kind": "store-clear-recurs"})
            return
        if k == 300:
            s.add([1], {"o": [5.0]}, {}, [])


def index_container(idxs, salt):
    """the indices an add() names, in the container types a caller may use (int32 / int64 / unsigned arrays, python list, tuple)"""
    kind = salt % 6
    if kind == 5:
        return tuple(int(i) for i in idxs)
    if kind == 1:
        return np.array(idxs, dtype=np.int64)
    if kind == 2 and all(i >= 0 for i in idxs):
        return np.array(idxs, dtype=np.uint32)
    if kind == 3 and all(0 <= i < 256 for i in idxs):
        return np.array(idxs, dtype=np.uint8)
    if kind == 4:
        return [int(i) for i in idxs]
    return np.array(idxs, dtype=np.int32)


def run_impl(case):
    """Runs the history on the real ArrayStore; returns (impl outputs, model op list)."""
    from ribs.archives import ArrayStore
    layout = layout_of(case)
    orng = random.Random(case["obs_seed"])
    store = ArrayStore({n: (s, d) for n, s, d in layout}, case["cap"])
    iters = []
    outs, mops = [], []

    def obs(st=None):
        summary, data, query, res = observe(st or store, layout, orng, 0)
        mops.extend([[8], [4], [3, query]])
        outs.extend([summary, data, res])

    obs()
    k_op = 0
    for op_pos, op in enumerate(case["ops"]):
        if op[0] == "add":
            _, idxs, ids, mode, tr = op
            log = []
            data = {n: enc_col(s, d, ids) for n, s, d in layout}
            xs_model = list(ids)
            if mode == "missing_key":
                del data[layout[-1][0]]
            elif mode == "extra_key":
                data["zz_extra"] = np.zeros(len(ids))
            elif mode == "bad_len":
                n0 = layout[0][0]
                data[n0] = np.concatenate([data[n0], data[n0][:1]])
                xs_model = xs_model + [xs_model[0]]
            elif mode == "bad_shape":
                # the LAST numeric field, so that a store written field by field would already hold the earlier ones
                num = [nm for nm, sh, dd in layout if dd is not object and np.dtype(dd).kind != "O"]
                if num:
                    a = np.asarray(data[num[-1]])
                    data[num[-1]] = np.concatenate([a.reshape(len(ids), -1)] * 2 + [a.reshape(len(ids), -1)[:, :1]], axis=1)
                else:
                    mode = "ok"
            ts = [make_transform(k, layout, log) for k in tr]
            try:
                info = store.add(index_container(idxs, op_pos), data, {}, ts)
                r = [0, []]
                # add_info is threaded through the transforms
                exp = {}
                for k in tr[:len(log)]:
                    exp["n_" + k] = exp.get("n_" + k, 0) + 1
                if info != exp:
                    r = ["add_info", str(info), str(exp)]
            except Exception as e:  # noqa
                r = [err_code(e)]
            # views seen by the transforms must be views of the pre-call store
            for l in log:
                mops.append([3, l["in_idx"]])
                outs.append([0, [[o, rw if o else None] for o, rw in zip(l["occ"], l["rows"])]])
                if l["index_echo"] != l["in_idx"]:
                    outs[-1] = ["index-echo-mismatch"]
            tdesc = [[l["out_idx"], [x if isinstance(x, int) else -1 for x in l["out_ids"]]] for l in log]
            # transforms that were never reached (an earlier retrieve raised) still need a placeholder
            while len(tdesc) < len(tr):
                tdesc.append([[], []])
            mops.append([0, idxs, xs_model, mode not in ("missing_key", "extra_key", "bad_shape"), tdesc])
            outs.append(r)
        elif op[0] == "clear":
            store.clear()
            mops.append([1])
            outs.append([0])
        elif op[0] == "resize":
            try:
                store.resize(op[1])
                r = [0, []]
            except Exception as e:  # noqa
                r = [err_code(e)]
            mops.append([2, op[1]])
            outs.append(r)
        elif op[0] == "iter_new":
            iters.append(iter(store))
            mops.append([5])
            outs.append(len(iters) - 1)
        elif op[0] == "iter_next":
            it = iters[op[1]]
            try:
                # `for e in it` / list(it) go through iter(it): an iterator is its own iterator (same position, same snapshot)
                d = next(iter(it) if len(outs) % 2 else it)
                r = [0, int(d["index"]), dec_row(layout, {n: d[n] for n, _, _ in layout})]
            except StopIteration:
                r = [6]
            except Exception as e:  # noqa
                r = [err_code(e)]
            mops.append([6, op[1]])
            outs.append(r)
        elif op[0] == "reload":
            # "as_raw_dict / from_raw_dict reproduce an equivalent store": the rest of the history runs on the reproduced store
            # (rebuilt in memory, or after the documented np.savez / np.load round trip); the model just carries on
            if op[1] in ("pickle", "deepcopy"):
                # the generic ways of copying an object must reproduce an equivalent store, too
                import copy
                import pickle
                old_store = store
                store = pickle.loads(pickle.dumps(store)) if op[1] == "pickle" else copy.deepcopy(store)
                raw = old_store.as_raw_dict()
            else:
                raw = store.as_raw_dict()
                if op[1] == "npz":
                    import io
                    buf = io.BytesIO()
                    np.savez(buf, **raw)
                    buf.seek(0)
                    with np.load(buf, allow_pickle=True) as z:
                        raw = {k: z[k] for k in z.files}
                store = ArrayStore.from_raw_dict(raw)
            # a second store rebuilt from the SAME raw dict is then modified: the two must be independent
            sib = ArrayStore.from_raw_dict(raw)
            if sib.capacity:
                try:
                    sib.add([0, sib.capacity - 1], {n: enc_col(s_, d_, [999983, 999979]) for n, s_, d_ in layout}, {}, [])
                except Exception:  # noqa
                    pass
            sib.clear()
        elif op[0] == "raw":
            s2 = ArrayStore.from_raw_dict(store.as_raw_dict())
            mops.append([7])
            outs.append([0])
            obs(s2)
            continue
        # some histories are "quiet": the store is only read every few operations (a cached view or a lazily refreshed field must not
        # depend on being read after every single call)
        k_op += 1
        if case.get("quiet") and k_op % case["quiet"] != 0:
            continue
        obs()
    if case.get("quiet"):
        obs()
    return outs, mops


def canon_model(out):
    """model output -> same shape as run_impl outputs"""
    def row(r):
        return r[0] if r else None
    res = []
    for o in out:
        res.append(o)
    return res


def compare(case, driver):
    outs, mops = run_impl(case)
    mout = driver.call("C13", [case["cap"], mops])
    assert len(mout) == len(outs), (len(mout), len(outs))
    for k, (mo, io, op) in enumerate(zip(mout, outs, mops)):
        code = op[0]
        if code == 8:
            m = [mo[0], mo[1], mo[2], [bool(x) for x in mo[3]], mo[4], mo[5]]
            i = io
        elif code == 4:
            m = [[a, (b[0] if b else None)] for a, b in mo]
            i = io
        elif code == 3:
            if mo[0] == 0:
                # rows are only observable where occupied
                m = [0, [[bool(o), (r[0] if r else None) if o else None] for o, r in mo[1]]]
            else:
                m = [mo[0]]
            i = io
        elif code == 6:
            m = [0, mo[1], (mo[2][0] if mo[2] else None)] if mo[0] == 0 else [mo[0]]
            i = io
        elif code == 5:
            m, i = mo, io
        else:
            m = [mo[0]] if mo[0] != 0 else [0, []]
            i = io if (isinstance(io, list) and len(io) > 1) else ([0, []] if io == [0] else io)
            if code == 1 or code == 7:
                m = [0, []]
        if m != i:
            return {"step": k, "model_op": op, "model": m, "impl": i}
    return None


def oracle(case):
    """Direct statement of C13 on the implementation's outputs (finite map + insertion order), without the model."""
    from ribs.archives import ArrayStore
    layout = layout_of(case)
    store = ArrayStore({n: (s, d) for n, s, d in layout}, case["cap"])
    ref, order = {}, []
    names = [n for n, _, _ in layout]

    def chk(tag):
        if len(store) != len(ref) or len(store) != int(np.sum(store.occupied)):
            return "%s: len %d vs %d occupied (ref %d)" % (tag, len(store), int(np.sum(store.occupied)), len(ref))
        ol = [int(x) for x in store.occupied_list]
        if sorted(ol) != sorted(ref) or len(set(ol)) != len(ol):
            return "%s: occupied_list %s is not an enumeration of occupied indices %s" % (tag, ol, sorted(ref))
        if ol != order:
            return "%s: occupied_list %s not in first-filled order %s" % (tag, ol, order)
        d = store.data()
        for n_, _s, dt_ in layout:
            want_dt = np.dtype(object) if dt_ is object else np.dtype(dt_)
            if d[n_].dtype != want_dt:
                return "%s: field %s has dtype %s, declared %s" % (tag, n_, d[n_].dtype, want_dt)
        got = {int(d["index"][k]): dec_row(layout, {n: d[n][k] for n in names}) for k in range(len(ol))}
        if got != ref:
            return "%s: data() %s differs from what was written %s" % (tag, got, ref)
        return None
    for k, op in enumerate(case["ops"]):
        if op[0] == "add" and op[3] == "ok":
            try:
                store.add(index_container(op[1], k), {n: enc_col(s, d, op[2]) for n, s, d in layout}, {},
                          [make_transform(t, layout, []) for t in op[4]])
            except Exception as e:  # noqa
                return "op %d: valid add raised %r" % (k, e)
            # the documented contract: every transform sees the occupancy of ITS input indices in the store as it was before the
            # call, and its output replaces (indices, new_data); the final rows are written in order
            idx, xs = list(op[1]), list(op[2])
            for t in op[4]:
                occ = [i in ref for i in idx]
                n_ = len(idx)
                if t == "id":
                    keep = list(range(n_))
                elif t == "rev":
                    keep = list(range(n_))[::-1]
                elif t == "evens":
                    keep = list(range(0, n_, 2))
                elif t == "dedupe_first":
                    seen_, keep = set(), []
                    for j in range(n_):
                        if idx[j] not in seen_:
                            seen_.add(idx[j])
                            keep.append(j)
                elif t == "only_unocc":
                    keep = [j for j in range(n_) if not occ[j]]
                elif t == "only_occ":
                    keep = [j for j in range(n_) if occ[j]]
                else:
                    keep = []
                idx, xs = [idx[j] for j in keep], [xs[j] for j in keep]
            new = sorted({i for i in idx if i not in ref})
            for i, x in zip(idx, xs):
                ref[i] = x
            order.extend(new)
        elif op[0] == "add":
            continue  # malformed adds are judged by the model (and must leave the store unchanged, which the next chk sees)
        elif op[0] == "clear":
            store.clear()
            ref.clear()
            order.clear()
        elif op[0] == "resize":
            try:
                store.resize(op[1])
            except ValueError:
                pass
        elif op[0] == "reload" and op[1] in ("pickle", "deepcopy"):
            import copy
            import pickle
            store = pickle.loads(pickle.dumps(store)) if op[1] == "pickle" else copy.deepcopy(store)
        elif op[0] == "reload":
            raw = store.as_raw_dict()
            if op[1] == "npz":
                import io
                buf = io.BytesIO()
                np.savez(buf, **raw)
                buf.seek(0)
                with np.load(buf, allow_pickle=True) as z:
                    raw = {k_: z[k_] for k_ in z.files}
            store = ArrayStore.from_raw_dict(raw)
        if case.get("quiet") and (k + 1) % case["quiet"] != 0 and k != len(case["ops"]) - 1:
            continue      # quiet histories: the store is only read every few operations
        e = chk("after op %d %s" % (k, op[0]))
        if e:
            return e
    return None


def nontrivial(case):
    ops = case["ops"]
    rep = any(o[0] == "add" and o[3] == "ok" and len(set(o[1])) < len(o[1]) for o in ops)
    cleared_then_add = any(o[0] == "clear" and any(p[0] == "add" and p[1] for p in ops[k + 1:]) for k, o in enumerate(ops))
    return rep and cleared_then_add


def shrink(case, driver):
    """greedy delta debugging over the op list"""
    def fails(c):
        try:
            return compare(c, driver) is not None
        except Exception:  # noqa
            return False
    ops = list(case["ops"])
    changed = True
    while changed and len(ops) > 1:
        changed = False
        for k in range(len(ops)):
            if ops[k][0] == "iter_new":
                continue
            cand = dict(case, ops=ops[:k] + ops[k + 1:])
            # iterator numbering must stay valid
            n_it = 0
            okc = True
            for o in cand["ops"]:
                if o[0] == "iter_new":
                    n_it += 1
                if o[0] == "iter_next" and o[1] >= n_it:
                    okc = False
            if okc and fails(cand):
                ops = cand["ops"]
                changed = True
                break
    return dict(case, ops=ops)


def check(rep, tier, seed, driver):
    import json
    import os
    from common import CORPUS
    py2v_store.report(rep)
    py2v_storeops.report(rep)
    own_list_probe(rep, random.Random(seed + 3))
    many_clears_probe(rep)
    rng = random.Random(seed)
    n = 1500 if tier == "quick" else 20000
    rep.rule = ("random ArrayStore histories (add with arbitrary/repeated/unsorted indices and transform chains, malformed adds, "
                "clear, resize, iterators, raw round trip) over 5 field layouts and capacities 0..100; a history is non-trivial "
                "when it contains a valid add naming an index twice AND a clear followed by a non-empty add; distinct by hash of the history" 
                "; plus: adds whose last numeric field has rows of the wrong shape; histories continued on a store rebuilt from as_raw_dict (in memory or through np.savez/np.load); declared dtypes after every operation")
    cases = []
    cdir = os.path.join(CORPUS, "C13")
    if os.path.isdir(cdir):
        for f in sorted(os.listdir(cdir)):
            cases.append(json.load(open(os.path.join(cdir, f))))
    rep.count("corpus_cases", len(cases))
    cases += [gen_history(rng, tier) for _ in range(n)]
    for case in cases:
        for o in case["ops"]:
            rep.count("op_" + o[0] + ("_" + o[3] if o[0] == "add" else ""))
        try:
            d = compare(case, driver)
        except Exception as e:  # noqa
            d = {"harness_exception": repr(e)}
        rep.case(case, nontrivial(case), sample=case if nontrivial(case) else None)
        if d is not None:
            small = shrink(case, driver)
            try:
                d2 = compare(small, driver) or d
            except Exception as e:  # noqa
                d2 = d
            orc = oracle(small) or oracle(case)
            rep.violation("ArrayStore and the Store model disagree" + (": " + orc if orc else ""),
                          {"kind": "correspondence", "broken": "Model/Store.v vs ribs/archives/_array_store.py", "case": small, "disagreement": d2,
                           "oracle": orc, "theorems_at_stake": ["C13_inv", "C13_read_your_writes", "C13_olist_append"]},
                          orc is not None, {"kind": "correspondence"})
            if len(rep.violations) >= 3:
                break
