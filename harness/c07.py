"""C07 correspondence: retrieve / retrieve_single / sample_elites vs Model/Archive.v (fixed geometry: Grid, CVT; default and CMA-MAE) and
Model/Sliding.v (through remaps); ProximityArchive by the property's own statement (oracle) and the abstract nearest-entry theorem."""
import math
import random
import py2v_retrieve
from fractions import Fraction

import numpy as np

import arch_util as au
import c15
from common import err_code

CONFIG = {
    "source_ties": 'Since round 8 also tied statically: harness/py2v_retrieve.py re-reads ArchiveBase.retrieve / retrieve_single / sample_elites on every run (Refine/RetrieveRefine.v).',
    "cone": ["Base/ListUtil.v", "Base/QUtil.v", "Base/FirstArgmax.v", "Base/MixedRadix.v", "Model/Store.v", "Proofs/StoreProofs.v",
             "Model/Archive.v", "Proofs/ArchiveProofs.v", "Proofs/C01Proofs.v", "Proofs/C02Proofs.v", "Proofs/C07Proofs.v",
             "Proofs/C07NearestProofs.v", "Model/Sliding.v", "Proofs/SlidingProofs.v", "Properties/C07.v",
             "Model/RetrieveFacts.v", "Generated/RetrieveGen.v", "Refine/RetrieveRefine.v"],
    "extra_property_files": ["Refine/RetrieveRefine.v"],
    "trusted": ["Model/Archive.v, Model/Sliding.v: hand-written, tied by the correspondence run (sampled)",
                "the blank values (NaN / -1 / 0 / None per field dtype) are checked by the harness on the real arrays; the model has one blank",
                "ProximityArchive: the k-D tree is external; C07_proximity_nearest is a theorem about ANY minimiser of an abstract distance, the "
                "harness checks on the real archive that every stored entry retrieves an entry with identical measures (itself when unique)",
                "sample_elites: the generator's integers are not controlled; the harness maps each returned elite back to its position in "
                "data() and asks the model for exactly those integers; reachability of every elite is observed with n >= 60*len+60 draws"],
    "level_text": "Theorems C07_retrieve_spec (implementation-shaped retrieve = per query occupied + complete elite of the queried cell, or blank, "
                  "for every reachable state and every query batch), C07_retrieve_pointwise, C07_single_eq, C07_own_cell / "
                  "C07_stored_elite_retrievable (fixed geometry, every history, default and CMA-MAE), C07_sliding_retrievable (every history "
                  "through any number of remaps, current geometry), C07_sample_empty / _current / _reaches, C07_proximity_nearest (abstract "
                  "distance).",
    "level_note": "Trusted: Coq kernel; extraction + driver; models tied by sampling; harness. No axioms.",
    "technique": "Rocq/Coq invariant proof (every elite in its own cell, incl. across remaps) + model-vs-implementation correspondence + oracle",
    "design_ref": "DESIGN.md section 5, C07",
}


def blank_problem(name, val):
    a = np.asarray(val)
    if name == "index":
        return None if np.all(a == -1) else "index blank is %r, not -1" % (val,)
    if a.dtype == object:
        return None if all(x is None for x in a.reshape(-1)) else "object field %s blank is %r, not None" % (name, val)
    if np.issubdtype(a.dtype, np.integer):
        return None if np.all(a == 0) else "integer field %s blank is %r, not 0" % (name, val)
    return None if np.all(np.isnan(a.astype(float))) else "float field %s blank is %r, not NaN" % (name, val)


def canon_ret(spec, occ, data, table, k):
    """one row of a retrieve result -> [occupied, cell, id, obj, thr] or problem string"""
    fields = {n: data[n][k] for n in data}
    if not occ[k]:
        for n, v in fields.items():
            p = blank_problem(n, v)
            if p:
                return p
        return [False]
    i = au.decode_elite(spec, {n: v for n, v in fields.items() if n != "index"}, table)
    if isinstance(i, tuple):
        return "torn elite returned by retrieve: %s" % (i,)
    return [True, int(fields["index"]), i, au.F(fields["objective"]), au.F(fields["threshold"])]


def gen_queries(rng, spec, pool, archive):
    dtype = au.DT[spec["dtype"]]
    nd = au.measure_dim(spec)
    qs = []
    for _ in range(rng.choice([1, 2, 4, 7])):
        r = rng.random()
        if pool and r < 0.55:
            qs.append(list(rng.choice(pool)))
        elif r < 0.85:
            if spec["kind"] == "sliding":
                qs.append([rng.randrange(-56, 57) / 8.0 for _ in range(nd)])
            else:
                qs.append([float(dtype(rng.uniform(lo - 1, hi + 1))) for lo, hi in spec["ranges"]])
        else:
            qs.append([float(dtype(rng.choice([-1, 1]) * 10 ** rng.uniform(1, 8))) if spec["kind"] != "sliding" else rng.choice([-7.0, 7.0]) for _ in range(nd)])
    if qs and rng.random() < 0.5:
        qs.append(list(qs[0]))   # repeat
    return qs


def probe(rng, spec, archive, table, pool):
    """runs the read probes on the real archive; returns dict(queries, cells, ret, single, sample, own)"""
    dtype = au.DT[spec["dtype"]]
    nd = au.measure_dim(spec)
    out = {}
    qs = gen_queries(rng, spec, pool, archive)
    qa = np.array(qs, dtype=dtype).reshape(len(qs), nd)
    out["queries"] = qs
    # the same container goes to index_of and retrieve: a float32 array and the float64 list of the same numbers may
    # legitimately resolve a far query (distance tie in float32) to different centroids
    qarg = qa if rng.random() < 0.7 else qa.tolist()
    out["cells"] = [int(x) for x in archive.index_of(qarg)]
    occ, data = archive.retrieve(qarg)
    out["ret"] = [canon_ret(spec, occ, data, table, k) for k in range(len(qs))]
    o1, d1 = archive.retrieve_single(qarg[0])
    out["single"] = canon_ret(spec, [o1], {n: [v] for n, v in d1.items()}, table, 0)
    # own measures
    d = archive.data()
    n = len(d["index"])
    own = None
    if n:
        occ2, ret2 = archive.retrieve(d["measures"])
        for k in range(n):
            if not occ2[k]:
                own = "elite in cell %d not found by querying its own measures %s" % (int(d["index"][k]), d["measures"][k].tolist())
                break
            for name in d:
                a, b = d[name][k], ret2[name][k]
                same = (a == b) if d[name].dtype == object else np.array_equal(np.asarray(a), np.asarray(b), equal_nan=False)
                if not same:
                    own = "querying the measures of the elite in cell %d returned a different %s (%r vs %r)" % (int(d["index"][k]), name, b, a)
                    break
            if own:
                break
    out["own"] = own
    # sample_elites
    ns = rng.choice([1, 3, 8])
    try:
        s = archive.sample_elites(ns)
        pos = {int(c): k for k, c in enumerate(d["index"])}
        rows, ks = [], []
        for k in range(ns):
            r = canon_ret(spec, [True], {n_: [s[n_][k]] for n_ in s}, table, 0)
            rows.append(r)
            ks.append(pos.get(int(s["index"][k]), -1))
        out["sample"] = {"rows": rows, "ks": ks}
    except Exception as e:  # noqa
        out["sample"] = {"error": err_code(e)}
    out["len"] = n
    return out


def run_fixed(driver, rng, spec, ops):
    """fixed-geometry archive against RunARCH"""
    archive = au.make_archive(spec)
    table, pool = {}, []
    mops, probes = [], []
    for step_no, op in enumerate(ops):
        archive = au.relay(archive, spec, step_no)     # a deep copy / pickle round trip continues exactly like the original
        if op[0] == "add":
            for c in op[1]:
                table[c[0]] = c
                pool.append(c[2])
            kw = au.batch_arrays(spec, op[1], op[2] if len(op) > 2 else "nd")
            cells = au.cells_of(archive, spec, op[1], kw["measures"])
            archive.add(**kw)
            mops.append([0, [au.mcand(cell, c, spec) for cell, c in zip(cells, op[1])]])
        elif op[0] == "add_single":
            c = op[1]
            table[c[0]] = c
            pool.append(c[2])
            kw = au.single_args(spec, c, op[2] if len(op) > 2 else "nd")
            cell = int(archive.index_of_single(kw["measures"]))
            archive.add_single(**kw)
            mops.append([1, au.mcand(cell, c, spec)])
        else:
            archive.clear()
            mops.append([2])
        p = probe(rng, spec, archive, table, pool)
        probes.append(p)
        mops.append([3, p["cells"]])
        mops.append([3, p["cells"][:1]])
        mops.append([6, [k for k in p["sample"].get("ks", [0]) if k >= 0] or [0]])
    mout = au.model_outputs(driver, spec, mops)
    for step, p in enumerate(probes):
        base = step * 4
        r = compare_probe(p, mout[base + 1], mout[base + 2], mout[base + 3], step, approx_thr=spec.get("tmin") is not None)
        if r:
            return r
    return None


def mrow(x):
    """model retrieve row (b (opt (i (o t id)))) -> canonical"""
    b, o = x
    if not b:
        return [False]
    i, r = o[0]
    return [True, i, r[2], au.uq(r[0]), au.uq(r[1])]


def compare_probe(p, m_ret, m_single, m_sample, step, row_dec=mrow, sample_dec=None, approx_thr=False):
    for k, r in enumerate(p["ret"]):
        if isinstance(r, str):
            return {"step": step, "what": "retrieve: " + r, "query": p["queries"][k]}
    mr = [row_dec(x) for x in m_ret]
    if approx_thr:
        def strip(rows):
            return [r[:4] if isinstance(r, list) else r for r in rows]
        for a, b in zip(mr, p["ret"]):
            if isinstance(b, list) and len(a) == 5 and len(b) == 5 and abs(a[4] - b[4]) > Fraction(1, 10 ** 6) * (abs(a[4]) + 1):
                return {"step": step, "what": "retrieve: threshold", "model": float(a[4]), "impl": float(b[4])}
        p = dict(p)
        p["ret"] = strip(p["ret"])
        mr = strip(mr)
        if isinstance(p["single"], list):
            p["single"] = p["single"][:4]
        row_dec0 = row_dec
        row_dec = lambda x: row_dec0(x)[:4]
        if "rows" in p["sample"]:
            p["sample"] = dict(p["sample"], rows=strip(p["sample"]["rows"]))
        sample_dec0 = sample_dec or (lambda x: [True, x[0], x[1][0][2], au.uq(x[1][0][0]), au.uq(x[1][0][1])])
        sample_dec = lambda x: sample_dec0(x)[:4]
    if mr != p["ret"]:
        return {"step": step, "what": "retrieve", "queries": p["queries"], "cells": p["cells"], "model": str(mr), "impl": str(p["ret"])}
    if isinstance(p["single"], str) or [row_dec(x) for x in m_single] != [p["single"]]:
        return {"step": step, "what": "retrieve_single vs retrieve on a batch of one", "model": str(m_single), "impl": str(p["single"])}
    if p["own"]:
        return {"step": step, "what": p["own"]}
    s = p["sample"]
    if "error" in s:
        if p["len"] != 0 or s["error"] != 2 or m_sample != [2]:
            return {"step": step, "what": "sample_elites raised", "impl": s, "model": str(m_sample), "len": p["len"]}
    else:
        if p["len"] == 0:
            return {"step": step, "what": "sample_elites on an empty archive did not raise IndexError"}
        if any(k < 0 for k in s["ks"]) or any(isinstance(r, str) for r in s["rows"]):
            return {"step": step, "what": "sample_elites returned something that is not a current elite", "impl": str(s)}
        if m_sample[0] != 0:
            return {"step": step, "what": "model sample failed", "model": str(m_sample)}
        dec = sample_dec or (lambda x: [True, x[0], x[1][0][2], au.uq(x[1][0][0]), au.uq(x[1][0][1])])
        ms = [dec(x) for x in m_sample[1]]
        if ms != s["rows"]:
            return {"step": step, "what": "sample_elites rows", "model": str(ms), "impl": str(s["rows"])}
    return None


def run_sliding(driver, rng, spec, ops):
    dtype = au.DT[spec["dtype"]]
    archive = au.make_archive(spec)
    table, pool = {}, []
    cfg = [spec["dims"], au.F(dtype(c15.EPS)), spec["remap_frequency"], spec["buffer_capacity"], au.F(dtype(spec["offset"])),
           [au.F(dtype(r[0])) for r in spec["ranges"]], [au.F(dtype(r[1])) for r in spec["ranges"]], False]
    mops, probes = [], []

    def ment(c):
        return [[au.F(dtype(x)) for x in c[2]], au.F(dtype(c[1])), c[0]]
    for step_no, op in enumerate(ops):
        archive = au.relay(archive, spec, step_no)     # a deep copy / pickle round trip continues exactly like the original
        if op[0] == "add":
            for c in op[1]:
                table[c[0]] = c
                pool.append(c[2])
            archive.add(**au.batch_arrays(spec, op[1], op[2]))
            mops.append([0, [ment(c) for c in op[1]]])
        elif op[0] == "add_single":
            table[op[1][0]] = op[1]
            pool.append(op[1][2])
            archive.add_single(**au.single_args(spec, op[1], op[2]))
            mops.append([1, ment(op[1])])
        else:
            archive.clear()
            mops.append([2])
        p = probe(rng, spec, archive, table, pool)
        probes.append(p)
        qq = [[au.F(dtype(x)) for x in q] for q in p["queries"]]
        mops.append([4, qq])
        mops.append([5, qq])
        mops.append([5, qq[:1]])
        mops.append([6, [k for k in p["sample"].get("ks", [0]) if k >= 0] or [0]])
    mout = driver.call("C15", [cfg, mops])

    def srow(x):
        b, o = x
        if not b:
            return [False]
        i, r = o[0]
        r = r[0]
        return [True, i, r[2], au.uq(r[0]), au.uq(r[1])]
    for step, p in enumerate(probes):
        base = step * 5
        if mout[base + 1] != p["cells"]:
            return {"step": step, "what": "index_of of the queries", "queries": p["queries"], "model": mout[base + 1], "impl": p["cells"]}
        r = compare_probe(p, mout[base + 2], mout[base + 3], mout[base + 4], step, row_dec=srow,
                          sample_dec=lambda x: [True, x[0], x[1][0][2], au.uq(x[1][0][0]), au.uq(x[1][0][1])])
        if r:
            return r
    return None


# ---------------------------------------------------------------------------------------------
# ProximityArchive: the property stated directly
def prox_case(rng):
    nd = rng.choice([1, 2])
    spec = {"kind": "prox", "dtype": rng.choice(["f", "d"]), "sol_dim": rng.randint(1, 3), "extras": rng.choice(au.EXTRA_LAYOUTS),
            "k": rng.choice([1, 2, 3, 5]), "thr": rng.choice([0.0, 0.25, 0.5, 1.0]), "lc": rng.random() < 0.5,
            "cap": rng.choice([1, 2, 4, 128]), "nd": nd, "seed": rng.randrange(1 << 30), "ranges": [[-2.0, 2.0]] * nd}
    ops, nid = [], 1
    for _ in range(rng.randint(2, 10)):
        r = rng.random()
        if r < 0.08:
            ops.append(["clear"])
            continue
        n = 1 if r < 0.4 else rng.choice([1, 2, 3, 6])
        cands = []
        for _ in range(n):
            cands.append([nid, rng.randrange(-16, 17) / 4.0, [rng.randrange(-8, 9) / 4.0 for _ in range(nd)]])
            nid += 1
        ops.append(["add_single", cands[0], "nd"] if r < 0.4 else ["add", cands, "nd"])
    return {"spec": spec, "ops": ops}


def make_prox(spec):
    from ribs.archives import ProximityArchive
    return ProximityArchive(solution_dim=spec["sol_dim"], measure_dim=spec["nd"], k_neighbors=spec["k"], novelty_threshold=spec["thr"],
                            local_competition=spec["lc"], initial_capacity=spec["cap"], seed=spec["seed"], dtype=au.DT[spec["dtype"]],
                            extra_fields=au.extra_fields(spec["extras"]) or None)


def prox_oracle(spec, ops):
    rng = random.Random(spec["seed"])
    archive = make_prox(spec)
    table = {}
    dtype = au.DT[spec["dtype"]]
    for step, op in enumerate(ops):
        if op[0] == "clear":
            archive.clear()
        elif op[0] == "add":
            for c in op[1]:
                table[c[0]] = c
            archive.add(**au.batch_arrays(spec, op[1]))
        else:
            table[op[1][0]] = op[1]
            archive.add_single(**au.single_args(spec, op[1]))
        d = archive.data()
        n = len(d["index"])
        if n == 0:
            try:
                archive.sample_elites(2)
                return "step %d: sample_elites on an empty archive did not raise" % step
            except IndexError:
                pass
            continue
        occ, ret = archive.retrieve(d["measures"])
        mcount = {}
        for k in range(n):
            mcount[tuple(d["measures"][k].tolist())] = mcount.get(tuple(d["measures"][k].tolist()), 0) + 1
        for k in range(n):
            if not occ[k]:
                return "step %d: stored entry %d not found through its own measures" % (step, int(d["index"][k]))
            if not np.array_equal(ret["measures"][k], d["measures"][k]):
                return "step %d: querying the measures %s of stored entry %d returned an entry with different measures %s" % (
                    step, d["measures"][k].tolist(), int(d["index"][k]), ret["measures"][k].tolist())
            i = au.decode_elite(spec, {nm: ret[nm][k] for nm in ret if nm != "index"}, table)
            if isinstance(i, tuple):
                return "step %d: retrieve returned a torn entry %s" % (step, i)
            if mcount[tuple(d["measures"][k].tolist())] == 1 and int(ret["index"][k]) != int(d["index"][k]):
                return "step %d: stored entry %d (unique measures) retrieved as entry %d" % (step, int(d["index"][k]), int(ret["index"][k]))
        # far query: occupied, some complete entry
        q = np.array([[rng.choice([-1e6, 1e6, 3.0]) for _ in range(spec["nd"])]], dtype=dtype)
        o2, r2 = archive.retrieve(q)
        if not o2[0] or isinstance(au.decode_elite(spec, {nm: r2[nm][0] for nm in r2 if nm != "index"}, table), tuple):
            return "step %d: retrieve of a far query on a non-empty ProximityArchive is not a complete stored entry" % step
        o1, r1 = archive.retrieve_single(q[0])
        if bool(o1) != bool(o2[0]) or int(r1["index"]) != int(r2["index"][0]):
            return "step %d: retrieve_single disagrees with retrieve" % step
        ns = 60 * n + 60
        s = archive.sample_elites(ns)
        cur = {int(c): k for k, c in enumerate(d["index"])}
        seen = set()
        for k in range(ns):
            c = int(s["index"][k])
            if c not in cur:
                return "step %d: sample_elites returned index %d which is not a current entry" % (step, c)
            for nm in d:
                a, b = d[nm][cur[c]], s[nm][k]
                if not ((a == b) if d[nm].dtype == object else np.array_equal(np.asarray(a), np.asarray(b))):
                    return "step %d: sampled elite %d differs from the stored one in %s" % (step, c, nm)
            seen.add(c)
        if len(seen) != n:
            return "step %d: %d of %d entries never sampled in %d draws" % (step, n - len(seen), n, ns)
    return None


def fixed_sample_reach(spec, ops):
    """every elite reachable by sample_elites (observed with many draws), only current elites returned"""
    trace, mops, archive, table = au.run_impl(spec, ops, obs=False)
    n = len(archive)
    if n == 0:
        for size in (1, 0, 5):
            try:
                archive.sample_elites(size)
                return "sample_elites(%d) on an empty archive did not raise IndexError" % size
            except IndexError:
                pass
        return None
    ns = 60 * n + 60
    s = archive.sample_elites(ns)
    cur = set(int(c) for c in archive.data("index"))
    got = set(int(c) for c in s["index"])
    if not got <= cur:
        return "sample_elites returned indices %s that are not occupied" % sorted(got - cur)
    if got != cur:
        return "%d of %d elites never sampled in %d draws" % (len(cur - got), n, ns)
    return None


def nontrivial(case):
    ops = case["ops"]
    n = sum(len(o[1]) if o[0] == "add" else 1 if o[0] == "add_single" else 0 for o in ops)
    return n >= 4 and len(ops) >= 3


def wide_own_stream(rep, rng, n):
    """float32 Grid/CVT archives fed float64 measures whose float32 rounding lies in ANOTHER cell (found by bisection across a cell
    border): the archive stores the rounded measures, and every stored elite must be found by querying its own (stored) measures."""
    for _ in range(n):
        spec = au.gen_spec(rng, kinds=("grid", "cvt", "cvt_brute"), cma=rng.random() < 0.3, dtypes=("f",), max_cells=24)
        spec["extras"] = []
        arch = au.make_archive(spec)
        m = au.cast_sensitive_measures(arch, spec, rng)
        if m is None:
            continue
        single = rng.random() < 0.5
        sol = np.arange(1, spec["sol_dim"] + 1, dtype=np.float64)
        if single:
            arch.add_single(sol, 1.0, m)
        else:
            other = np.array([rng.uniform(lo, hi) for lo, hi in spec["ranges"]])
            arch.add(np.stack([sol, sol + 1]), np.array([1.0, 0.5]), np.stack([m, other]))
        rep.count("wide_own_cases")
        d = arch.data()
        for k in range(len(d["index"])):
            own = np.array(d["measures"][k], copy=True)
            occ, e = arch.retrieve_single(own)
            if not occ or not np.array_equal(e["solution"], d["solution"][k]):
                rep.violation("a stored elite is not found by querying its own measures: %s archive (float32), %s with float64 measures %s stores measures %s "
                              "in cell %d, but retrieve_single(%s) looks in cell %d and returns occupied=%s" % (
                                  spec["kind"], "add_single" if single else "add", m.tolist(), own.tolist(), int(d["index"][k]), own.tolist(),
                                  int(arch.index_of_single(own)), bool(occ)),
                              {"kind": "property", "broken": "C07_own_measures (every stored elite is found by querying its own measures)",
                               "case": {"spec": spec, "entry": "add_single" if single else "add", "measures_float64_hex": [float(x).hex() for x in m],
                                        "stored_measures": own.tolist(), "stored_cell": int(d["index"][k]), "queried_cell": int(arch.index_of_single(own))}},
                              True, {"kind": "stored-measures-map-elsewhere"})
                return


def big_retrieve_stream(rep, rng, n):
    """one retrieve() call with well over a thousand queries in random order: row i must be what retrieve_single(query i) returns"""
    for _ in range(n):
        spec = au.gen_spec(rng, kinds=("grid", "cvt", "cvt_brute", "sliding"), cma=False, max_cells=40)
        spec["extras"] = ["ev"] if rng.random() < 0.5 else []
        ops = au.gen_history(rng, spec, rng.randint(3, 8), 6, lambda q: q.randrange(-64, 65) / 8.0, clear_rate=0.0)
        trace, mops, archive, table = au.run_impl(spec, ops, obs=False)
        dtype = au.DT[spec["dtype"]]
        nq = rng.choice([1100, 1500, 2300])
        stored = archive.data("measures")
        q = np.array([[rng.uniform(lo - 0.2, hi + 0.2) for lo, hi in spec["ranges"]] for _ in range(nq)], dtype=dtype)
        for j in range(min(len(stored), 40)):
            q[rng.randrange(nq)] = stored[rng.randrange(len(stored))]
        occ, d = archive.retrieve(q)
        rep.count("big_retrieve_cases")
        for i in sorted(set([0, nq - 1] + [rng.randrange(nq) for _ in range(80)])):
            o1, e1 = archive.retrieve_single(q[i])
            same = bool(occ[i]) == bool(o1) and all(
                (np.array_equal(np.asarray(d[f][i]), np.asarray(e1[f]), equal_nan=True) if np.asarray(e1[f]).dtype != object else d[f][i] == e1[f]) for f in e1)
            if not same:
                rep.violation("retrieve() with %d queries: row %d (measures %s) reports occupied=%s, index %s; retrieve_single of the same measures reports "
                              "occupied=%s, index %s" % (nq, i, q[i].tolist(), bool(occ[i]), d["index"][i], bool(o1), e1["index"]),
                              {"kind": "property", "broken": "C07_retrieve_spec (each query gets the elite of the cell its measures map to)",
                               "case": {"spec": spec, "ops": ops, "n_queries": nq, "row": i, "query": q[i].tolist()}}, True, {"kind": "big-retrieve-row-mismatch"})
                return


def empty_sample_stream(rep, rng):
    """sample_elites on an empty archive (fresh, or emptied by clear()) raises IndexError, whatever the requested size"""
    from ribs.archives import ProximityArchive
    for k in range(8):
        if k % 4 == 3:
            a = ProximityArchive(solution_dim=1, measure_dim=2, k_neighbors=1, novelty_threshold=0.5)
            fill = lambda: a.add_single([1.0], 1.0, [0.25, 0.5])
            kind = "proximity"
        else:
            spec = au.gen_spec(rng, kinds=(("grid",), ("cvt",), ("sliding",))[k % 4], max_cells=12)
            spec["extras"] = []
            a = au.make_archive(spec)
            c = [1, 1.0, [float(lo) for lo, _ in spec["ranges"]]]
            fill = lambda: a.add_single(**au.single_args(spec, c))
            kind = spec["kind"]
        if k >= 4:
            fill()
            a.clear()
        for size in (0, 1, 3):
            rep.count("empty_sample_calls")
            try:
                a.sample_elites(size)
                raised = None
            except IndexError:
                continue
            except Exception as e:  # noqa
                raised = e
            rep.violation("%s archive (%s): sample_elites(%d) on an empty archive %s instead of raising IndexError" % (
                kind, "after clear()" if k >= 4 else "fresh", size, "returned" if raised is None else "raised %r" % (raised,)),
                {"kind": "property", "broken": "C07 (sample_elites raises IndexError on an empty archive)", "case": {"archive": kind, "cleared": k >= 4, "size": size}},
                True, {"kind": "empty-sample"})
            return


def check(rep, tier, seed, driver):
    py2v_retrieve.report(rep)
    rng = random.Random(seed)
    n = 160 if tier == "quick" else 3000
    rep.rule = ("histories of add/add_single/clear on Grid / CVT (k-D tree, brute force, chunked) archives (default and CMA-MAE, both dtypes, "
                "all extra-field layouts) against Model/Archive.v and on SlidingBoundariesArchive (through remaps) against Model/Sliding.v; "
                "after EVERY operation: a query batch mixing hits, misses, repeats and far out-of-range measures (retrieve vs model, blank "
                "values per field dtype), retrieve_single vs retrieve, every stored elite queried by its own measures, sample_elites mapped "
                "back to data() positions and compared with the model; ProximityArchive (k, threshold, local competition, growth) by the "
                "oracle; non-trivial = >= 3 operations inserting >= 4 solutions")
    cases = au.load_corpus("C07")
    for k in range(n):
        r = k % 4
        if r == 0:
            spec = au.gen_spec(rng, kinds=("grid", "cvt", "cvt_brute", "cvt_chunk"), cma=False, max_cells=40)
            ops = au.gen_history(rng, spec, rng.randint(2, 10 if tier == "quick" else 30), 8, lambda q: au.wild_float(q, au.DT[spec["dtype"]]))
            cases.append({"spec": spec, "ops": ops, "mode": "fixed"})
        elif r == 1:
            spec = au.gen_spec(rng, kinds=("grid", "cvt", "cvt_brute"), cma=True, max_cells=40)
            spec["lr"] = rng.choice([0.0, 0.25, 0.5, 1.0])
            ops = au.gen_history(rng, spec, rng.randint(2, 10 if tier == "quick" else 30), 8, lambda q: q.randrange(-64, 65) / 8.0)
            cases.append({"spec": spec, "ops": ops, "mode": "fixed"})
        elif r == 2:
            spec = c15.gen_spec(rng, tier)
            sliver = (k // 4) % 2 == 0
            if sliver:   # boundaries that move by less than epsilon between remaps, elites in the slivers (float64 only)
                spec["dtype"] = "d"
                spec["remap_frequency"] = rng.choice([2, 3, 4])
                spec["dims"] = [rng.choice([2, 3, 4]) for _ in spec["dims"]]
            ops = c15.gen_ops(rng, spec, rng.randint(3, 12 if tier == "quick" else 30), force_sliver=sliver)
            cases.append({"spec": spec, "ops": ops, "mode": "sliding"})
        else:
            c = prox_case(rng)
            c["mode"] = "prox"
            cases.append(c)
    for c in cases:
        rep.count("mode_" + c.get("mode", "fixed"))
        if c["spec"]["dtype"] == "f" and c["spec"]["kind"].startswith("cvt"):
            # a float32 CVTArchive routes a float64 list/array in float64 but stores float32 measures; re-querying the stored measures
            # computes the distances in float32, where a far-out-of-range point can tie between two centroids (rounding, not a defect):
            # float32 CVT cases therefore submit float32 arrays, so that routing and re-querying use the same arithmetic
            for o in c["ops"]:
                if o[0] in ("add", "add_single") and len(o) > 2:
                    o[2] = "nd"

    def compare(spec, ops):
        prng = random.Random(spec["seed"] ^ 0x5EED)
        if spec["kind"] == "prox":
            return None
        if spec["kind"] == "sliding" and spec["remap_frequency"] < 10 ** 8:
            return run_sliding(driver, prng, spec, ops)
        if spec.get("tmin") is not None and spec["lr"] not in (0.0, 0.25, 0.5, 1.0):
            return None
        return run_fixed(driver, prng, spec, ops)

    def oracle(spec, ops):
        if spec["kind"] == "prox":
            return prox_oracle(spec, ops)
        if spec["kind"] == "sliding" and spec["remap_frequency"] < 10 ** 8:
            return c15.oracle(spec, ops)
        return fixed_sample_reach(spec, ops)

    def run_cases_spec(cases):
        for c in cases:
            if c["spec"]["kind"] == "prox":
                c["spec"].setdefault("ranges", [[-2.0, 2.0]] * c["spec"]["nd"])
        au.run_cases(rep, "C07", cases, compare=compare, oracle=oracle, nontrivial=nontrivial,
                     what="retrieve / retrieve_single / sample_elites", broken="Model/Archive.v + Model/Sliding.v vs ribs/archives/_archive_base.py (retrieve, sample_elites)",
                     theorems=["C07_retrieve_spec", "C07_stored_elite_retrievable", "C07_sliding_retrievable", "C07_sample_current", "C07_sample_reaches"])
    run_cases_spec(cases)
    wide_own_stream(rep, rng, 40 if tier == "quick" else 600)
    big_retrieve_stream(rep, rng, 6 if tier == "quick" else 60)
    empty_sample_stream(rep, rng)
