"""Fail-closed reader of Scheduler._add_to_archives and of the routing loop of Scheduler.tell (current source under $VERIF_REPO) ->
coq/Generated/SchedGen.v (rewritten on every run); Refine/SchedRefine.v compares with Model/Scheduler.v.  (The ask/tell protocol guards
are read by harness/py2v_proto.py.)

Translated: the slice bounds of the routing loop (`end = pos + n`, `arr[pos:end]`, `pos = end` -> the (start, length) pairs).
Matched statement by statement and recorded as facts: batch mode adds the whole round to the search archive FIRST and then, if there is
one, to the result archive, with the SAME data; single mode inserts row by row in row order, each row into the search archive first and
then into the result archive, and stacks the search archive's feedback; the feedback handed to the emitters is the search archive's;
tell validates, inserts everything, and only then tells the emitters, in pool order, each its own slice of every field and of the
feedback.  Anything else raises Unsupported (= broken tie)."""
import ast
import hashlib
import os

ROOT = os.path.dirname(os.path.dirname(os.path.abspath(__file__)))
REPO = os.environ.get("VERIF_REPO", "/repo")
OUT = os.path.join(ROOT, "coq", "Generated", "SchedGen.v")
SRC = "ribs/schedulers/_scheduler.py"


class Unsupported(Exception):
    pass


def src(e):
    return ast.unparse(e)


def stmts(fn):
    return [s for s in fn.body if not (isinstance(s, ast.Expr) and isinstance(s.value, ast.Constant) and isinstance(s.value.value, str))]


def translate(repo=None):
    repo = repo or REPO
    tree = ast.parse(open(os.path.join(repo, SRC)).read())
    cls = [n for n in tree.body if isinstance(n, ast.ClassDef) and n.name == "Scheduler"]
    if len(cls) != 1:
        raise Unsupported("cannot locate class Scheduler")
    fns = {n.name: n for n in cls[0].body if isinstance(n, ast.FunctionDef)}
    for need in ("_add_to_archives", "tell", "tell_dqd"):
        if need not in fns:
            raise Unsupported("cannot locate Scheduler.%s" % need)
    facts = []
    body = stmts(fns["_add_to_archives"])
    got = [src(s) for s in body]
    want = ["archive_empty_before = self.archive.empty",
            "if self._result_archive is not None:\n    result_archive_empty_before = self.result_archive.empty",
            "if self._add_mode == 'batch':\n    add_info = self.archive.add(**data)\n    if self._result_archive is not None:\n        self._result_archive.add(**data)\n"
            "elif self._add_mode == 'single':\n    add_info = defaultdict(list)\n    for i in range(len(self._cur_solutions)):\n"
            "        single_data = {name: None if arr is None else arr[i] for name, arr in data.items()}\n"
            "        single_info = self.archive.add_single(**single_data)\n        for name, val in single_info.items():\n            add_info[name].append(val)\n"
            "        if self._result_archive is not None:\n            self._result_archive.add_single(**single_data)\n"
            "    for name, arr in add_info.items():\n        add_info[name] = np.asarray(arr)",
            "if archive_empty_before and self.archive.empty:\n    warnings.warn(self.EMPTY_WARNING.format(name='archive'))",
            "if self._result_archive is not None:\n    if result_archive_empty_before and self.result_archive.empty:\n        warnings.warn(self.EMPTY_WARNING.format(name='result_archive'))",
            "return add_info"]
    if got != want:
        d = [(w[:90], g[:90]) for w, g in zip(want, got) if w != g][:1]
        raise Unsupported("_add_to_archives is not the sequence the model was written from; first difference: %r" % (d or [len(got), len(want)]))
    facts += ["BatchSearchArchiveThenResultSameData", "SingleRowByRowSearchThenResult", "FeedbackIsSearchArchives"]
    # ---- tell / tell_dqd: validate, insert, then route
    starts = None
    for name in ("tell", "tell_dqd"):
        b = [src(s) for s in stmts(fns[name])]
        # (the first two statements are the protocol guard and the state assignment: py2v_proto)
        rest = b[2:]
        if len(rest) < 4 or not rest[0].startswith("data = self._validate_tell_data(") or rest[-3:-1] != ["add_info = self._add_to_archives(data)", "pos = 0"]:
            raise Unsupported("%s is not (validate, [jacobian check], _add_to_archives, pos = 0, routing loop): %r" % (name, [x[:50] for x in rest]))
        for mid in rest[1:-3]:      # tell_dqd: conversion and shape check of the jacobian; nothing that touches an archive or an emitter
            if "archive" in mid or "emitter" in mid or "_add_to" in mid:
                raise Unsupported("%s touches an archive or an emitter between validation and insertion: %s" % (name, mid[:80]))
        loop = stmts(fns[name])[-1]
        if not (isinstance(loop, ast.For) and src(loop.target) == "(emitter, n)" and src(loop.iter) == "zip(self._emitters, self._num_emitted)" and not loop.orelse):
            raise Unsupported("%s does not end with the loop over zip(self._emitters, self._num_emitted)" % name)
        lb = loop.body
        if not (len(lb) == 3 and src(lb[0]) == "end = pos + n" and src(lb[2]) == "pos = end" and isinstance(lb[1], ast.Expr) and isinstance(lb[1].value, ast.Call)
                and src(lb[1].value.func) == "emitter.%s" % name):
            raise Unsupported("the routing loop of %s is not (end = pos + n; emitter.%s(<slices>); pos = end)" % (name, name))
        call = lb[1].value
        sl = sorted(src(k.value) for k in call.keywords)
        need = ["{name: None if arr is None else arr[pos:end] for name, arr in data.items()}", "{name: arr[pos:end] for name, arr in add_info.items()}"]
        if name == "tell_dqd":
            need.append("jacobian[pos:end]")
        if sl != sorted(need) or call.args:
            raise Unsupported("emitter.%s does not receive exactly the [pos:end] slices of every field, of the feedback%s: %r" % (
                name, " and of the jacobian" if name == "tell_dqd" else "", sl))
    facts += ["TellValidatesInsertsThenRoutes", "EmittersInPoolOrderGetOwnSlices"]
    text = ("(** GENERATED by harness/py2v_sched.py from the current pyribs source (%s: _add_to_archives, tell, tell_dqd) on every run -- do not edit.\n"
            "    Refine/SchedRefine.v compares with Model/Scheduler.v. *)\nFrom Coq Require Import List Arith.\nFrom PV Require Import Model.SchedFacts.\nImport ListNotations.\n\n"
            "(** end = pos + n; arr[pos:end]; pos = end : the slice of the emitter that emitted n rows starting at position pos *)\n"
            "Definition gen_slice_start (pos n : nat) : nat := pos.\nDefinition gen_slice_end (pos n : nat) : nat := pos + n.\nDefinition gen_next_pos (pos n : nat) : nat := pos + n.\n"
            "Definition gen_sched_facts : list sched_fact := [%s].\n" % (SRC, "; ".join(facts)))
    h = hashlib.sha256("".join(ast.dump(fns[k]) for k in ("_add_to_archives", "tell", "tell_dqd")).encode()).hexdigest()
    return text, h


def generate():
    st = {"ok": False, "error": None, "written": False, "sha": None}
    try:
        text, st["sha"] = translate()
        st["ok"] = True
    except Unsupported as e:
        st["error"] = str(e)
        return st
    except Exception as e:  # noqa
        st["error"] = repr(e)
        return st
    try:
        old = open(OUT).read() if os.path.exists(OUT) else None
        if old != text:
            os.makedirs(os.path.dirname(OUT), exist_ok=True)
            tmp = OUT + ".tmp%d" % os.getpid()
            with open(tmp, "w") as f:
                f.write(text)
            os.replace(tmp, OUT)
            st["written"] = True
    except OSError as e:
        st["ok"], st["error"] = False, "cannot write %s: %r" % (OUT, e)
    return st


STATUS = generate()


def report(rep):
    rep.extra["source_fragments_sched"] = {"translator": "harness/py2v_sched.py", "source": [SRC], "ok": STATUS["ok"], "sha256_of_ast": STATUS["sha"],
                                           "refinement": "coq/Refine/SchedRefine.v"}
    if not STATUS["ok"]:
        rep.violation("the Scheduler reader cannot read the current source of _add_to_archives / tell / tell_dqd any more (fail-closed): %s" % STATUS["error"],
                      {"kind": "translation", "broken": "harness/py2v_sched.py", "error": STATUS["error"]}, False, {"kind": "translation"})


if __name__ == "__main__":
    print(STATUS)
    print(open(OUT).read() if STATUS["ok"] else "")
