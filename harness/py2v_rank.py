"""Fail-closed extractor of the ranker key table of ribs/emitters/rankers.py (current source under $VERIF_REPO) into Gallina
(coq/Generated/RankGen.v, rewritten on every run); Refine/RankRefine.v proves Model/Ranker.v ranks by exactly that table.

For every ranker class the `return` of `rank` must be one of
   np.flip(np.argsort(K)), K                                   -> (One, key K, descending)
   np.argsort(K), K                                            -> (One, key K, ascending)
   np.flip(np.lexsort(np.flip(RV, axis=-1).T)), RV             -> (Two, key K2, descending)   with RV = np.stack((add_info["status"], K2), axis=-1)
with K / K2 one of  add_info["value"] | data["objective"] | add_info["novelty"] | projections | density, where
   projections = np.dot(data["measures"], self._target_measure_dir)         (local, random-direction rankers)
   density     = archive.compute_density(data["measures"])                  (local, DensityRanker)
Anything else raises Unsupported (= broken tie).  A ranker class that is not in the table below is a broken tie as well."""
import ast
import hashlib
import os

ROOT = os.path.dirname(os.path.dirname(os.path.abspath(__file__)))
REPO = os.environ.get("VERIF_REPO", "/repo")
OUT = os.path.join(ROOT, "coq", "Generated", "RankGen.v")
SRC = "ribs/emitters/rankers.py"
KIND = {"ImprovementRanker": "Imp", "TwoStageImprovementRanker": "TwoImp", "RandomDirectionRanker": "RD", "TwoStageRandomDirectionRanker": "TwoRD",
        "ObjectiveRanker": "Obj", "TwoStageObjectiveRanker": "TwoObj", "NoveltyRanker": "Nov", "DensityRanker": "Density"}


class Unsupported(Exception):
    pass


def _fail(node, why):
    raise Unsupported("%s at line %s: %s" % (why, getattr(node, "lineno", "?"), ast.dump(node)[:200]))


def np_call(e, name):
    return isinstance(e, ast.Call) and isinstance(e.func, ast.Attribute) and isinstance(e.func.value, ast.Name) and e.func.value.id == "np" and e.func.attr == name


def sub(e, base, key):
    return (isinstance(e, ast.Subscript) and isinstance(e.value, ast.Name) and e.value.id == base and isinstance(e.slice, ast.Constant) and e.slice.value == key)


def key_of(e, local):
    if sub(e, "add_info", "value"):
        return "KValue"
    if sub(e, "data", "objective"):
        return "KObjective"
    if sub(e, "add_info", "novelty"):
        return "KNovelty"
    if isinstance(e, ast.Name) and e.id in local:
        return local[e.id]
    _fail(e, "unknown ranking key")


def same(a, b):
    return ast.dump(a) == ast.dump(b)


def entry(cdef):
    ranks = [m for m in cdef.body if isinstance(m, ast.FunctionDef) and m.name == "rank"]
    if len(ranks) != 1:
        raise Unsupported("%s has no unique rank method" % cdef.name)
    f = ranks[0]
    local = {}
    rv = None
    for st in ast.walk(f):
        if isinstance(st, ast.Assign) and len(st.targets) == 1 and isinstance(st.targets[0], ast.Name):
            n, v = st.targets[0].id, st.value
            if np_call(v, "dot") and len(v.args) == 2 and sub(v.args[0], "data", "measures") and isinstance(v.args[1], ast.Attribute) and v.args[1].attr == "_target_measure_dir":
                local[n] = "KProjection"
            elif (isinstance(v, ast.Call) and isinstance(v.func, ast.Attribute) and v.func.attr == "compute_density" and isinstance(v.func.value, ast.Name)
                  and v.func.value.id == "archive" and len(v.args) == 1 and sub(v.args[0], "data", "measures")):
                local[n] = "KDensity"
            elif np_call(v, "stack"):
                ok = (len(v.args) == 1 and isinstance(v.args[0], ast.Tuple) and len(v.args[0].elts) == 2 and sub(v.args[0].elts[0], "add_info", "status")
                      and len(v.keywords) == 1 and v.keywords[0].arg == "axis" and isinstance(v.keywords[0].value, ast.UnaryOp))
                if not ok:
                    _fail(v, "unsupported np.stack")
                rv = (n, v.args[0].elts[1])
    rets = [s for s in ast.walk(f) if isinstance(s, ast.Return)]
    if len(rets) != 1 or not (isinstance(rets[0].value, ast.Tuple) and len(rets[0].value.elts) == 2):
        raise Unsupported("%s.rank does not end in a single `return indices, values`" % cdef.name)
    idx, vals = rets[0].value.elts
    # two-stage
    if rv is not None:
        n, k2 = rv
        want = ast.parse("np.flip(np.lexsort(np.flip(%s, axis=-1).T))" % n, mode="eval").body
        if not (same(idx, want) and isinstance(vals, ast.Name) and vals.id == n):
            _fail(idx, "%s.rank: unsupported two-stage ranking expression" % cdef.name)
        return "(Two, %s, true)" % key_of(k2, local)
    if np_call(idx, "flip") and len(idx.args) == 1 and np_call(idx.args[0], "argsort") and len(idx.args[0].args) == 1 and not idx.args[0].keywords and not idx.keywords:
        if not same(idx.args[0].args[0], vals):
            _fail(vals, "%s.rank: ranking values are not the sort key" % cdef.name)
        return "(One, %s, true)" % key_of(vals, local)
    if np_call(idx, "argsort") and len(idx.args) == 1 and not idx.keywords:
        if not same(idx.args[0], vals):
            _fail(vals, "%s.rank: ranking values are not the sort key" % cdef.name)
        return "(One, %s, false)" % key_of(vals, local)
    _fail(idx, "%s.rank: unsupported ranking expression" % cdef.name)


def translate(repo=None):
    repo = repo or REPO
    tree = ast.parse(open(os.path.join(repo, SRC)).read())
    rows, h = [], hashlib.sha256()
    seen = set()
    for n in tree.body:
        if isinstance(n, ast.ClassDef) and n.name != "RankerBase" and any(isinstance(m, ast.FunctionDef) and m.name == "rank" for m in n.body):
            if n.name not in KIND:
                raise Unsupported("ranker class %s is not known to the model" % n.name)
            rows.append("(%s, %s)" % (KIND[n.name], entry(n)))
            seen.add(n.name)
            h.update(ast.dump([m for m in n.body if isinstance(m, ast.FunctionDef) and m.name == "rank"][0]).encode())
    if seen != set(KIND):
        raise Unsupported("ranker classes missing from the source: %s" % sorted(set(KIND) - seen))
    text = ("(** GENERATED by harness/py2v_rank.py from the current pyribs source (%s) on every run -- do not edit.\n"
            "    (ranker, (stages, sort key, descending?)); Refine/RankRefine.v ties the table to Model/Ranker.v. *)\n"
            "From Coq Require Import List.\nFrom PV Require Import Model.Ranker.\nImport ListNotations.\n\n"
            "Inductive stages := One | Two.\nInductive rkey := KValue | KObjective | KNovelty | KProjection | KDensity.\n\n"
            "Definition gen_ranker_table : list (kind * (stages * rkey * bool)) :=\n  [%s].\n" % (SRC, ";\n   ".join(rows)))
    return text, h.hexdigest()


def generate():
    st = {"ok": False, "error": None, "written": False, "sha": None}
    try:
        text, st["sha"] = translate()
        st["ok"] = True
    except Unsupported as e:
        st["error"] = str(e)
        return st
    except Exception as e:  # noqa
        st["error"] = repr(e)
        return st
    try:
        old = open(OUT).read() if os.path.exists(OUT) else None
        if old != text:
            os.makedirs(os.path.dirname(OUT), exist_ok=True)
            tmp = OUT + ".tmp%d" % os.getpid()
            with open(tmp, "w") as f:
                f.write(text)
            os.replace(tmp, OUT)
            st["written"] = True
    except OSError as e:
        st["ok"], st["error"] = False, "cannot write %s: %r" % (OUT, e)
    return st


STATUS = generate()


def report(rep):
    rep.extra["source_fragments"] = {"translator": "harness/py2v_rank.py", "source": [SRC], "ok": STATUS["ok"], "sha256_of_ast": STATUS["sha"],
                                     "refinement": "coq/Refine/RankRefine.v"}
    if not STATUS["ok"]:
        rep.violation("the ranker-table extractor cannot read the current source of ribs/emitters/rankers.py any more (fail-closed): %s" % STATUS["error"],
                      {"kind": "translation", "broken": "harness/py2v_rank.py", "error": STATUS["error"]}, False, {"kind": "translation"})


if __name__ == "__main__":
    print(STATUS)
    print(open(OUT).read() if STATUS["ok"] else "")
