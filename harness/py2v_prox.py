"""Fail-closed translator of the decision expressions of ProximityArchive.compute_novelty / ProximityArchive.add (current source under
$VERIF_REPO) into Gallina (coq/Generated/ProxGen.v, rewritten on every run); Refine/ProxRefine.v proves them equal to the corresponding
definitions of Model/Proximity.v (kk, is_novel, lower, grown_store's test and size).

Scalar expressions are TRANSLATED (names -> variables, min / + / > / >= / <): the neighbour count, the admission test, the new size, the
growth test, the local-competition comparison.  Array-level statements whose meaning the model fixes by construction (novelty = mean of
the k distances, the empty-archive defaults, appended indices, not-novel rows going to index_of, the power-of-two growth, when the tree
is rebuilt) are matched EXACTLY against the form the model was written from and recorded as facts of an enumeration; any other form
raises Unsupported (= broken tie)."""
import ast
import hashlib
import os

ROOT = os.path.dirname(os.path.dirname(os.path.abspath(__file__)))
REPO = os.environ.get("VERIF_REPO", "/repo")
OUT = os.path.join(ROOT, "coq", "Generated", "ProxGen.v")
SRC = "ribs/archives/_proximity_archive.py"


class Unsupported(Exception):
    pass


def _fail(node, why):
    raise Unsupported("%s at line %s: %s" % (why, getattr(node, "lineno", "?"), ast.unparse(node)[:160] if node is not None else ""))


def src(e):
    return ast.unparse(e)


NAT_ATOMS = {"len(self)": "n", "self.k_neighbors": "k", "n_novel_enough": "m", "new_size": "new_size", "self.capacity": "cap"}
Q_ATOMS = {"novelty": "nov", "self.novelty_threshold": "thr", "neighbor_objectives": "nb", "objectives[:, None]": "o"}


def nat_expr(e):
    s = src(e)
    if s in NAT_ATOMS:
        return NAT_ATOMS[s]
    if isinstance(e, ast.Call) and isinstance(e.func, ast.Name) and e.func.id == "min" and len(e.args) == 2 and not e.keywords:
        return "(Nat.min %s %s)" % (nat_expr(e.args[0]), nat_expr(e.args[1]))
    if isinstance(e, ast.BinOp) and isinstance(e.op, ast.Add):
        return "(%s + %s)" % (nat_expr(e.left), nat_expr(e.right))
    _fail(e, "unsupported integer expression")


def q_atom(e):
    s = src(e)
    if s in Q_ATOMS:
        return Q_ATOMS[s]
    _fail(e, "unsupported operand of a comparison")


def cmp_expr(e, kind):
    if not (isinstance(e, ast.Compare) and len(e.ops) == 1 and len(e.comparators) == 1):
        _fail(e, "not a single comparison")
    a, b, op = e.left, e.comparators[0], e.ops[0]
    if kind == "nat":
        a, b = nat_expr(a), nat_expr(b)
        table = {ast.Gt: "(Nat.ltb %s %s)" % (b, a), ast.GtE: "(Nat.leb %s %s)" % (b, a), ast.Lt: "(Nat.ltb %s %s)" % (a, b), ast.LtE: "(Nat.leb %s %s)" % (a, b)}
    else:
        a, b = q_atom(a), q_atom(b)
        table = {ast.Gt: "(Qltb %s %s)" % (b, a), ast.GtE: "(Qle_bool %s %s)" % (b, a), ast.Lt: "(Qltb %s %s)" % (a, b), ast.LtE: "(Qle_bool %s %s)" % (a, b)}
    if type(op) not in table:
        _fail(e, "unsupported comparison operator")
    return table[type(op)]


def assigns(fn, name):
    out = []
    for n in ast.walk(fn):
        if isinstance(n, ast.Assign) and len(n.targets) == 1 and src(n.targets[0]) == name:
            out.append(n)
        if isinstance(n, ast.AugAssign) and src(n.target) == name:
            _fail(n, "augmented assignment to %s" % name)
    return out


def one(fn, name):
    a = assigns(fn, name)
    if len(a) != 1:
        raise Unsupported("expected exactly one assignment to %s in %s, found %d" % (name, fn.name, len(a)))
    return a[0].value


def translate(repo=None):
    repo = repo or REPO
    tree = ast.parse(open(os.path.join(repo, SRC)).read())
    cls = [n for n in tree.body if isinstance(n, ast.ClassDef) and n.name == "ProximityArchive"]
    if len(cls) != 1:
        raise Unsupported("cannot locate class ProximityArchive")
    fns = {n.name: n for n in cls[0].body if isinstance(n, ast.FunctionDef)}
    for need in ("compute_novelty", "add"):
        if need not in fns:
            raise Unsupported("cannot locate ProximityArchive.%s" % need)
    cn, add = fns["compute_novelty"], fns["add"]
    facts = []
    # ---- compute_novelty
    kk = nat_expr(one(cn, "k_neighbors"))
    nov = assigns(cn, "novelty")
    forms = sorted(src(a.value) for a in nov)
    if forms != sorted(["np.full(batch_size, self.novelty_threshold, dtype=self.dtypes['measures'])", "np.mean(dists, axis=1)"]):
        raise Unsupported("novelty is not assigned exactly (threshold when empty | mean of the k distances): %r" % forms)
    facts += ["NoveltyIsMeanOfK", "EmptyNoveltyIsThreshold"]
    q = [n for n in ast.walk(cn) if isinstance(n, ast.Call) and src(n.func).endswith("kd_tree.query")]
    if len(q) != 1 or src(q[0]) != "self._cur_kd_tree.query(measures, k=k_neighbors)":
        raise Unsupported("compute_novelty does not query the tree exactly once with (measures, k=k_neighbors)")
    tests = [n for n in ast.walk(cn) if isinstance(n, ast.If) and src(n.test) == "self.empty"]
    if len(tests) != 1:
        raise Unsupported("compute_novelty does not branch exactly once on self.empty")
    if not any(isinstance(n, ast.Assign) and src(n.targets[0]) == "novelty" and "np.full" in src(n.value) for n in ast.walk(ast.Module(body=tests[0].body, type_ignores=[]))):
        raise Unsupported("the empty-archive branch does not set the default novelty")
    lcs = assigns(cn, "local_competition_scores")
    lforms = [src(a.value) for a in lcs]
    zero = "np.zeros(len(novelty), dtype=np.int32)"
    if len(lcs) != 2 or zero not in lforms:
        raise Unsupported("local_competition_scores is not assigned exactly twice (zeros when empty | count over the neighbours): %r" % lforms)
    other = [a.value for a in lcs if src(a.value) != zero][0]
    if not (isinstance(other, ast.Call) and src(other.func) == "np.sum" and len(other.args) == 1
            and sorted((k.arg, src(k.value)) for k in other.keywords) == [("axis", "1"), ("dtype", "np.int32")]):
        _fail(other, "the local-competition score is not np.sum(<comparison>, axis=1, dtype=np.int32)")
    lower = cmp_expr(other.args[0], "q")
    nb = sorted(src(a.value) for a in assigns(cn, "neighbor_objectives"))
    if nb != sorted(["self._store.retrieve(indices.ravel(), 'objective')[1]", "neighbor_objectives.reshape(indices.shape)"]):
        raise Unsupported("neighbor_objectives are not the stored objectives of the k neighbours: %r" % nb)
    facts += ["EmptyLcIsZero", "LcCountsOverKNeighbours"]
    # ---- add
    admit = cmp_expr(one(add, "novel_enough"), "q")
    if src(one(add, "n_novel_enough")) != "np.sum(novel_enough)":
        raise Unsupported("n_novel_enough is not np.sum(novel_enough)")
    new_size = nat_expr(one(add, "new_size"))
    grows = [n for n in ast.walk(add) if isinstance(n, ast.If) and any(isinstance(x, ast.Call) and src(x.func) == "self._store.resize" for x in ast.walk(n))]
    if len(grows) != 1:
        raise Unsupported("add does not contain exactly one guarded resize")
    must_grow = cmp_expr(grows[0].test, "nat")
    gb = [src(s) for s in grows[0].body]
    if gb != ["multiplier = 2 ** int(np.ceil(np.log2(new_size / self.capacity)))", "self._store.resize(multiplier * self.capacity)"] or grows[0].orelse:
        raise Unsupported("the growth step is not `multiplier = 2 ** ceil(log2(new_size / capacity)); resize(multiplier * capacity)`: %r" % gb)
    facts.append("GrowByPow2CeilLog2")
    ai = sorted(src(a) for a in ast.walk(add) if isinstance(a, ast.Assign) and src(a.targets[0]).startswith("add_indices"))
    want = sorted(["add_indices = np.empty(len(novelty), dtype=np.int32)", "add_indices[novel_enough] = np.arange(len(self), new_size)",
                   "add_indices[not_novel_enough] = self.index_of(data['measures'][not_novel_enough])", "add_indices = np.arange(len(self), new_size)"])
    if ai != want:
        raise Unsupported("the rows to write are not (appended indices for novel rows, index_of for the others): %r" % ai)
    if src(one(add, "not_novel_enough")) != "~novel_enough":
        raise Unsupported("not_novel_enough is not ~novel_enough")
    ad = sorted(src(a.value) for a in assigns(add, "add_data"))
    if ad != sorted(["data", "{key: val[novel_enough] for key, val in data.items()}"]):
        raise Unsupported("add_data is not (all rows with local competition | the novel rows without): %r" % ad)
    facts += ["NewRowsAppended", "NotNovelGoToNearest", "WithoutLcOnlyNovelRows"]
    reb = [n for n in ast.walk(add) if isinstance(n, ast.If) and src(n.test) == "not np.all(add_info['status'] == 0)"]
    if len(reb) != 1 or not any(isinstance(x, ast.Assign) and src(x) == "self._cur_kd_tree = cKDTree(self._store.data('measures'), **self._ckdtree_kwargs)"
                                for x in reb[0].body):
        raise Unsupported("the k-D tree is not rebuilt from all stored measures exactly when some status is non-zero")
    if len([n for n in ast.walk(add) if isinstance(n, ast.Assign) and src(n.targets[0]) == "self._cur_kd_tree"]) != 1:
        raise Unsupported("the k-D tree is assigned more than once in add")
    facts.append("TreeRebuiltWhenAnyStatusNonzero")
    text = ("(** GENERATED by harness/py2v_prox.py from the current pyribs source (%s: compute_novelty, add) on every run -- do not edit.\n"
            "    Refine/ProxRefine.v ties these to Model/Proximity.v. *)\nFrom Coq Require Import List Arith QArith.\n"
            "From PV Require Import Base.QUtil Model.ProxFacts.\nImport ListNotations.\n\n"
            "Definition gen_kk (n k : nat) : nat := %s.\n"
            "Definition gen_novel_enough (nov thr : Q) : bool := %s.\n"
            "Definition gen_new_size (n m : nat) : nat := %s%%nat.\n"
            "Definition gen_must_grow (new_size cap : nat) : bool := %s.\n"
            "Definition gen_lower (nb o : Q) : bool := %s.\n"
            "Definition gen_facts : list prox_fact := [%s].\n" % (SRC, kk, admit, new_size, must_grow, lower, "; ".join(facts)))
    return text, hashlib.sha256((ast.dump(cn) + ast.dump(add)).encode()).hexdigest()


def generate():
    st = {"ok": False, "error": None, "written": False, "sha": None}
    try:
        text, st["sha"] = translate()
        st["ok"] = True
    except Unsupported as e:
        st["error"] = str(e)
        return st
    except Exception as e:  # noqa
        st["error"] = repr(e)
        return st
    try:
        old = open(OUT).read() if os.path.exists(OUT) else None
        if old != text:
            os.makedirs(os.path.dirname(OUT), exist_ok=True)
            tmp = OUT + ".tmp%d" % os.getpid()
            with open(tmp, "w") as f:
                f.write(text)
            os.replace(tmp, OUT)
            st["written"] = True
    except OSError as e:
        st["ok"], st["error"] = False, "cannot write %s: %r" % (OUT, e)
    return st


STATUS = generate()


def report(rep):
    rep.extra["source_fragments_prox"] = {"translator": "harness/py2v_prox.py", "source": [SRC], "ok": STATUS["ok"], "sha256_of_ast": STATUS["sha"],
                                          "refinement": "coq/Refine/ProxRefine.v"}
    if not STATUS["ok"]:
        rep.violation("the ProximityArchive translator cannot read the current source of compute_novelty / add any more (fail-closed): %s" % STATUS["error"],
                      {"kind": "translation", "broken": "harness/py2v_prox.py", "error": STATUS["error"]}, False, {"kind": "translation"})


if __name__ == "__main__":
    print(STATUS)
    print(open(OUT).read() if STATUS["ok"] else "")
