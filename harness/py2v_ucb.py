"""Fail-closed translator of the UCB1 score expression of BanditScheduler.ask (current source under $VERIF_REPO) into Gallina over R
with uninterpreted sqrt / log (coq/Generated/UcbGen.v, rewritten on every run); Refine/UcbRefine.v proves it equal to the documented
formula  success/selection + zeta * sqrt(ln(total success)/selection)  for all arguments (total success clipped below at 1, fix F9),
and checks the structural facts the model relies on: never-selected emitters keep the score +inf (`np.full_like(..., np.inf)` and the
mask `self._selection != 0`), the order is `np.argsort(ucb1)[::-1]` (descending).
Element-wise reading: self._success[mask] -> s, self._selection[mask] -> n, self._success.sum() -> tot, self._zeta -> zeta."""
import ast
import hashlib
import os
from fractions import Fraction

ROOT = os.path.dirname(os.path.dirname(os.path.abspath(__file__)))
REPO = os.environ.get("VERIF_REPO", "/repo")
OUT = os.path.join(ROOT, "coq", "Generated", "UcbGen.v")
SRC = "ribs/schedulers/_bandit_scheduler.py"


class Unsupported(Exception):
    pass


def _fail(node, why):
    raise Unsupported("%s at line %s: %s" % (why, getattr(node, "lineno", "?"), ast.dump(node)[:200]))


def sattr(e, name):
    return isinstance(e, ast.Attribute) and e.attr == name and isinstance(e.value, ast.Name) and e.value.id == "self"


def npc(e, name):
    return isinstance(e, ast.Call) and isinstance(e.func, ast.Attribute) and isinstance(e.func.value, ast.Name) and e.func.value.id == "np" and e.func.attr == name


class T:
    def __init__(self, local):
        self.local = local

    def ex(self, e):
        if isinstance(e, ast.Subscript) and isinstance(e.slice, ast.Name) and e.slice.id == "update_ucb":
            if sattr(e.value, "_success"):
                return "s"
            if sattr(e.value, "_selection"):
                return "n"
        if sattr(e, "_zeta"):
            return "zeta"
        if isinstance(e, ast.Name) and e.id in self.local:
            return self.local[e.id]
        if isinstance(e, ast.Call) and isinstance(e.func, ast.Attribute) and e.func.attr == "sum" and sattr(e.func.value, "_success") and not e.args:
            return "tot"
        if isinstance(e, ast.Call) and isinstance(e.func, ast.Name) and e.func.id == "max" and len(e.args) == 2:
            return "(Rmax %s %s)" % (self.ex(e.args[0]), self.ex(e.args[1]))
        if npc(e, "sqrt") and len(e.args) == 1:
            return "(usqrt %s)" % self.ex(e.args[0])
        if npc(e, "log") and len(e.args) == 1:
            return "(ulog %s)" % self.ex(e.args[0])
        if isinstance(e, ast.Constant) and isinstance(e.value, (int, float)) and not isinstance(e.value, bool):
            fr = Fraction(repr(e.value)) if isinstance(e.value, float) else Fraction(e.value)
            if fr.denominator != 1 or fr < 0:
                _fail(e, "unsupported literal")
            return "%d" % fr.numerator
        if isinstance(e, ast.BinOp):
            for cls, s in ((ast.Add, "+"), (ast.Sub, "-"), (ast.Mult, "*"), (ast.Div, "/")):
                if isinstance(e.op, cls):
                    return "(%s %s %s)" % (self.ex(e.left), s, self.ex(e.right))
        _fail(e, "unsupported expression in the UCB1 score")


def translate(repo=None):
    repo = repo or REPO
    tree = ast.parse(open(os.path.join(repo, SRC)).read())
    ask = None
    for n in tree.body:
        if isinstance(n, ast.ClassDef) and n.name == "BanditScheduler":
            ask = [m for m in n.body if isinstance(m, ast.FunctionDef) and m.name == "ask"]
    if not ask or len(ask) != 1:
        raise Unsupported("cannot locate BanditScheduler.ask")
    ask = ask[0]
    full = mask = order = None
    local = {}
    score = None
    for st in ast.walk(ask):
        if isinstance(st, ast.Assign) and len(st.targets) == 1:
            tg, v = st.targets[0], st.value
            if isinstance(tg, ast.Name) and tg.id == "ucb1":
                full = npc(v, "full_like") and len(v.args) == 2 and isinstance(v.args[1], ast.Attribute) and v.args[1].attr == "inf"
            elif isinstance(tg, ast.Name) and tg.id == "update_ucb":
                mask = (isinstance(v, ast.Compare) and len(v.ops) == 1 and isinstance(v.ops[0], ast.NotEq) and sattr(v.left, "_selection")
                        and isinstance(v.comparators[0], ast.Constant) and v.comparators[0].value == 0)
            elif isinstance(tg, ast.Name) and tg.id == "activate":
                order = (isinstance(v, ast.Subscript) and npc(v.value, "argsort") and len(v.value.args) == 1 and isinstance(v.value.args[0], ast.Name)
                         and v.value.args[0].id == "ucb1" and isinstance(v.slice, ast.Slice) and v.slice.lower is None and v.slice.upper is None
                         and isinstance(v.slice.step, ast.UnaryOp) and isinstance(v.slice.step.op, ast.USub) and v.slice.step.operand.value == 1)
            elif isinstance(tg, ast.Name) and tg.id == "total_success":
                local["total_success"] = T({}).ex(v)
            elif isinstance(tg, ast.Subscript) and isinstance(tg.value, ast.Name) and tg.value.id == "ucb1" and isinstance(tg.slice, ast.Name) and tg.slice.id == "update_ucb":
                score = v
    if not full:
        raise Unsupported("ucb1 is not initialised with np.full_like(..., np.inf)")
    if not mask:
        raise Unsupported("update_ucb is not `self._selection != 0`")
    if not order:
        raise Unsupported("activation order is not np.argsort(ucb1)[::-1]")
    if score is None:
        raise Unsupported("the assignment ucb1[update_ucb] = ... was not found")
    text = ("(** GENERATED by harness/py2v_ucb.py from the current pyribs source (%s: BanditScheduler.ask) on every run -- do not edit.\n"
            "    Structural facts checked by the translator: scores start at +inf (never-selected emitters keep it), are overwritten only where\n"
            "    selection != 0, and emitters are activated in the order np.argsort(ucb1)[::-1] (descending score). *)\n"
            "From Coq Require Import Reals.\nOpen Scope R_scope.\n\nSection UcbGen.\nVariable usqrt : R -> R.\nVariable ulog : R -> R.\n\n"
            "Definition gen_ucb1 (s n tot zeta : R) : R := %s.\nEnd UcbGen.\n" % (SRC, T(local).ex(score)))
    return text, hashlib.sha256(ast.dump(score).encode()).hexdigest()


def generate():
    st = {"ok": False, "error": None, "written": False, "sha": None}
    try:
        text, st["sha"] = translate()
        st["ok"] = True
    except Unsupported as e:
        st["error"] = str(e)
        return st
    except Exception as e:  # noqa
        st["error"] = repr(e)
        return st
    try:
        old = open(OUT).read() if os.path.exists(OUT) else None
        if old != text:
            os.makedirs(os.path.dirname(OUT), exist_ok=True)
            tmp = OUT + ".tmp%d" % os.getpid()
            with open(tmp, "w") as f:
                f.write(text)
            os.replace(tmp, OUT)
            st["written"] = True
    except OSError as e:
        st["ok"], st["error"] = False, "cannot write %s: %r" % (OUT, e)
    return st


STATUS = generate()


def report(rep):
    rep.extra["source_fragments_ucb"] = {"translator": "harness/py2v_ucb.py", "source": [SRC], "ok": STATUS["ok"], "sha256_of_ast": STATUS["sha"],
                                         "refinement": "coq/Refine/UcbRefine.v"}
    if not STATUS["ok"]:
        rep.violation("the UCB1 translator cannot read the current source of BanditScheduler.ask any more (fail-closed): %s" % STATUS["error"],
                      {"kind": "translation", "broken": "harness/py2v_ucb.py", "error": STATUS["error"]}, False, {"kind": "translation"})


if __name__ == "__main__":
    print(STATUS)
    print(open(OUT).read() if STATUS["ok"] else "")
