"""Fail-closed translator of the control logic of EvolutionStrategyEmitter and GradientArborescenceEmitter (current source under
$VERIF_REPO) into Gallina (coq/Generated/ESGen.v, rewritten on every run); Refine/ESRefine.v proves the two copies equal to each
other and to Model/ESControl.v (check_restart, num_parents, the restart disjunction, count_new) for all arguments.

Per class:
  _check_restart(self, num_parents): a chain of
       if isinstance(self._restart_rule, numbers.Integral): return self._itrs % self._restart_rule == 0
       if self._restart_rule == "no_improvement":           return num_parents == 0
       if self._restart_rule == "basic":                    return False
       raise ValueError(...)
     -> gen_check_restart_<C> (r : restart_rule) (itrs n : nat) : bool  (branch bodies translated, one per rule, any order)
  tell:  `self._itrs += 1` must precede the restart test;
         new_sols = add_info["status"].astype(bool).sum()                       -> count_new
         num_parents = (new_sols if self._selection_rule == "filter" else self._batch_size // 2)
         if (self._opt.check_stop(ranking_values[indices]) or self._check_restart(new_sols)):   -> stop || check_restart(... new_sols)
Anything else raises Unsupported (= broken tie)."""
import ast
import hashlib
import os

ROOT = os.path.dirname(os.path.dirname(os.path.abspath(__file__)))
REPO = os.environ.get("VERIF_REPO", "/repo")
OUT = os.path.join(ROOT, "coq", "Generated", "ESGen.v")
TARGETS = [("ribs/emitters/_evolution_strategy_emitter.py", "EvolutionStrategyEmitter", "ESE"),
           ("ribs/emitters/_gradient_arborescence_emitter.py", "GradientArborescenceEmitter", "GAE")]


class Unsupported(Exception):
    pass


def _fail(node, why):
    raise Unsupported("%s at line %s: %s" % (why, getattr(node, "lineno", "?"), ast.dump(node)[:200]))


def sattr(e, name=None):
    ok = isinstance(e, ast.Attribute) and isinstance(e.value, ast.Name) and e.value.id == "self"
    return (e.attr if name is None else e.attr == name) if ok else (None if name is None else False)


def find_method(tree, cls, meth):
    for n in tree.body:
        if isinstance(n, ast.ClassDef) and n.name == cls:
            ms = [m for m in n.body if isinstance(m, ast.FunctionDef) and m.name == meth]
            if len(ms) == 1 and not ms[0].decorator_list:
                return ms[0]
    raise Unsupported("cannot locate %s.%s" % (cls, meth))


def bexpr(e, env):
    """boolean / arithmetic bodies of _check_restart branches"""
    if isinstance(e, ast.Constant) and e.value is False:
        return "false"
    if isinstance(e, ast.Constant) and e.value is True:
        return "true"
    if isinstance(e, ast.Compare) and len(e.ops) == 1 and isinstance(e.ops[0], ast.Eq):
        l, r = e.left, e.comparators[0]
        if isinstance(r, ast.Constant) and r.value == 0:
            if isinstance(l, ast.Name) and l.id in env:
                return "(Nat.eqb %s 0)" % env[l.id]
            if isinstance(l, ast.BinOp) and isinstance(l.op, ast.Mod) and sattr(l.left, "_itrs") and sattr(l.right, "_restart_rule"):
                return "(Z.eqb (Z.modulo (Z.of_nat itrs) k) 0)"
    _fail(e, "unsupported branch body of _check_restart")


def check_restart(fdef, tag):
    if [a.arg for a in fdef.args.args] != ["self", "num_parents"]:
        _fail(fdef, "unexpected signature of _check_restart")
    body = [s for s in fdef.body if not (isinstance(s, ast.Expr) and isinstance(s.value, ast.Constant))]
    branches = {}
    for st in body[:-1]:
        if not (isinstance(st, ast.If) and not st.orelse and len(st.body) == 1 and isinstance(st.body[0], ast.Return)):
            _fail(st, "unsupported statement in _check_restart")
        t = st.test
        if (isinstance(t, ast.Call) and isinstance(t.func, ast.Name) and t.func.id == "isinstance" and len(t.args) == 2 and sattr(t.args[0], "_restart_rule")
                and isinstance(t.args[1], ast.Attribute) and t.args[1].attr == "Integral"):
            key = "EveryN"
        elif (isinstance(t, ast.Compare) and len(t.ops) == 1 and isinstance(t.ops[0], ast.Eq) and sattr(t.left, "_restart_rule")
              and isinstance(t.comparators[0], ast.Constant) and t.comparators[0].value in ("no_improvement", "basic")):
            key = {"no_improvement": "NoImprovement", "basic": "Basic"}[t.comparators[0].value]
        else:
            _fail(t, "unsupported rule test in _check_restart")
        if key in branches:
            _fail(st, "rule %s tested twice" % key)
        branches[key] = bexpr(st.body[0].value, {"num_parents": "n"})
    if not isinstance(body[-1], ast.Raise):
        _fail(body[-1], "_check_restart must end by raising on an invalid rule")
    if set(branches) != {"EveryN", "NoImprovement", "Basic"}:
        raise Unsupported("_check_restart handles rules %s" % sorted(branches))
    return ("Definition gen_check_restart_%s (r : restart_rule) (itrs n : nat) : bool :=\n  match r with\n  | EveryN k => %s\n  | NoImprovement => %s\n  | Basic => %s\n  end.\n"
            % (tag, branches["EveryN"], branches["NoImprovement"], branches["Basic"]))


def tell_logic(fdef, tag):
    stmts = list(ast.walk(fdef))
    # positions (line numbers) of the relevant statements
    inc = [s for s in stmts if isinstance(s, ast.AugAssign) and sattr(s.target, "_itrs") and isinstance(s.op, ast.Add)
           and isinstance(s.value, ast.Constant) and s.value.value == 1]
    if len(inc) != 1:
        raise Unsupported("%s.tell: `self._itrs += 1` not found exactly once" % tag)
    assigns = {s.targets[0].id: s for s in stmts if isinstance(s, ast.Assign) and len(s.targets) == 1 and isinstance(s.targets[0], ast.Name)}
    ns = assigns.get("new_sols")
    v = ns.value if ns is not None else None
    ok_ns = (v is not None and isinstance(v, ast.Call) and isinstance(v.func, ast.Attribute) and v.func.attr == "sum" and not v.args
             and isinstance(v.func.value, ast.Call) and isinstance(v.func.value.func, ast.Attribute) and v.func.value.func.attr == "astype"
             and len(v.func.value.args) == 1 and isinstance(v.func.value.args[0], ast.Name) and v.func.value.args[0].id == "bool"
             and isinstance(v.func.value.func.value, ast.Subscript) and isinstance(v.func.value.func.value.value, ast.Name)
             and v.func.value.func.value.value.id == "add_info" and v.func.value.func.value.slice.value == "status")
    if not ok_ns:
        raise Unsupported("%s.tell: new_sols is not add_info['status'].astype(bool).sum()" % tag)
    npar = assigns.get("num_parents")
    v = npar.value if npar is not None else None
    ok_np = (v is not None and isinstance(v, ast.IfExp) and isinstance(v.body, ast.Name) and v.body.id == "new_sols"
             and isinstance(v.test, ast.Compare) and len(v.test.ops) == 1 and isinstance(v.test.ops[0], ast.Eq) and sattr(v.test.left, "_selection_rule")
             and isinstance(v.test.comparators[0], ast.Constant) and v.test.comparators[0].value == "filter"
             and isinstance(v.orelse, ast.BinOp) and isinstance(v.orelse.op, ast.FloorDiv) and sattr(v.orelse.left, "_batch_size")
             and isinstance(v.orelse.right, ast.Constant) and v.orelse.right.value == 2)
    if not ok_np:
        raise Unsupported("%s.tell: num_parents is not `new_sols if selection_rule == 'filter' else batch_size // 2`" % tag)
    # the restart test
    tests = [s for s in stmts if isinstance(s, ast.If) and any(isinstance(n, ast.Call) and sattr(n.func) == "_check_restart" for n in ast.walk(s.test))]
    if len(tests) != 1:
        raise Unsupported("%s.tell: the restart test is not unique" % tag)
    t = tests[0].test
    ok_t = (isinstance(t, ast.BoolOp) and isinstance(t.op, ast.Or) and len(t.values) == 2)
    if ok_t:
        a, b = t.values
        ok_a = (isinstance(a, ast.Call) and isinstance(a.func, ast.Attribute) and a.func.attr == "check_stop" and sattr(a.func.value, "_opt") and len(a.args) == 1
                and isinstance(a.args[0], ast.Subscript) and isinstance(a.args[0].value, ast.Name) and a.args[0].value.id == "ranking_values"
                and isinstance(a.args[0].slice, ast.Name) and a.args[0].slice.id == "indices")
        ok_b = (isinstance(b, ast.Call) and sattr(b.func) == "_check_restart" and len(b.args) == 1 and isinstance(b.args[0], ast.Name) and b.args[0].id == "new_sols")
        ok_t = ok_a and ok_b
    if not ok_t:
        raise Unsupported("%s.tell: the restart test is not `opt.check_stop(ranking_values[indices]) or _check_restart(new_sols)`" % tag)
    if not (inc[0].lineno < ns.lineno < tests[0].lineno and npar.lineno < tests[0].lineno):
        raise Unsupported("%s.tell: `_itrs += 1`, new_sols, num_parents must precede the restart test" % tag)
    return ("Definition gen_num_parents_%s (sel : selection) (new_sols batch : nat) : nat :=\n  match sel with Filter => new_sols | Mu => batch / 2 end.\n"
            "(** evaluated after `self._itrs += 1`: [itrs1] is the incremented counter; the rule sees new_sols *)\n"
            "Definition gen_restart_%s (r : restart_rule) (stop : bool) (itrs1 new_sols : nat) : bool :=\n  stop || gen_check_restart_%s r itrs1 new_sols.\n"
            % (tag, tag, tag))


def translate(repo=None):
    repo = repo or REPO
    parts, h = [], hashlib.sha256()
    for rel, cls, tag in TARGETS:
        tree = ast.parse(open(os.path.join(repo, rel)).read())
        cr = find_method(tree, cls, "_check_restart")
        tl = find_method(tree, cls, "tell")
        h.update((ast.dump(cr) + ast.dump(tl)).encode())
        parts.append("(** %s : %s *)\n%s%s" % (rel, cls, check_restart(cr, tag), tell_logic(tl, tag)))
    text = ("(** GENERATED by harness/py2v_es.py from the current pyribs source on every run -- do not edit.\n"
            "    Control logic of the two ES-driven emitters; Refine/ESRefine.v proves it equal to Model/ESControl.v. *)\n"
            "From Coq Require Import ZArith Arith Bool.\nFrom PV Require Import Model.ESControl.\n\n" + "\n".join(parts))
    return text, h.hexdigest()


def generate():
    st = {"ok": False, "error": None, "written": False, "sha": None}
    try:
        text, st["sha"] = translate()
        st["ok"] = True
    except Unsupported as e:
        st["error"] = str(e)
        return st
    except Exception as e:  # noqa
        st["error"] = repr(e)
        return st
    try:
        old = open(OUT).read() if os.path.exists(OUT) else None
        if old != text:
            os.makedirs(os.path.dirname(OUT), exist_ok=True)
            tmp = OUT + ".tmp%d" % os.getpid()
            with open(tmp, "w") as f:
                f.write(text)
            os.replace(tmp, OUT)
            st["written"] = True
    except OSError as e:
        st["ok"], st["error"] = False, "cannot write %s: %r" % (OUT, e)
    return st


STATUS = generate()


def report(rep):
    rep.extra["source_fragments"] = {"translator": "harness/py2v_es.py", "source": [t[0] for t in TARGETS], "ok": STATUS["ok"],
                                     "sha256_of_ast": STATUS["sha"], "refinement": "coq/Refine/ESRefine.v"}
    if not STATUS["ok"]:
        rep.violation("the translator cannot read the current control logic of the ES emitters any more (fail-closed): %s" % STATUS["error"],
                      {"kind": "translation", "broken": "harness/py2v_es.py", "error": STATUS["error"]}, False, {"kind": "translation"})


if __name__ == "__main__":
    print(STATUS)
    print(open(OUT).read() if STATUS["ok"] else "")
