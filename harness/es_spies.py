"""Spy collaborators injected into the ES / DQD emitters through their documented public arguments
(es=, ranker=, grad_opt=, seed=, archive).  Shared by c10.py and c19.py.  Every spy appends to one shared
list, so the relative order of the calls the emitter makes to different collaborators is observable."""
from fractions import Fraction

import numpy as np


def fr(x):
    return Fraction(float(x))


def frl(a):
    """nested lists of exact Fractions of a numeric array"""
    a = np.asarray(a)
    if a.ndim == 0:
        return fr(a)
    return [frl(x) for x in a]


def make_spy_es(log, script):
    """script: dict(batch=int, asks=[arrays], stops=[bools]); returns a class usable as es=..."""
    from ribs.emitters.opt import EvolutionStrategyBase

    class SpyES(EvolutionStrategyBase):
        def __init__(self, sigma0, solution_dim, batch_size=None, seed=None, dtype=np.float64, lower_bounds=-np.inf,
                     upper_bounds=np.inf, **kw):
            self.batch_size = script["batch"] if batch_size is None else batch_size
            self.solution_dim = solution_dim
            self.dtype = dtype
            log.append(("es_init", {"sigma0": sigma0, "solution_dim": solution_dim, "batch_size": batch_size, "kw": sorted(kw)}))

        def reset(self, x0):
            log.append(("opt_reset", np.array(x0, copy=True)))

        def check_stop(self, ranking_values):
            log.append(("check_stop", np.array(ranking_values, copy=True)))
            return script["stops"].pop(0) if script["stops"] else False

        def ask(self, batch_size=None):
            log.append(("opt_ask", batch_size))
            return np.array(script["asks"].pop(0), dtype=self.dtype)

        def tell(self, ranking_indices, ranking_values, num_parents):
            log.append(("opt_tell", np.array(ranking_indices, copy=True), np.array(ranking_values, copy=True),
                        num_parents, ranking_indices))

    return SpyES


def make_spy_ranker(log, inner_name, script):
    """Callable for ranker=: wraps a stock ranker (inner_name in _NAME_TO_RANKER_MAP) or, with
    inner_name == 'scripted', answers from script['ranks'] = [(indices, values)], arbitrary."""
    from ribs.emitters import rankers

    class SpyRanker(rankers.RankerBase):
        def __init__(self, seed=None):
            super().__init__(seed)
            self.inner = None if inner_name == "scripted" else rankers._NAME_TO_RANKER_MAP[inner_name](seed)  # pylint: disable=protected-access

        def rank(self, emitter, archive, data, add_info):
            if self.inner is None:
                idx, vals = script["ranks"].pop(0)
                idx, vals = np.array(idx, dtype=int), np.array(vals, dtype=float)
            else:
                idx, vals = self.inner.rank(emitter, archive, data, add_info)
            log.append(("rank", {"emitter": emitter, "archive": archive,
                                 "solution": np.array(data["solution"], copy=True),
                                 "objective": np.array(data["objective"], copy=True),
                                 "measures": np.array(data["measures"], copy=True),
                                 "status": np.array(add_info["status"], copy=True),
                                 "idx": np.array(idx, copy=True), "vals": np.array(vals, copy=True), "idx_obj": idx}))
            return idx, vals

        def reset(self, emitter, archive):
            if self.inner is not None:
                self.inner.reset(emitter, archive)
            log.append(("ranker_reset", emitter, archive))

    class SpyRankerChild(SpyRanker):
        """users subclass rankers and INHERIT reset(): the emitters must call it all the same"""

    return SpyRankerChild if (script or {}).get("inherit_reset", True) else SpyRanker


def make_spy_archive(log):
    from ribs.archives import GridArchive

    class SpyArchive(GridArchive):
        """GridArchive that records sample_elites calls and offers compute_density (for DensityRanker)."""

        def sample_elites(self, n):
            try:
                out = super().sample_elites(n)
            except Exception as e:  # noqa
                log.append(("sample", n, None))
                raise e
            log.append(("sample", n, np.array(out["solution"], copy=True)))
            return out

        def compute_density(self, measures):
            m = np.asarray(measures, dtype=float)
            return np.abs(m).sum(axis=1) + 0.25 * m[:, 0]

    return SpyArchive


def make_spy_grad(log, mode, script=None):
    """grad_opt= callable.  mode 'hold': theta only changes on reset; 'scripted': after each step theta becomes
    script['thetas'].pop(0) (an arbitrary optimiser); 'ga'/'adam': the real optimiser, calls recorded."""
    from ribs.emitters.opt import AdamOpt, GradientAscentOpt, GradientOptBase

    if mode in ("ga", "adam"):
        base = GradientAscentOpt if mode == "ga" else AdamOpt

        class SpyReal(base):
            def __init__(self, *a, **kw):
                super().__init__(*a, **kw)
                if script is not None:
                    script.setdefault("grad_instances", []).append(self)

            def reset(self, theta0):
                log.append(("grad_reset", np.array(theta0, copy=True)))
                super().reset(theta0)

            def step(self, gradient):
                log.append(("grad_step", np.array(gradient, copy=True)))
                super().step(gradient)

        return SpyReal

    class SpyGrad(GradientOptBase):
        def __init__(self, theta0, lr, **kw):
            self._theta = np.array(theta0, dtype=float, copy=True)
            self.lr = lr
            log.append(("grad_init", np.array(theta0, copy=True), lr))
            if script is not None:
                script.setdefault("grad_instances", []).append(self)

        @property
        def theta(self):
            return self._theta

        def reset(self, theta0):
            log.append(("grad_reset", np.array(theta0, copy=True)))
            self._theta = np.array(theta0, dtype=float, copy=True)

        def step(self, gradient):
            log.append(("grad_step", np.array(gradient, copy=True)))
            if mode == "scripted":
                self._theta = np.array(script["thetas"].pop(0), dtype=float)

    return SpyGrad


def make_spy_generator(script, calls):
    """np.random.Generator whose normal() answers from script (a list of arrays); default_rng(gen) returns gen itself,
    so it can be passed as seed= to emitters that build their generator with np.random.default_rng(seed)."""

    class SpyGen(np.random.Generator):
        def __init__(self):
            super().__init__(np.random.PCG64(0))

        def normal(self, loc=0.0, scale=1.0, size=None):
            calls.append((float(np.asarray(loc).reshape(-1)[0]), np.array(scale, copy=True), size))
            return np.array(script.pop(0), dtype=float).reshape(size)

    return SpyGen()
