"""C12 -- no aliasing: caller arrays are never mutated or retained, outputs are copies.

Correspondence of the alias RELATION between the real pyribs and the alias calculus of coq/Model/Alias.v:
for every entry point x argument x caller-side layout class x object state the harness observes, on the real code,
 (i)   whether the caller's allocation changed bitwise                                        (mutated)
 (ii)  whether any array reachable from the archive / emitter / scheduler lives in it          (retained)
 (iii) whether returned arrays live in store buffers / other internal buffers / the caller's   (returned, with flags.writeable)
 (iv)  what user callbacks (transforms, rankers) were handed                                   (exposed)
and compares these booleans with what the extracted abstract interpreter predicts for the hand-written program of that entry
point (driver.call("C12", ...)).  The ORACLE is behavioural and independent of both the model and the graph walk: the same
case is re-run from scratch and (a) the caller overwrites its arrays after the call, (b) every writable returned array is
overwritten; follow-up operations and reads through the public API must be unaffected (stored contents = what data() returns).
A second part compares all read paths (dict, tuple, pandas, iteration, single field, get_field, iterelites) with the Store-level
read-path functions of the model: same elites, same order, declared dtypes."""
import json
import os
import random
import py2v_validate
import time
import traceback

import numpy as np

import c12_eps as E
from c12_util import LAYOUT_CODE, LAYOUTS, is_store_path, poison_returned, returned_arrays, walk

CONFIG = {
    "source_ties": "Since round 8 also tied statically: harness/py2v_validate.py translates the conversions of validate_batch / validate_single into the alias IR on every run; Refine/ValidateRefine.v proves them observationally equal to the model's programs on every abstract state.",
    "cone": ["Base/ListUtil.v", "Model/Store.v", "Proofs/StoreProofs.v", "Model/Alias.v", "Proofs/AliasSound.v", "Proofs/AliasOut.v", "Proofs/AliasEnumA.v",
             "Proofs/AliasEnumB.v", "Proofs/AliasEnumC.v", "Proofs/AliasEnumD.v", "Proofs/AliasProofs.v", "Properties/C12.v",
             "Model/ValidateIR.v", "Generated/ValidateGen.v", "Refine/ValidateRefine.v"],
    "extra_property_files": ["Refine/ValidateRefine.v"],
    "coqchk_budget": 2400,   # the vm_compute enumerations of Proofs/AliasEnum*.v take coqchk about 28 minutes
    "trusted": [
        "coq/Model/Alias.v: the per-entry-point programs are hand-written transcriptions of the Python (one instruction per "
        "aliasing-relevant statement, Python line cited); they are tied to the code by the dynamic alias-relation comparison only",
        "harness/c12_util.py: the object-graph walk (attributes, dicts, lists, tuples, deques, SortedLists, cKDTree.data, pandas "
        "blocks, ndarray.base chains) and numpy.may_share_memory / flags.writeable as the ground truth for aliasing",
        "numpy's aliasing semantics of asarray / basic vs fancy indexing / reshape as encoded in the calculus (Alias.v, section 'step')",
    ],
    "level_text": "coq/Properties/C12.v: alias calculus (heap of buffers, values = buffer id + writable/contiguous/ndarray/dtype flags, "
                  "numpy-style primitives) with a concrete semantics over arbitrary buffer contents and arbitrary content operations, "
                  "an abstract effect semantics (mutated / retained / returned / exposed sets) and alias_sound proved once for all "
                  "programs. For every modelled public entry point, every code path variant and every assignment of the five caller "
                  "layout classes to its arguments (finite, enumerated by vm_compute and lifted with forallb_forall), and for ALL heap "
                  "contents / store states: caller buffers are bitwise unchanged, later caller-side writes cannot change anything "
                  "reachable from self, writes through returned values cannot change store or caller buffers. Second group over "
                  "Model/Store.v: dict, tuple, pandas (+get_field, iterelites), iteration and single-field reads all equal map row olist.",
    "level_note": "The programs describe the code as the property requires (copies); where the unchanged pyribs differs the harness "
                  "reports the finding (F3, F4, F5, F15; F14 is fixed in /repo; FC12a from_raw_dict, FC12b GaussianOperator sigma, FC12c "
                  "GradientArborescenceEmitter.ask_dqd found by this check; patches in fixes/) with a concrete failing input. Control flow of an entry point is "
                  "covered by enumerating its straight-line path variants, loops by one unrolled iteration (the alias relation of an "
                  "iteration does not depend on the index). The programs are hand-written: the tie to the code is the dynamic "
                  "comparison (sampled), not a proof. No axioms.",
    "technique": "Rocq/Coq proof over an executable Gallina model + model-vs-implementation correspondence run",
    "design_ref": "DESIGN.md section 5, C12",
}

THEOREMS = ["alias_sound", "C12_caller_arrays_not_mutated", "C12_caller_arrays_not_retained", "C12_outputs_are_copies_or_readonly",
            "C12_read_paths_agree", "C12_pandas_columns", "C12_elites_are_the_stored_rows"]


# ---------------------------------------------------------------------------------------------
# observation of the real code
def observe(ctx, ret, exc):
    arrays, lists = walk(ctx.roots, skip=[ctx.spy.seen] if ctx.spy is not None else ())  # the spy is the harness' own object
    num = [(p, a) for p, a in arrays if a.dtype != object and a.size > 0]
    store_arrays = [a for p, a in num if is_store_path(p)]
    other_arrays = [a for p, a in num if not is_store_path(p)]
    obs = {"args": {}, "exc": exc}
    rarr = [(p, r) for p, r in returned_arrays(ret) if r.dtype != object and r.size > 0] if ret is not None else []
    _, rlists = walk({"ret": ret}) if ret is not None else ([], {})
    seen = []
    if ctx.spy is not None:
        sa, sl = walk({"seen": ctx.spy.seen})
        seen = ([a for _, a in sa if a.dtype != object and a.size > 0], sl)
    for arg in ctx.args:
        where = [p for p, a in num if arg.aliases(a)]
        lid = arg.list_ids()
        where += [p for i, p in lists.items() if i in lid]
        o = {"mut": bool(arg.mutated()), "ret": bool(where), "where": where[:3],
             "rcaller": any(arg.aliases(r) for _, r in rarr) or any(i in lid for i in rlists)}
        if ctx.spy is not None:
            o["exposed"] = any(arg.aliases(a) for a in seen[0]) or any(i in lid for i in seen[1])
        if o["mut"]:
            o["diff"] = arg.diff()
        obs["args"][arg.name] = o
    rw_store = ro_store = rw_self = False
    detail = []
    for p, r in rarr:
        s = any(np.may_share_memory(r, a) for a in store_arrays)
        t = any(np.may_share_memory(r, a) for a in other_arrays)
        w = bool(r.flags.writeable)
        rw_store |= s and w
        ro_store |= s and not w
        rw_self |= t and w and not s
        if s or t:
            detail.append([p, "store" if s else "self", "writable" if w else "readonly"])
    obs.update({"rw_store": rw_store, "ro_store": ro_store, "rw_self": rw_self, "returned_detail": detail[:4]})
    if ctx.spy is not None:
        obs["exp_store"] = any(np.may_share_memory(a, s) for a in seen[0] for s in store_arrays)
    return obs


def run_case(case, mode="observe", only_arg=None):
    """mode: observe | poison_caller | poison_returned. Returns (ctx, obs, digest, exc)"""
    ctx = E.BUILDERS[case["ep"]](case)
    exc = None
    ret = None
    try:
        ret = ctx.call()
    except Exception as e:  # noqa
        exc = type(e).__name__
        ctx.exc_text = repr(e)[:300]
    obs = None
    held = []
    if mode == "observe":
        obs = observe(ctx, ret, exc)
        # outputs the caller now holds and may write to: they must be copies, so nothing pyribs does later may change them
        held = [(p, r, r.tobytes()) for p, r in (returned_arrays(ret) if ret is not None else [])
                if r.dtype != object and r.size > 0 and r.flags.writeable]
    elif mode == "poison_caller":
        for a in ctx.args:
            if only_arg is None or a.name == only_arg:
                a.poison()
    elif mode == "poison_returned":
        poison_returned(ret)
    dig = ctx.digest()
    if obs is not None:
        obs["ret_changed"] = [p for p, r, b in held if r.tobytes() != b][:4]
    return ctx, obs, dig, exc


# ---------------------------------------------------------------------------------------------
# the model's prediction
def model_predict(driver, ctx):
    lay = [LAYOUT_CODE[a.layout] for a in ctx.args]
    out = driver.call("C12", [0, E.EP_ID[ctx.ep], ctx.variant, lay])
    per_arg, glob = out
    pred = {"args": {}}
    for a, (mut, ret, rcaller, exposed) in zip(ctx.args, per_arg):
        pred["args"][a.name] = {"mut": bool(mut), "ret": bool(ret), "rcaller": bool(rcaller), "exposed": bool(exposed)}
    pred.update({"rw_store": bool(glob[0]), "ro_store": bool(glob[1]), "rw_self": bool(glob[2]), "exp_store": bool(glob[3]),
                 "halted": bool(glob[4])})
    return pred


def disagreements(ctx, obs, pred):
    d = []
    if pred["halted"]:
        d.append({"effect": "model-program-stuck", "arg": None, "impl": None, "model": None})
    for name, o in obs["args"].items():
        p = pred["args"][name]
        for k in ("mut", "ret", "rcaller") + (("exposed",) if ctx.spy is not None else ()):
            if o[k] != p[k]:
                d.append({"effect": k, "arg": name, "impl": o[k], "model": p[k], "where": o.get("where"), "diff": o.get("diff")})
    for k in ("rw_store", "ro_store", "rw_self") + (("exp_store",) if ctx.spy is not None else ()):
        if obs[k] != pred[k]:
            d.append({"effect": k, "arg": None, "impl": obs[k], "model": pred[k], "detail": obs.get("returned_detail")})
    return d


# ---------------------------------------------------------------------------------------------
# oracle: the property's own statement, behaviourally, on the implementation only
def oracle(case, obsA=None, digA=None, attribute=True):
    """returns list of {effect, arg, text}; empty = the property holds on this case"""
    out = []
    if obsA is None:
        ctx, obsA, digA, _ = run_case(case, "observe")
    for name, o in obsA["args"].items():
        if o["mut"]:
            out.append({"effect": "mut", "arg": name, "text": "the caller's %s was changed by the call: %s" % (name, json.dumps(o.get("diff"))[:300])})
    if obsA.get("ret_changed"):
        out.append({"effect": "unstable", "arg": None, "text": "writable arrays handed out by the call (%s) were changed by LATER calls on the object "
                    "while the caller held them: they are live views of internal state, not copies" % ", ".join(obsA["ret_changed"])})
    if obsA["args"]:
        _, _, digB, _ = run_case(case, "poison_caller")
        if digB != digA:
            culprits = []
            if attribute:
                for name in obsA["args"]:
                    _, _, d1, _ = run_case(case, "poison_caller", only_arg=name)
                    if d1 != digA:
                        culprits.append(name)
            for name in culprits or [None]:
                out.append({"effect": "ret", "arg": name, "text": "overwriting the caller's %s AFTER the call changed later observable behaviour "
                            "(%s)" % (name or "arrays", first_diff(digA, digB))})
    _, _, digC, _ = run_case(case, "poison_returned")
    if digA is not None and digC is not None and digC["stored"] != digA["stored"]:
        out.append({"effect": "rw_store", "arg": None, "text": "writing into the returned object changed stored contents (%s)" %
                    first_diff({"stored": digA["stored"]}, {"stored": digC["stored"]})})
    elif (digA is not None and digC is not None and digC.get("extra") != digA.get("extra") and case["ep"] != "Emitter.ask"):
        # what the property lists as handed out by stores / archives (best_elite among them) must be detached from EVERYTHING the object
        # keeps (C12_outputs_detached_from_self), not only from the store's buffers; emitters' ask results are not in that list
        out.append({"effect": "rw_self", "arg": None, "text": "writing into the returned object changed what the object reports afterwards (%s)" %
                    first_diff({"extra": digA["extra"]}, {"extra": digC["extra"]})})
    return out


def first_diff(a, b):
    if a is None or b is None:
        return "one run has no digest"
    for part in ("stored", "extra"):
        for k, (x, y) in enumerate(zip(a.get(part, []), b.get(part, []))):
            if x != y:
                return "%s[%d]: %s -> %s" % (part, k, short(x), short(y))
    return "?"


def short(x):
    def dec(t):
        if isinstance(t, (list, tuple)) and len(t) == 4 and t[0] == "arr":
            try:
                return np.frombuffer(bytes.fromhex(t[3]), dtype=np.dtype(t[1])).reshape(t[2]).tolist()
            except Exception:  # noqa
                return t
        if isinstance(t, (list, tuple)):
            return [dec(u) for u in t]
        return t
    return json.dumps(dec(x), default=str)[:260]


# ---------------------------------------------------------------------------------------------
# classification of findings (tags for known_findings.json / the integrator)
CTORS = ("Store.from_raw_dict", "CVT.ctor_centroids", "CVT.ctor_samples", "Grid.ctor", "Gaussian.ctor", "IsoLine.ctor", "ES.ctor", "GAE.ctor", "GOE.ctor",
         "GA.ctor", "Adam.ctor", "GradAscent.ctor")


def classify(case, ctx_ep, f):
    eff, arg = f["effect"], f.get("arg")
    kind = case["cfg"].get("kind")
    if arg == "jacobian" and eff in ("mut", "ret") and ctx_ep in ("GAE.tell_dqd", "GOE.tell_dqd", "Scheduler.tell_dqd"):
        return "dqd-jacobian-inplace"
    if eff == "ret" and (ctx_ep.startswith("Sliding.") or (ctx_ep in ("Scheduler.tell", "Scheduler.tell_dqd", "Bandit.tell") and kind == "sliding")):
        return "sliding-buffer-retains-caller"
    if ctx_ep == "Emitter.ask" and eff in ("rw_self", "unstable", "rw_store"):
        return "ask-returns-live-view"
    if eff == "rw_self" and ctx_ep == "Archive.best_elite":
        return "best-elite-live-record"
    if eff in ("rw_store", "unstable") and ctx_ep in ("Store.iter", "Archive.iter"):
        return "iter-writable-view"
    if eff == "mut" and ctx_ep == "viz.parallel_axes_plot":
        return "parallel-axes-sorts-caller-frame"
    if eff == "ret" and ctx_ep == "Store.from_raw_dict":
        return "from-raw-dict-keeps-caller-arrays"
    if eff == "ret" and ctx_ep == "GA.ctor" and arg == "sigma":
        return "operator-arg-retained"
    if eff == "ret" and ctx_ep in CTORS:
        return "ctor-arg-retained"
    if eff == "unstable":
        return "returned-array-live-view"
    generic = {"mut": "caller-array-mutated", "ret": "caller-array-retained", "rcaller": "caller-array-handed-back",
               "rw_store": "returned-writable-store-view", "rw_self": "returned-writable-internal-view"}.get(eff, "alias-relation-differs:" + str(eff))
    return "unclassified:%s@%s%s" % (generic, ctx_ep, ":" + arg if arg else "")


# ---------------------------------------------------------------------------------------------
# case generation
ARCH_KINDS = ["grid", "cvt", "sliding", "proximity"]


def rand_layouts(rng, names, bias=None):
    return {n: (bias if bias and rng.random() < 0.5 else rng.choice(LAYOUTS)) for n in names}


def base_cfg(rng, kind=None):
    cfg = {"kind": kind or rng.choice(ARCH_KINDS), "dtype": rng.choice(["float64", "float64", "float32"]),
           "extras": rng.choice([0, 1]), "state": rng.choice(["empty", "some", "some", "dense", "full"]), "pseed": rng.randrange(1000)}
    if cfg["kind"] == "grid":
        cfg["mae"] = rng.choice([0, 0, 1])
    if cfg["kind"] == "cvt":
        cfg["kd"] = rng.choice([0, 1])
    if cfg["kind"] == "sliding":
        cfg["rf"] = rng.choice([2, 3, 4])
        cfg["bc"] = rng.choice([2, 3, 6])
    if cfg["kind"] == "proximity":
        cfg["lc"] = rng.choice([0, 1])
    return cfg


ARG_NAMES = {
    "Store.add": ["indices", "objective", "measures", "solution"], "Store.retrieve": ["indices"],
    "Store.from_raw_dict": ["occupied", "solution"],
    "Archive.add": ["solution", "objective", "measures", "ev"], "Archive.add_single": ["solution", "objective", "measures", "ev"],
    "Archive.retrieve": ["measures"], "Archive.retrieve_single": ["measures"], "Archive.index_of": ["measures"],
    "Archive.index_of_single": ["measures"], "CVT.ctor_centroids": ["custom_centroids"], "CVT.ctor_samples": ["samples"],
    "Grid.ctor": ["dims", "ranges"], "Archive.cqd_score": ["target_points", "penalties"],
    "Proximity.compute_novelty": ["measures", "objective"],
    "Emitter.ctor": ["sigma", "x0", "initial_solutions", "bounds"],
    "Emitter.tell": ["solution", "objective", "measures", "status", "value", "ev"],
    "Emitter.tell_dqd": ["solution", "objective", "measures", "jacobian", "status", "value", "ev"],
    "Scheduler.tell": ["objective", "measures", "ev"], "Scheduler.tell_dqd": ["objective", "measures", "jacobian", "ev"],
    "Bandit.tell": ["objective", "measures", "ev"], "viz": ["df"],
}
for _w in ("Adam", "GradAscent"):
    ARG_NAMES[_w + ".ctor"] = ["theta0"]
    ARG_NAMES[_w + ".reset"] = ["theta0"]
    ARG_NAMES[_w + ".step"] = ["gradient"]

EP_WEIGHTS = [
    ("Store.add", 5), ("Store.retrieve", 3), ("Store.data", 2), ("Store.iter", 2), ("Store.as_raw_dict", 1), ("Store.occupied", 1), ("Store.from_raw_dict", 2),
    ("Archive.add", 10), ("Archive.add_single", 10), ("Archive.retrieve", 3), ("Archive.retrieve_single", 2),
    ("Archive.sample_elites", 2), ("Archive.data", 4), ("Archive.best_elite", 2), ("Archive.iter", 3), ("Archive.index_of", 2),
    ("Archive.index_of_single", 1), ("CVT.ctor_centroids", 2), ("CVT.ctor_samples", 1), ("Grid.ctor", 1), ("Archive.cqd_score", 1),
    ("Proximity.compute_novelty", 1), ("Emitter.ctor", 6), ("Emitter.tell", 5), ("Emitter.tell_dqd", 5), ("Scheduler.tell", 5),
    ("Scheduler.tell_dqd", 3), ("Bandit.tell", 2), ("Emitter.ask", 5), ("Adam.ctor", 1), ("Adam.reset", 1), ("Adam.step", 1), ("GradAscent.ctor", 1),
    ("GradAscent.reset", 1), ("GradAscent.step", 1), ("viz", 3),
]


def gen_case(rng, ep=None, bias=None):
    if ep is None:
        ep = rng.choices([e for e, _ in EP_WEIGHTS], [w for _, w in EP_WEIGHTS])[0]
    cfg = base_cfg(rng)
    if ep.startswith("Store."):
        cfg = {"dtype": cfg["dtype"], "state": cfg["state"], "pseed": cfg["pseed"], "cap": rng.choice([1, 3, 6]),
               "n": rng.choice([1, 2, 4]), "spy": rng.choice([0, 1]), "rtype": rng.choice(E.RTYPES)}
    elif ep in ("Archive.add", "Archive.add_single"):
        cfg["n"] = rng.choice([1, 2, 4])
        cfg["intent"] = rng.choice(["mixed", "mixed", "reject"])
    elif ep in ("Archive.retrieve", "Archive.retrieve_single", "Archive.index_of", "Archive.index_of_single", "Archive.sample_elites"):
        cfg["n"] = rng.choice([1, 3])
        if ep == "Archive.sample_elites" and cfg["state"] == "empty":
            cfg["state"] = "some"
    elif ep == "Archive.data":
        cfg["rtype"] = rng.choice(["dict", "tuple", "pandas", "single", "pandas_get_field", "pandas_iterelites"])
    elif ep in ("CVT.ctor_centroids", "CVT.ctor_samples"):
        cfg = {"dtype": cfg["dtype"], "kd": rng.choice([0, 1]), "extras": 0}
    elif ep == "Grid.ctor":
        cfg = {"dtype": cfg["dtype"], "kind": rng.choice(["grid", "sliding"]), "extras": 0}
    elif ep == "Archive.cqd_score":
        if cfg["state"] == "empty":
            cfg["state"] = "some"
    elif ep == "Proximity.compute_novelty":
        cfg = base_cfg(rng, "proximity")
    elif ep == "Emitter.ctor":
        cfg = base_cfg(rng, rng.choice(["grid", "cvt"]))
        cfg["emitter"] = rng.choice(["gaussian", "isoline", "es", "gae", "goe", "ga"])
        cfg["init"] = rng.choice([0, 1])
    elif ep == "Emitter.ask":
        cfg = base_cfg(rng, rng.choice(["grid", "cvt"]))
        cfg["emitter"] = rng.choice(["gaussian", "isoline", "es", "gae", "goe", "ga"])
        cfg["which"] = rng.choice(["ask", "ask_dqd"]) if cfg["emitter"] in ("gae", "goe") else "ask"
        cfg["init"] = rng.choice([0, 1])
        cfg["es"] = rng.choice(["cma_es", "sep_cma_es", "openai_es"])
        cfg["grad_opt"] = rng.choice(["adam", "gradient_ascent"])
    elif ep == "Emitter.tell":
        cfg = base_cfg(rng, rng.choice(["grid", "cvt", "sliding"]))
        cfg["emitter"] = rng.choice(["gaussian", "isoline", "es", "es", "gae", "gae", "goe"])
        cfg["spy"] = rng.choice([0, 1])
        cfg["es"] = rng.choice(["cma_es", "sep_cma_es", "openai_es"] + (["pycma_es"] * 2 if HAVE_PYCMA else []))
        # one-stage rankers hand the caller's own objective / add-feedback array to the evolution strategy as ranking values
        cfg["ranker"] = rng.choice(["2imp", "imp", "obj", "2obj", "rd", "2rd"])
        cfg["grad_opt"] = rng.choice(["adam", "gradient_ascent"])
        if cfg["state"] == "empty":
            cfg["state"] = "some"
    elif ep == "Emitter.tell_dqd":
        cfg = base_cfg(rng, rng.choice(["grid", "cvt"]))
        cfg["emitter"] = rng.choice(["gae", "goe"])
        cfg["normalize"] = rng.choice([0, 1, 1])
        cfg["mg"] = rng.choice([0, 1])
        cfg["grad_opt"] = rng.choice(["adam", "gradient_ascent"])
        if cfg["state"] == "empty":
            cfg["state"] = "some"
    elif ep in ("Scheduler.tell", "Scheduler.tell_dqd", "Bandit.tell"):
        cfg = base_cfg(rng, rng.choice(["grid", "cvt", "sliding", "proximity"] if ep != "Scheduler.tell_dqd" else ["grid", "sliding"]))
        cfg["lc"] = 1 if cfg["kind"] == "proximity" else 0
        cfg["mode"] = rng.choice(["batch", "single"]) if cfg["kind"] != "proximity" else "batch"
        cfg["result"] = rng.choice([0, 1])
        cfg["emitters"] = rng.choice([["gaussian"], ["gaussian", "es"], ["es", "isoline"]])
        cfg["ranker"] = rng.choice(["obj", "2obj", "imp", "nov"]) if cfg["kind"] == "proximity" else rng.choice(["2imp", "2imp", "imp", "obj", "2obj"])
        cfg["es"] = rng.choice(["cma_es", "sep_cma_es"] + (["pycma_es"] * 2 if HAVE_PYCMA else []))
        cfg["normalize"] = rng.choice([0, 1, 1])
        if cfg["state"] == "empty":
            cfg["state"] = "some"
    elif ep.startswith("Adam.") or ep.startswith("GradAscent."):
        cfg = {"dtype": cfg["dtype"], "l2": rng.choice([0, 1])}      # l2 = 1: non-default options (AdamOpt l2_coeff = 0.5)
    elif ep == "viz":
        which = rng.choice(["parallel_axes", "parallel_axes", "grid", "cvt", "sliding", "proximity"])
        cfg = base_cfg(rng, which if which != "parallel_axes" else rng.choice(["grid", "cvt"]))
        cfg.update({"which": which, "sort": rng.choice([0, 1, 1]), "state": "some", "mae": 0, "rf": 50, "bc": 50})
    lay = rand_layouts(rng, ARG_NAMES.get(ep, []), bias)
    if ep == "viz":
        lay = {"df": rng.choice(["exact", "otherdtype"])}
    return {"ep": ep, "cfg": cfg, "layouts": lay, "vseed": rng.randrange(1 << 20)}


# ---------------------------------------------------------------------------------------------
def evaluate(case, driver):
    """one case: returns (ctx, obs, pred, disagreements, oracle_findings)"""
    ctx, obs, digA, exc = run_case(case, "observe")
    pred = model_predict(driver, ctx)
    dis = disagreements(ctx, obs, pred)
    orc = oracle(case, obs, digA, attribute=True)
    return ctx, obs, pred, dis, orc, exc


def findings_of(case, driver):
    """set of finding kinds + details for a case (used by the shrinker as the failure predicate)"""
    ctx, obs, pred, dis, orc, exc = evaluate(case, driver)
    kinds = {}
    for f in dis:
        if f["effect"] in ("mut", "ret", "rw_store", "rcaller", "model-program-stuck", "exposed", "exp_store", "ro_store", "rw_self"):  # all compared effects
            kinds.setdefault(classify(case, ctx.ep, f), []).append(("model-vs-impl", f))
    for f in orc:
        kinds.setdefault(classify(case, ctx.ep, f), []).append(("oracle", f))
    return ctx, obs, pred, kinds, exc


try:
    import cma as _cma  # noqa: F401
    HAVE_PYCMA = True
except Exception:  # noqa
    HAVE_PYCMA = False

SIMPLER = {  # per config key: values in order of preference (simplest first); the shrinker only moves towards the front
    "state": ["empty", "some", "dense", "full"], "n": [1, 2, 4], "extras": [0, 1], "dtype": ["float64", "float32"], "mae": [0, 1],
    "result": [0, 1], "mode": ["batch", "single"], "spy": [0, 1], "intent": ["mixed", "reject"], "lc": [0, 1], "kd": [1, 0],
    "emitters": [["gaussian"], ["gaussian", "es"], ["es", "isoline"]], "pseed": [0], "normalize": [1, 0], "init": [0, 1],
    "rtype": ["dict"], "cap": [6, 3, 1], "l2": [0, 1],
}
LAYOUT_RANK = {"pylist": 0, "exact": 1, "otherdtype": 2, "view": 3, "noncontig": 4}


def shrink(case, kind, driver, need_oracle=False, max_evals=40):
    """greedy simplification keeping the same finding kind: innocuous layouts, empty state, smallest batch, default config.
    Every step moves strictly towards the front of a preference list, so it terminates."""
    evals = [0]

    def still(c):
        evals[0] += 1
        if evals[0] > max_evals:
            return False
        try:
            hits = findings_of(c, driver)[3].get(kind)
            return bool(hits) and (not need_oracle or any(src == "oracle" for src, _ in hits))
        except Exception:  # noqa
            return False
    cur = json.loads(json.dumps(case))
    changed = True
    while changed and evals[0] <= max_evals:
        changed = False
        for name, lay in list(cur["layouts"].items()):
            for simpler in sorted(LAYOUT_RANK, key=LAYOUT_RANK.get):
                if LAYOUT_RANK[simpler] >= LAYOUT_RANK[lay]:
                    break
                cand = json.loads(json.dumps(cur))
                cand["layouts"][name] = simpler
                if still(cand):
                    cur, changed = cand, True
                    break
        for key, prefs in SIMPLER.items():
            if key not in cur["cfg"]:
                continue
            curv = cur["cfg"][key]
            rank = prefs.index(curv) if curv in prefs else len(prefs)
            for val in prefs[:rank]:
                cand = json.loads(json.dumps(cur))
                cand["cfg"][key] = val
                if key == "extras":
                    cand["layouts"].pop("ev", None)
                if still(cand):
                    cur, changed = cand, True
                    break
    return cur


# ---------------------------------------------------------------------------------------------
# read paths: same elites, same order, declared dtypes (+ correspondence with the model's read-path functions)
def read_paths_case(rng, driver, rep):
    """Random ArrayStore / archive history of accepted writes; every read path is decoded to a list of (index, id) and compared
    with the model's corresponding read-path function (mode 1 of run_C12) and with each other."""
    from ribs.archives import ArrayStore, CVTArchive, GridArchive
    import warnings
    dt = np.dtype(rng.choice(["float64", "float32"]))
    kind = rng.choice(["store", "grid", "cvt"])
    cap = rng.choice([1, 2, 6, 12])
    nops = rng.randint(0, 10)
    ops = []  # ("w", index, id) | ("c",)
    nid = 1

    # the solution has 3 components, or 13 (a data frame then has columns solution_0 .. solution_12, whose alphabetical order is not the
    # numerical one); component j >= 3 carries i + j
    sold = rng.choice([SOLD, SOLD, 13])

    # the extra field may be declared in a NARROWER float type than the archive's (a float32 extra in a float64 archive)
    evdt = np.dtype("float32") if rng.random() < 0.4 else dt

    def enc(i):
        return {"solution": np.array([i, i + 0.5, -i] + [i + j for j in range(3, sold)], dtype=dt), "objective": np.array(i, dtype=dt),
                "measures": None, "ev": np.array([i, i + 0.25], dtype=evdt)}
    # a second extra field whose NAME extends the name of a vector field ("solution_aux" next to the columns solution_0 .. solution_k)
    aux = rng.random() < 0.4
    xf = {"ev": ((2,), evdt), **({"solution_aux": ((2,), dt)} if aux else {})}
    if kind == "store":
        obj = ArrayStore({"solution": ((sold,), dt), "objective": ((), dt), **xf}, cap)
    elif kind == "grid":
        cap = 12
        obj = GridArchive(solution_dim=sold, dims=[4, 3], ranges=[(0, 1), (0, 1)], dtype=dt, extra_fields=xf)
    else:
        cap = 6
        obj = CVTArchive(solution_dim=sold, cells=6, ranges=[(0, 1), (0, 1)], dtype=dt, extra_fields=xf,
                         custom_centroids=np.array([[0.1, 0.1], [0.5, 0.1], [0.9, 0.1], [0.1, 0.9], [0.5, 0.9], [0.9, 0.9]], dtype=dt))

    def warm_reads():
        """reads whose results are thrown away (a read path that remembers what it returned must not serve it again after the contents changed)"""
        if rng.random() < 0.35:
            obj.data(return_type="pandas")
            obj.data()
            obj.data("objective")
            list(iter(obj))
    with warnings.catch_warnings():
        warnings.simplefilter("ignore")
        for k_op in range(nops):
            warm_reads()
            if rng.random() < 0.12 or (k_op == nops - 1 and rng.random() < 0.15):
                obj.clear()
                ops.append([1])
                continue
            e = enc(nid)
            if kind == "store":
                idx = rng.randrange(cap)
                obj.add(np.array([idx], dtype=np.int32), {"solution": e["solution"][None], "objective": e["objective"][None], "ev": e["ev"][None],
                                                          **({"solution_aux": np.full((1, 2), -7.0, dtype=dt)} if aux else {})}, {}, [])
            else:
                meas = np.array([rng.randint(0, 8) / 8.0, rng.randint(0, 8) / 8.0], dtype=dt)
                idx = int(obj.index_of_single(meas))
                # objective = id rises monotonically, so every add is accepted and overwrites the cell
                info = obj.add_single(e["solution"], e["objective"], meas, ev=e["ev"], **({"solution_aux": np.full(2, -7.0, dtype=dt)} if aux else {}))
                assert info["status"] != 0
            ops.append([0, idx, nid])
            nid += 1
    fields = ["solution", "objective", "ev"]
    declared = obj.dtypes if kind != "store" else obj.dtypes

    def dec_row(vals):
        """all fields must carry the same id"""
        ids = set()
        s = np.asarray(vals["solution"], dtype=np.float64)
        ids.add(int(s[0]) if (len(s) == sold and s[1] == s[0] + 0.5 and s[2] == -s[0] and all(s[j] == s[0] + j for j in range(3, sold))) else -1)
        o = float(vals["objective"])
        ids.add(int(o) if o == int(o) else -1)
        v = np.asarray(vals["ev"], dtype=np.float64)
        ids.add(int(v[0]) if v[1] == v[0] + 0.25 else -1)
        return ids.pop() if len(ids) == 1 else -1

    paths = {}
    dtypes_ok = True
    d = obj.data()
    paths["dict"] = [[int(d["index"][k]), dec_row({f: d[f][k] for f in fields})] for k in range(len(d["index"]))]
    dtypes_ok &= all(d[f].dtype == declared[f] for f in fields) and d["index"].dtype == np.int32
    names = list(d.keys())
    t = obj.data(return_type="tuple")
    td = dict(zip(names, t))
    paths["tuple"] = [[int(td["index"][k]), dec_row({f: td[f][k] for f in fields})] for k in range(len(td["index"]))]
    dtypes_ok &= all(td[f].dtype == declared[f] for f in fields)
    single = {f: obj.data(f) for f in fields + ["index"]}
    paths["single"] = [[int(single["index"][k]), dec_row({f: single[f][k] for f in fields})] for k in range(len(single["index"]))]
    dtypes_ok &= all(single[f].dtype == declared[f] for f in fields)
    it = list(iter(obj))
    paths["iter"] = [[int(e["index"]), dec_row({f: e[f] for f in fields})] for e in it]
    dtypes_ok &= all(np.asarray(e[f]).dtype == declared[f] for e in it for f in fields)
    df = obj.data(return_type="pandas")
    if kind == "store":
        from ribs.archives import ArchiveDataFrame
        df = ArchiveDataFrame(df)
    gf = {f: df.get_field(f) for f in fields + ["index"]}
    paths["get_field"] = [[int(gf["index"][k]), dec_row({f: gf[f][k] for f in fields})] for k in range(len(df))]
    dtypes_ok &= all(gf[f].dtype == declared[f] for f in fields) and gf["index"].dtype == np.int32
    paths["iterelites"] = [[int(e["index"]), dec_row({f: e[f] for f in fields})] for e in df.iterelites()]
    cols = [[int(x) for x in df["index"]], [int(x) for x in df["objective"]]]
    paths["pandas"] = [[i, o] for i, o in zip(*cols)]
    if kind != "store" and len(d["index"]):
        # retrieve() / retrieve_single() of the stored elites' own measures: the same elites, with the declared dtypes
        occ, rd = obj.retrieve(d["measures"])
        got = [[int(rd["index"][k]), dec_row({f: rd[f][k] for f in fields})] for k in range(len(d["index"]))]
        r_ok = all(rd[f].dtype == declared[f] for f in fields + ["measures"]) and rd["index"].dtype == np.int32
        o1, r1 = obj.retrieve_single(d["measures"][0])
        r_ok &= all(np.asarray(r1[f]).dtype == declared[f] for f in fields + ["measures"])
        rep.count("readpaths_retrieve")
        if got != paths["dict"] or not bool(np.all(occ)) or not r_ok:
            rep.violation("retrieve() of the stored elites' own measures %s" % ("does not return the declared dtypes (%s, declared %s)" % (
                {f: str(rd[f].dtype) for f in fields}, {f: str(declared[f]) for f in fields}) if (got == paths["dict"] and bool(np.all(occ))) else "presents other elites than data()"),
                {"kind": "oracle", "case": {"readpaths": kind, "dtype": dt.name, "ev_dtype": evdt.name, "cap": cap, "ops": ops}, "retrieve": got, "data": paths["dict"],
                 "dtypes": {f: str(rd[f].dtype) for f in fields}, "theorems_at_stake": ["C12_read_paths_agree"]}, True, {"kind": "read-paths-disagree", "path": "retrieve"})
    # what get_field / iterelites hand out are copies: writing into them changes neither the frame nor what a second call returns
    from c12_util import canon
    df_before = canon(df)
    first = {"get_field": paths["get_field"], "iterelites": paths["iterelites"]}
    handed = [gf, list(df.iterelites())]
    poison_returned(handed)
    gf2 = {f: df.get_field(f) for f in fields + ["index"]}
    second = {"get_field": [[int(gf2["index"][k]), dec_row({f: gf2[f][k] for f in fields})] for k in range(len(df))],
              "iterelites": [[int(e["index"]), dec_row({f: e[f] for f in fields})] for e in df.iterelites()]}
    if canon(df) != df_before or second != first or canon(obj.data()) != canon(d):
        rep.violation("writing into arrays handed out by ArchiveDataFrame.get_field / iterelites changed the frame, a later read of it, or the store",
                      {"kind": "oracle", "case": {"readpaths": kind, "dtype": dt.name, "cap": cap, "ops": ops}, "first_read": first, "second_read": second,
                       "frame_changed": canon(df) != df_before, "theorems_at_stake": ["C12_read_paths_agree"]}, True, {"kind": "df-read-not-a-copy"})
    # frames the user derived with ordinary pandas operations (re-ordered, filtered, label order != position) are ArchiveDataFrames too:
    # on them get_field, iterelites and the scalar columns must still present the same elites in the same (the frame's) order
    if len(df) >= 2:
        derived = {"reversed": df.iloc[::-1], "sorted_desc": df.sort_values("objective", ascending=False),
                   "filtered": df[df["objective"] >= float(np.median(df["objective"]))], "shuffled": df.sample(frac=1.0, random_state=rng.randrange(1 << 30))}
        for how, d2 in derived.items():
            want = [[int(i), int(o)] for i, o in zip(d2["index"], d2["objective"])]
            try:
                g2 = {f: d2.get_field(f) for f in fields + ["index"]}
                got_gf = [[int(g2["index"][k]), dec_row({f: g2[f][k] for f in fields})] for k in range(len(d2))]
                got_it = [[int(e["index"]), dec_row({f: e[f] for f in fields})] for e in d2.iterelites()]
            except Exception as e:  # noqa
                got_gf, got_it = "raised %r" % (e,), None
            rep.count("derived_frames")
            if got_gf != want or got_it != want:
                rep.violation("on a %s ArchiveDataFrame, get_field / iterelites do not present the frame's elites in the frame's order: rows %s, "
                              "get_field %s, iterelites %s" % (how, want[:6], str(got_gf)[:120], str(got_it)[:120]),
                              {"kind": "oracle", "case": {"readpaths": kind, "dtype": dt.name, "cap": cap, "ops": ops, "derived": how},
                               "rows": want, "get_field": got_gf, "iterelites": got_it, "theorems_at_stake": ["C12_read_paths_agree"]},
                              True, {"kind": "df-derived-frame-order"})
                break
    mout = driver.call("C12", [1, cap, ops])
    mpaths = dict(zip(["dict", "tuple", "single", "iter", "pandas", "get_field", "iterelites"], mout))
    bad = {k: {"impl": paths[k], "model": mpaths[k]} for k in paths if paths[k] != mpaths[k]}
    rep.count("readpaths_" + kind)
    rep.count("readpaths_len_%d" % min(len(paths["dict"]), 4))
    case = {"readpaths": kind, "dtype": dt.name, "cap": cap, "ops": ops}
    nontriv = len(paths["dict"]) >= 2 and any(o[0] == 0 and sum(1 for p in ops if p[0] == 0 and p[1] == o[1]) > 1 for o in ops)
    rep.case(case, nontriv, sample=None)
    if bad or not dtypes_ok:
        same = all(paths[k] == paths["dict"] for k in paths)
        rep.violation("read paths disagree" if not same else ("declared dtypes not respected" if not dtypes_ok else "read paths differ from the model"),
                      {"kind": "correspondence", "broken": "Model/Alias.v read paths vs ArrayStore/ArchiveBase/ArchiveDataFrame",
                       "case": case, "disagreement": bad, "dtypes_ok": dtypes_ok, "theorems_at_stake": ["C12_read_paths_agree"]},
                      (not same) or (not dtypes_ok), {"kind": "read-paths-disagree"})


SOLD = 3


# ---------------------------------------------------------------------------------------------
def forced_cases():
    """the layout x entry point combinations every run must contain (forced classes), independent of the seed"""
    out = []
    mk = lambda ep, cfg, lay, vs=1: out.append({"ep": ep, "cfg": cfg, "layouts": lay, "vseed": vs})  # noqa
    for lay in LAYOUTS:
        for kind in ARCH_KINDS:
            base = {"kind": kind, "dtype": "float64", "extras": 1, "state": "some", "pseed": 1, "rf": 3, "bc": 3, "n": 2, "lc": 0, "kd": 1, "mae": 0}
            full = {n: lay for n in ("solution", "objective", "measures", "ev")}
            mk("Archive.add", base, full)
            mk("Archive.add_single", base, full)
            mk("Archive.retrieve", base, {"measures": lay})
            mk("Archive.iter", base, {})
        for em in ("gaussian", "isoline", "goe", "ga", "es", "gae"):
            cfg = {"kind": "grid", "dtype": "float64", "extras": 0, "state": "empty", "pseed": 1, "emitter": em, "init": 1, "mae": 0}
            mk("Emitter.ctor", cfg, {n: lay for n in ("sigma", "x0", "initial_solutions", "bounds")})
            mk("Emitter.ctor", dict(cfg, init=0), {n: lay for n in ("sigma", "x0", "initial_solutions", "bounds")})
        for em in ("gae", "goe"):
            for norm in (0, 1):
                cfg = {"kind": "grid", "dtype": "float64", "extras": 0, "state": "some", "pseed": 1, "emitter": em, "normalize": norm, "mg": 1, "mae": 0}
                mk("Emitter.tell_dqd", cfg, {n: lay for n in ARG_NAMES["Emitter.tell_dqd"]})
        for em in ("es", "gae", "gaussian"):
            cfg = {"kind": "grid", "dtype": "float64", "extras": 1, "state": "some", "pseed": 1, "emitter": em, "spy": 1, "mae": 0}
            mk("Emitter.tell", cfg, {n: lay for n in ARG_NAMES["Emitter.tell"]})
        # one-stage rankers return the caller's own objective / add-feedback array as ranking values: every evolution strategy gets them
        for es in ["cma_es", "sep_cma_es", "openai_es"] + (["pycma_es"] if HAVE_PYCMA else []):
            for rk in ("obj", "imp"):
                for em in ("es", "gae"):
                    mk("Emitter.tell", {"kind": "grid", "dtype": "float64", "extras": 0, "state": "some", "pseed": 1, "emitter": em, "spy": 0, "mae": 0,
                                        "es": es, "ranker": rk, "grad_opt": "adam"}, {n: lay for n in ARG_NAMES["Emitter.tell"]})
                if es != "openai_es":
                    mk("Scheduler.tell", {"kind": "grid", "dtype": "float64", "extras": 0, "state": "some", "pseed": 1, "mode": "batch", "result": 0,
                                          "emitters": ["gaussian", "es"], "rf": 3, "bc": 3, "normalize": 1, "mae": 0, "lc": 0, "es": es, "ranker": rk},
                       {n: lay for n in ARG_NAMES["Scheduler.tell"]})
        for kind in ("grid", "sliding"):
            cfg = {"kind": kind, "dtype": "float64", "extras": 0, "state": "some", "pseed": 1, "mode": "batch", "result": 0,
                   "emitters": ["gaussian", "es"], "rf": 3, "bc": 3, "normalize": 1, "mae": 0}
            mk("Scheduler.tell", cfg, {n: lay for n in ARG_NAMES["Scheduler.tell"]})
            mk("Scheduler.tell", dict(cfg, mode="single"), {n: lay for n in ARG_NAMES["Scheduler.tell"]})
            mk("Scheduler.tell_dqd", cfg, {n: lay for n in ARG_NAMES["Scheduler.tell_dqd"]})
            mk("Bandit.tell", cfg, {n: lay for n in ARG_NAMES["Bandit.tell"]})
        mk("CVT.ctor_centroids", {"dtype": "float64", "kd": 1, "extras": 0}, {"custom_centroids": lay})
        mk("CVT.ctor_centroids", {"dtype": "float32", "kd": 0, "extras": 0}, {"custom_centroids": lay})
        mk("CVT.ctor_samples", {"dtype": "float64", "kd": 1, "extras": 0}, {"samples": lay})
        mk("Grid.ctor", {"dtype": "float64", "kind": "grid", "extras": 0}, {"dims": lay, "ranges": lay})
        mk("Grid.ctor", {"dtype": "float64", "kind": "sliding", "extras": 0}, {"dims": lay, "ranges": lay})
        for spy in (0, 1):
            mk("Store.add", {"dtype": "float64", "state": "some", "pseed": 1, "cap": 6, "n": 2, "spy": spy},
               {n: lay for n in ARG_NAMES["Store.add"]})
        for rt in E.RTYPES:
            mk("Store.retrieve", {"dtype": "float64", "state": "some", "pseed": 1, "cap": 6, "n": 2, "rtype": rt}, {"indices": lay})
        for w in ("Adam", "GradAscent"):
            for k in ("ctor", "reset", "step"):
                for l2 in (0, 1):
                    mk("%s.%s" % (w, k), {"dtype": "float64", "l2": l2}, {ARG_NAMES["%s.%s" % (w, k)][0]: lay})
        mk("Store.from_raw_dict", {"dtype": "float64", "state": "some", "pseed": 1, "cap": 6}, {"occupied": lay, "solution": lay})
    for em in ("gaussian", "isoline", "es", "gae", "goe", "ga"):
        for which in (("ask", "ask_dqd") if em in ("gae", "goe") else ("ask",)):
            for state in ("empty", "some"):
                mk("Emitter.ask", {"kind": "grid", "dtype": "float64", "extras": 0, "state": state, "pseed": 1, "emitter": em, "which": which,
                                   "init": 0, "mae": 0, "es": "cma_es", "grad_opt": "adam"}, {})
    for rt in E.RTYPES:
        mk("Store.data", {"dtype": "float64", "state": "some", "pseed": 1, "cap": 6, "rtype": rt}, {})
    for rt in E.RTYPES:  # every cell occupied in index order: "all of the store" and the internal arrays coincide
        for cap in (1, 6):
            mk("Store.data", {"dtype": "float64", "state": "full", "pseed": 1, "cap": cap, "rtype": rt}, {})
            mk("Store.retrieve", {"dtype": "float64", "state": "full", "pseed": 1, "cap": cap, "n": cap, "rtype": rt}, {"indices": "exact"})
    for kind in ("grid", "cvt"):
        base = {"kind": kind, "dtype": "float64", "extras": 1, "state": "full", "pseed": 2, "n": 3, "lc": 0, "kd": 1, "mae": 0}
        for rt in ("dict", "tuple", "pandas", "single", "pandas_get_field", "pandas_iterelites"):
            mk("Archive.data", dict(base, rtype=rt), {})
        for ep in ("Archive.best_elite", "Archive.sample_elites", "Archive.iter"):
            mk(ep, base, {})
    for ep in ("Store.iter", "Store.as_raw_dict", "Store.occupied"):
        mk(ep, {"dtype": "float32", "state": "dense", "pseed": 2, "cap": 6}, {})
    for kind in ARCH_KINDS:
        base = {"kind": kind, "dtype": "float32", "extras": 1, "state": "dense", "pseed": 2, "rf": 50, "bc": 50, "n": 3, "lc": 1, "kd": 0, "mae": 0}
        for rt in ("dict", "tuple", "pandas", "single", "pandas_get_field", "pandas_iterelites"):
            mk("Archive.data", dict(base, rtype=rt), {})
        for ep in ("Archive.best_elite", "Archive.sample_elites", "Archive.iter"):
            mk(ep, base, {})
        mk("Archive.cqd_score", base, {"target_points": "exact", "penalties": "exact"})
    for which, kind in (("parallel_axes", "grid"), ("parallel_axes", "cvt"), ("grid", "grid"), ("cvt", "cvt"), ("sliding", "sliding"),
                        ("proximity", "proximity")):
        for lay in ("exact", "otherdtype"):
            for sort in ((0, 1) if which == "parallel_axes" else (0,)):
                mk("viz", {"kind": kind, "dtype": "float64", "extras": 0, "state": "some", "pseed": 1, "which": which, "sort": sort,
                           "mae": 0, "rf": 50, "bc": 50, "lc": 0, "kd": 1}, {"df": lay})
    return out


def check(rep, tier, seed, driver):
    from common import CORPUS
    py2v_validate.report(rep)
    rng = random.Random(seed)
    t0 = time.time()
    budget = 40 if tier == "quick" else 400
    n_random = 500 if tier == "quick" else 8000
    n_read = 150 if tier == "quick" else 2500
    rep.rule = ("cases = (public entry point, object kind/dtype/extra fields/state, one of 5 caller layout classes per array argument "
                "[exact-dtype contiguous ndarray | view of a larger array | non-contiguous | other dtype | python list], value seed): a fixed "
                "cross product (every entry point x every layout class) plus random cases; each is executed three times from scratch "
                "(observe / caller overwrites its arrays afterwards / returned arrays overwritten) with follow-up operations. A case is "
                "non-trivial when at least one argument is an ndarray that pyribs could alias without copying (exact / view / noncontig) "
                "or the call returns arrays, and the object is non-empty. Read-path cases: random accepted-write histories, non-trivial "
                "when a cell is overwritten and >= 2 elites are stored." 
                "; plus: AdamOpt with the non-default l2_coeff; get_field / iterelites on frames derived by pandas operations (reversed, sorted, filtered, shuffled); after a write through a returned value everything the object reports is compared, not only data()")
    cases = []
    cdir = os.path.join(CORPUS, "C12")
    if os.path.isdir(cdir):
        for f in sorted(os.listdir(cdir)):
            cases.append(json.load(open(os.path.join(cdir, f))))
    rep.count("corpus_cases", len(cases))
    forced = forced_cases()
    rep.count("forced_cases", len(forced))
    cases += forced
    cases += [gen_case(rng) for _ in range(n_random)]
    found = {}  # kind -> {"case":…, "hits": [...], ...}
    n_done = 0
    for case in cases:
        if time.time() - t0 > budget and n_done >= len(forced):
            rep.notes.append("time budget reached after %d of %d cases" % (n_done, len(cases)))
            break
        n_done += 1
        try:
            ctx, obs, pred, kinds, exc = findings_of(case, driver)
        except Exception as e:  # noqa
            rep.violation("harness could not run a case: %r" % (e,), {"kind": "harness-crash", "case": case, "trace": traceback.format_exc()},
                          False, {"kind": "crash"})
            if len(rep.violations) > 8:
                break
            continue
        rep.count("ep_" + ctx.ep)
        for a in ctx.args:
            rep.count("layout_" + a.layout)
        rep.count("state_" + str(case["cfg"].get("state", "-")))
        rep.count("dtype_" + str(case["cfg"].get("dtype")))
        if exc:
            rep.count("call_raised_" + exc)
        aliasable = any(a.layout in ("exact", "view", "noncontig") for a in ctx.args)
        nontrivial = (aliasable or not ctx.args) and case["cfg"].get("state") != "empty" and not exc
        rep.case({"ep": ctx.ep, "variant": ctx.variant, "cfg": case["cfg"], "layouts": case["layouts"], "vseed": case["vseed"]}, nontrivial,
                 sample=case if nontrivial else None)
        for kind, hits in kinds.items():
            ent = found.setdefault(kind, {"case": case, "ctx_ep": ctx.ep, "hits": hits, "obs": obs, "pred": pred, "combos": set(), "n": 0,
                                          "oracle": False})
            ent["n"] += 1
            if any(src == "oracle" for src, _ in hits) and not ent["oracle"]:
                # prefer a case on which the behavioural oracle confirms the finding
                ent.update({"case": case, "ctx_ep": ctx.ep, "hits": hits, "obs": obs, "pred": pred, "oracle": True})
            for src, f in hits:
                ent["combos"].add((ctx.ep, f.get("arg"), case["layouts"].get(f.get("arg")) if f.get("arg") else None, f["effect"], src))
    # read paths
    for _ in range(n_read):
        if time.time() - t0 > budget + 15:
            break
        try:
            read_paths_case(rng, driver, rep)
        except Exception as e:  # noqa
            rep.violation("read-path comparison crashed: %r" % (e,), {"kind": "harness-crash", "trace": traceback.format_exc()}, False, {"kind": "crash"})
            break
        if len(rep.violations) > 8:
            break
    # report one violation per finding kind, on a shrunk case
    for kind, ent in sorted(found.items(), key=lambda kv: (not kv[0].startswith("unclassified"), kv[0])):
        small = shrink(ent["case"], kind, driver, need_oracle=ent["oracle"])
        try:
            ctx, obs, pred, kinds, exc = findings_of(small, driver)
            hits = kinds.get(kind, ent["hits"])
        except Exception:  # noqa
            ctx, obs, pred, hits, exc = None, ent["obs"], ent["pred"], ent["hits"], None
        orc = [f for src, f in hits if src == "oracle"]
        dis = [f for src, f in hits if src == "model-vs-impl"]
        what = "%s: %s" % (kind, orc[0]["text"] if orc else "alias relation of the implementation differs from the model: %s" % json.dumps(dis[:2], default=str)[:300])
        rep.violation(what, {"kind": "correspondence+oracle", "broken": "alias relation: Model/Alias.v program of %s vs the real code" % ent["ctx_ep"],
                             "case": small, "entry_point": ent["ctx_ep"], "impl_observation": obs, "model_prediction": pred,
                             "model_vs_impl": dis, "oracle": orc, "occurrences": ent["n"],
                             "affected (entry point, argument, layout, effect, source)": sorted(map(list, ent["combos"]), key=str)[:40],
                             "theorems_at_stake": THEOREMS[1:4]},
                      bool(orc), {"kind": kind})
    # common.Report.finish() prints / writes only the first five violations; write and announce the others in the same format
    import common
    os.makedirs(common.REPLAYS, exist_ok=True)
    for i, v in enumerate(rep.violations[5:], 5):
        path = os.path.join(common.REPLAYS, "%s_%s_%d.json" % (rep.prop, rep.tier, i))
        rp = dict(v["replay"])
        rp.update({"property": rep.prop, "what": v["what"], "failing_input_found": v["found"], "seed": rep.seed, "tier": rep.tier, "tags": v["tags"]})
        with open(path, "w") as f:
            json.dump(rp, f, indent=1, default=str)
        print("VIOLATION property=%s replay=%s%s" % (rep.prop, path, "" if v["found"] else " no-failing-input-found"))


def replay(rp, driver):
    case = rp["case"]
    if "readpaths" in case:
        print("read-path replays are re-run by the quick check")
        return 2
    ctx, obs, pred, kinds, exc = findings_of(case, driver)
    print(json.dumps({"entry_point": ctx.ep, "observation": obs, "model": pred, "findings": {k: [f for _, f in v] for k, v in kinds.items()}},
                     indent=1, default=str))
    return 1 if kinds else 0
