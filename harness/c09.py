"""C09 -- seeded runs are reproducible and independent of global random state.

STATIC tie   harness/c09_scan.py inventories every RNG construction / forwarding / use site of ribs/ from the current source
             (python ast, fail-closed), writes coq/Generated/RngInventory.v + coq/Refine/RngInventoryOK.v at import time (i.e.
             before the Coq gate of ./check, as harness/py2v_c18.py does); Coq evaluates [all_entries_seeded inventory] and, when it
             is true, instantiates the frame / interleaving / checkpoint / globals theorems of the stream-ownership model on the inventory.
DYNAMIC tie  whole pipelines (every archive type and CVT centroid method x every emitter class / evolution strategy / ranker x Scheduler
             and BanditScheduler x int and SeedSequence seeds) are run on the real pyribs with a deterministic synthetic evaluation
             function: run A (reference), run B (other global seeds; foreign draws from np.random.* / random.* and reseeds of both
             interleaved at random steps), run C (pickle.dumps/loads of (archive, emitters, scheduler) at a random step; pycma
             excluded), run D (all seeds changed).  Independent oracles, each with a concrete replay:
               reproducible      A == A' (same seeds, same global state)                 -> else fresh entropy is used somewhere
               global-independent A == B bit for bit (ask rows, add feedback, data(), stats, centroids / boundaries, active set)
               undisturbed       np.random.get_state() and random.getstate() unchanged across EVERY pyribs call
               checkpoint        A == C
               seed-sensitive    D differs from A where the component draws (centroids of the random CVT methods, every emitter's rows)
               spawn-distinct    two identically configured ES emitters given the SAME SeedSequence object emit different rows
MODEL tie    the generators reachable from the real objects (generic object-graph walk) are compared, by stream identity
             (SeedSequence entropy + spawn_key) and cursor (bit-generator state after the constructor), with what the extracted
             model Model/Rng.v [build] (runner Model/RunC09.v) says the constructors create -- C09_seed_honoured / C09_opt_ranker_separate /
             C09_shared_seedsequence_distinct are statements about exactly that table; and, for every pyribs call of a tracked run, the set
             of generators whose bit-generator state advanced is compared with the generators the model's footprint of that call
             (sched_ask / sched_ask_dqd / sched_tell / sample_elites / cqd_score, compiled by the extracted model from the observed flags:
             archive empty, active mask, restarted emitters) draws a positive number of variates from."""
import copy
import json
import os
import pickle
import random
import signal
import sys
import time
import traceback
import warnings

import numpy as np

import c09_scan
from common import CORPUS

# the inventory is (re)generated from the current source when this module is imported: harness/main.py imports the property module
# before it runs the Coq gate, so Generated/RngInventory.v and Refine/RngInventoryOK.v are rebuilt and re-checked by every ./check C09
SCAN = c09_scan.generate()

CONFIG = {
    "cone": ["Base/ListUtil.v", "Model/Rng.v", "Model/RngSite.v", "Model/RngSite2.v", "Proofs/RngProofs.v", "Proofs/RngInventoryProofs.v",
             "Generated/RngInventory.v", "Refine/RngInventoryOK.v", "Model/RunC09.v", "Properties/C09.v", "Properties/C09Inventory.v"],
    "extra_property_files": ["Properties/C09Inventory.v", "Refine/RngInventoryOK.v"],
    "trusted": [
        "harness/c09_scan.py: the static RNG inventory scan (python ast over every module of ribs/; fail-closed on what it recognises as "
        "RNG-looking; alias-free use of numpy.random / random is assumed beyond the KAlias rule: dynamic imports, getattr(np, 'random'), "
        "exec and generators smuggled through containers are not followed); its allow-list table of third-party stochastic constructors",
        "Model/Rng.v is a hand-written description of which generators each pyribs constructor creates and which operation draws from "
        "which; tied to the code by (i) the inventory verdict checked by Coq, (ii) the stream-identity / cursor comparison of the extracted "
        "[build] with the generators found in the real objects (generic object-graph walk; reads bit_generator.state / seed_seq of numpy "
        "Generators reachable from the pyribs objects), (iii) the per-call comparison of the generators that advanced with the extracted "
        "footprints, (iv) the differential runs; all sampled, none a proof about the Python",
        "numpy PCG64 / SeedSequence, sklearn k_means, scipy.stats.qmc Sobol / Halton, pycma: external; 'different stream identity => "
        "different numbers' is an observation about them (oracle seed-sensitive), not a theorem",
        "pickle of numpy Generators restores the bit-generator state exactly (observed by oracle checkpoint, not proved)",
    ],
    "level_text": "PARTIAL (structural theorem + checked inventory + differential run). Proved in coq/Properties/C09.v for every bit "
                  "generator, configuration and history of the stream-ownership model: pyribs outputs and owned generator states depend on "
                  "the owned streams only (C09_frame), foreign draws / reseeds / pickle round trips anywhere can be erased "
                  "(C09_interleaving, C09_replay), the global sources end exactly where the user's own draws left them (C09_globals_*), "
                  "run(h1++h2) = run h2 after save/restore (C09_checkpoint), every generator any constructor creates descends from its "
                  "component's seed (C09_seed_honoured), spawned children are pairwise distinct incl. two emitters sharing one SeedSequence "
                  "object (C09_spawn_distinct, C09_opt_ranker_separate, C09_shared_seedsequence_distinct). coq/Properties/C09Inventory.v: an "
                  "inventory on which all_entries_seeded computes to true discharges the ownership hypothesis of all of these for every history "
                  "over its entries, and one on which it computes to false contains an entry whose execution consumes a process-wide source. "
                  "coq/Refine/RngInventoryOK.v (generated on every run from the current source) is the instance for ribs/: Coq evaluates the verdict.",
    "level_note": "Partial by nature. NOT proved: that the Python code performs no draw outside the inventoried sites (the scan is trusted, "
                  "see trusted base), that Model/Rng.v's constructors / footprints describe the code (sampled: stream identity and constructor "
                  "cursor of every reachable generator, and per pyribs call the set of generators that advanced, are compared with the "
                  "extracted model on every generated pipeline; variate COUNTS are not compared -- numpy's ziggurat consumes a variable number "
                  "of words -- and Generator.integers(1, ...) consumes none, so the archive generator is ignored while exactly one elite is stored), bit-identical reproduction itself (oracles on sampled pipelines: every archive type and "
                  "centroid method, every emitter / ES / ranker combination the library accepts, both schedulers, int and SeedSequence seeds), "
                  "and 'different seeds draw different streams' (a statement about PCG64 / k_means / Sobol / Halton: observed). CVTArchive "
                  "accepts only int seeds for kmeans / scrambled_sobol / halton (sklearn and scipy reject SeedSequence); the pickle clause "
                  "excludes the pycma wrapper as the property says. On the unchanged tree the check reports F7 (CVTArchive scrambled_sobol / "
                  "halton ignore the seed) both statically and dynamically; fixes/F7.patch makes it quiet.",
    "technique": "Rocq/Coq proof over an executable Gallina stream-ownership model + ast-derived RNG inventory evaluated in Coq + extracted "
                 "constructor model compared with the real generators + differential whole-pipeline runs",
    "design_ref": "DESIGN.md section 5, C09",
}

SOL_DIM_CHOICES = [3, 4, 5]
MDIM = 2
ES_NAMES = ["cma_es", "sep_cma_es", "lm_ma_es", "openai_es", "pycma_es"]
RANKERS = ["imp", "2imp", "rd", "2rd", "obj", "2obj", "nov"]
CVT_METHODS = ["kmeans", "random", "sobol", "scrambled_sobol", "halton"]
RANDOM_CVT = {"kmeans", "random", "scrambled_sobol", "halton"}

ADD_LOG = []          # add feedback of the pipeline that is currently running (filled by the recording archive subclasses)


# ---------------------------------------------------------------------------------------------------------------
# recording archive subclasses (public API only: subclass + super().add); module level so that pickle can find them
def _rec_classes():
    from ribs.archives import CVTArchive, GridArchive, ProximityArchive, SlidingBoundariesArchive
    g = globals()
    if "RecGrid" in g:
        return
    def mk(base, name):
        def add(self, *a, **k):
            r = base.add(self, *a, **k)
            ADD_LOG.append(r)
            return r
        cls = type(name, (base,), {"add": add, "__module__": __name__})
        cls.__qualname__ = name
        g[name] = cls
    mk(GridArchive, "RecGrid")
    mk(CVTArchive, "RecCVT")
    mk(SlidingBoundariesArchive, "RecSliding")
    mk(ProximityArchive, "RecProximity")


def _has_cma():
    try:
        import cma  # noqa
        return True
    except Exception:  # noqa
        return False


# ---------------------------------------------------------------------------------------------------------------
# building
def mk_seed(spec, seqs):
    """spec: int | {"ss": k} (index into the case's SeedSequence objects, shared by reference)"""
    if isinstance(spec, dict):
        return seqs[spec["ss"]]
    return spec


def build_archive(case):
    _rec_classes()
    a = case["archive"]
    g = globals()
    d = case["sol_dim"]
    if a["kind"] == "grid":
        return g["RecGrid"](solution_dim=d, dims=a["dims"], ranges=[(-1.0, 1.0)] * MDIM, seed=a["seed"], **a.get("kw", {}))
    if a["kind"] == "cvt":
        kw = dict(a.get("kw", {}))
        if a["method"] == "kmeans":
            kw["samples"] = a["samples"]
            if a.get("samples_array"):
                # the documented other form: the caller supplies the sample points (fixed here); the seed still has to reach k-means
                kw["samples"] = np.random.default_rng(4711).uniform(-1.0, 1.0, (int(a["samples"]), MDIM))
        return g["RecCVT"](solution_dim=d, cells=a["cells"], ranges=[(-1.0, 1.0)] * MDIM, seed=a["seed"], centroid_method=a["method"],
                           use_kd_tree=a.get("kd", True), **kw)
    if a["kind"] == "sliding":
        return g["RecSliding"](solution_dim=d, dims=a["dims"], ranges=[(-1.0, 1.0)] * MDIM, seed=a["seed"], remap_frequency=a.get("remap", 7),
                               buffer_capacity=a.get("buffer", 20))
    if a["kind"] == "proximity":
        return g["RecProximity"](solution_dim=d, measure_dim=MDIM, k_neighbors=2, novelty_threshold=a.get("thr", 0.05), seed=a["seed"],
                                 local_competition=a.get("lc", False), initial_capacity=a.get("cap", 8))
    raise ValueError(a["kind"])


def build_emitter(archive, e, case, seqs):
    from ribs.emitters import (EvolutionStrategyEmitter, GaussianEmitter, GeneticAlgorithmEmitter, GradientArborescenceEmitter,
                               GradientOperatorEmitter, IsoLineEmitter)
    d = case["sol_dim"]
    seed = mk_seed(e["seed"], seqs)
    x0 = np.array(e.get("x0", [0.1] * d), dtype=np.float64)
    init = None if e.get("init") is None else np.array(e["init"], dtype=np.float64)
    start = dict(initial_solutions=init) if init is not None else dict(x0=x0)
    bounds = e.get("bounds")
    t = e["type"]
    if t == "gaussian":
        return GaussianEmitter(archive, sigma=e.get("sigma", 0.2), batch_size=e["batch"], bounds=bounds, seed=seed, **start)
    if t == "isoline":
        return IsoLineEmitter(archive, iso_sigma=0.05, line_sigma=0.3, batch_size=e["batch"], bounds=bounds, seed=seed, **start)
    if t == "ga":
        okw = {"sigma": 0.2, "seed": seed} if e["op"] == "gaussian" else {"iso_sigma": 0.05, "line_sigma": 0.3, "seed": seed}
        return GeneticAlgorithmEmitter(archive, operator=e["op"], operator_kwargs=okw, batch_size=e["batch"], bounds=bounds, **start)
    rk_arg = e.get("ranker")
    if e.get("ranker_as_class") and rk_arg is not None:
        # the documented alternative to a ranker name: the class itself (a callable); it must get the emitter's seed just the same
        from ribs.emitters import rankers as _R
        rk_arg = _R._NAME_TO_RANKER_MAP[rk_arg]
    if t == "es":
        return EvolutionStrategyEmitter(archive, x0=x0, sigma0=e.get("sigma", 0.3), ranker=rk_arg, es=e["es"], es_kwargs=e.get("es_kwargs"),
                                        selection_rule=e.get("sel", "filter"), restart_rule=e.get("restart", "no_improvement"), bounds=bounds,
                                        batch_size=e["batch"], seed=seed)
    if t == "gae":
        return GradientArborescenceEmitter(archive, x0=x0, sigma0=e.get("sigma", 0.3), lr=0.05, ranker=rk_arg, es=e["es"],
                                           es_kwargs=e.get("es_kwargs"), grad_opt=e.get("grad_opt", "adam"), restart_rule=e.get("restart", "no_improvement"),
                                           selection_rule=e.get("sel", "filter"), batch_size=e["batch"], seed=seed)
    if t == "gradop":
        return GradientOperatorEmitter(archive, sigma=e.get("sigma", 0.1), sigma_g=0.05, line_sigma=e.get("line_sigma", 0.0),
                                       measure_gradients=e.get("mgrad", False), normalize_grad=e.get("norm", False),
                                       operator_type=e.get("optype", "isotropic"), batch_size=e["batch"], bounds=bounds, seed=seed, **start)
    raise ValueError(t)


def build_scheduler(archive, emitters, case):
    from ribs.schedulers import BanditScheduler, Scheduler
    if case["sched"] == "bandit":
        return BanditScheduler(archive, emitters, case["num_active"], reselect=case.get("reselect", "terminated"))
    return Scheduler(archive, emitters)


def is_dqd(case):
    return any(e["type"] in ("gae", "gradop") for e in case["emitters"])


def evaluate(sols):
    """deterministic synthetic evaluation (pure float64 numpy, no reductions whose order could vary)"""
    x = np.asarray(sols, dtype=np.float64)
    obj = -np.sum((x - 0.3) * (x - 0.3), axis=1)
    meas = 0.5 * x[:, :MDIM] + 0.1 * x[:, 1:MDIM + 1] * x[:, :MDIM]
    return obj, meas


def evaluate_dqd(sols):
    x = np.asarray(sols, dtype=np.float64)
    obj, meas = evaluate(x)
    n, d = x.shape
    jac = np.zeros((n, MDIM + 1, d))
    jac[:, 0, :] = -2.0 * (x - 0.3)
    for j in range(MDIM):
        jac[:, j + 1, j] += 0.5 + 0.1 * x[:, j + 1]
        jac[:, j + 1, j + 1] += 0.1 * x[:, j]
    return obj, meas, jac


# ---------------------------------------------------------------------------------------------------------------
# observation
def enc(a):
    """bit-exact, json-able rendering of an observable"""
    if a is None:
        return None
    if isinstance(a, dict):
        return {str(k): enc(v) for k, v in sorted(a.items(), key=lambda kv: str(kv[0]))}
    if isinstance(a, (list, tuple)):
        return [enc(x) for x in a]
    if isinstance(a, (np.ndarray, np.generic)):
        a = np.asarray(a)
        if a.dtype == object:
            return [enc(x) for x in a.tolist()]
        return {"dtype": str(a.dtype), "shape": list(a.shape), "hex": np.ascontiguousarray(a).tobytes().hex()}
    if isinstance(a, float):
        return {"f": a.hex()}
    if isinstance(a, (int, str, bool)):
        return a
    if hasattr(a, "_asdict"):
        return enc(a._asdict())
    if hasattr(a, "__dataclass_fields__"):
        return enc({k: getattr(a, k) for k in a.__dataclass_fields__})
    return repr(a)


def dec(o):
    if isinstance(o, dict) and "hex" in o and "dtype" in o:
        return np.frombuffer(bytes.fromhex(o["hex"]), dtype=np.dtype(o["dtype"])).reshape(o["shape"])
    return o


def archive_geometry(archive, case):
    a = case["archive"]
    if a["kind"] == "cvt":
        out = {"centroids": archive.centroids}
        if a["method"] == "kmeans":
            out["samples"] = archive.samples
        return out
    if a["kind"] in ("grid", "sliding"):
        return {"boundaries": [np.asarray(b) for b in archive.boundaries]}
    return {}


def archive_contents(archive):
    data = archive.data()
    st = archive.stats
    out = {k: np.asarray(v) for k, v in data.items()}
    out["__stats"] = [int(st.num_elites), float(st.coverage), float(st.qd_score), None if st.obj_max is None else float(st.obj_max),
                      None if st.obj_mean is None else float(st.obj_mean)]
    return out


def emitter_state(emitters):
    out = []
    for em in emitters:
        out.append([getattr(em, "restarts", None), getattr(em, "itrs", None), getattr(em, "batch_size", None)])
    return out


def global_state():
    s = np.random.get_state()
    return (s[0], s[1].tobytes(), s[2], s[3], s[4]), random.getstate()


def global_diff(before, after):
    bad = []
    if before[0] != after[0]:
        bad.append("numpy")
    if before[1] != after[1]:
        bad.append("python")
    return bad


def foreign_action(act):
    """user code between two pyribs calls"""
    k, n = act
    if k == "np_normal":
        np.random.normal(size=n)
    elif k == "np_rand":
        np.random.rand(n)
    elif k == "np_integers":
        np.random.randint(0, 1000, size=n)
    elif k == "np_seed":
        np.random.seed(n)
    elif k == "py_random":
        for _ in range(n):
            random.random()
    elif k == "py_gauss":
        for _ in range(n):
            random.gauss(0, 1)
    elif k == "py_seed":
        random.seed(n)
    else:
        raise ValueError(k)


class Hang(Exception):
    """a pyribs call did not return within CALL_LIMIT seconds (e.g. a bounds-resampling loop that no longer terminates)"""


CALL_LIMIT = 45.0


def _alarm(signum, frame):
    raise Hang("pyribs call did not return within %.0f s" % CALL_LIMIT)


class Pipeline:
    """runs a case step by step; every pyribs call is bracketed by global-state snapshots and a wall-clock guard (the guard is not an
    oracle: a call that hangs in run A makes the case unusable; one that hangs only in run B / C is a divergence from run A)"""

    def __init__(self, case, mode, alt=False, track=False):
        self.case, self.mode = case, mode
        self.track = track        # record, per pyribs call, which reachable generators advanced (footprint tie with Model/Rng.v)
        self.gen_table = None     # [(component, generator)] after the constructors
        self.footprints = []      # (step name, pop sx, [(component, stream identity)] of the generators whose state changed)
        self.trace = []           # (step name, observation)
        self.disturbed = []       # (step index, step name, which)
        self.gens = None
        self.alt = alt
        self.step = 0

    def call(self, name, fn, foreign, pop=None):
        for act in foreign.get(str(self.step), []):
            foreign_action(act)
        before = None
        if self.track and self.gen_table is not None and pop is not None:
            before = [g.bit_generator.state for _, g in self.gen_table]
            n_before = len(self.built[0])
        g0 = global_state()
        old = signal.signal(signal.SIGALRM, _alarm)
        signal.setitimer(signal.ITIMER_REAL, CALL_LIMIT)
        try:
            with warnings.catch_warnings():
                warnings.simplefilter("ignore")
                out = fn()
        finally:
            signal.setitimer(signal.ITIMER_REAL, 0)
            signal.signal(signal.SIGALRM, old)
        bad = global_diff(g0, global_state())
        if bad:
            self.disturbed.append((self.step, name, bad))
        if before is not None:
            changed = [(c, gen_identity(g)) for (c, g), b in zip(self.gen_table, before) if not _same_state(b, g.bit_generator.state)]
            # Generator.integers(1, size=n) consumes nothing: with exactly one elite a sample_elites call leaves the archive generator where it was
            one = n_before == 1 or len(self.built[0]) == 1
            self.footprints.append([name, pop(out) if callable(pop) else pop, changed, one])
        self.step += 1
        return out

    def run(self):
        case = self.case
        if self.alt:
            case = alt_seeds(case)
        gs = case["global_seeds"][1 if self.mode == "B" else 0]
        np.random.seed(gs[0])
        random.seed(gs[1])
        foreign = case.get("foreign", {}) if self.mode == "B" else {}
        ckpt = case.get("checkpoint") if self.mode == "C" else None
        del ADD_LOG[:]
        seqs = [np.random.SeedSequence(ent, spawn_key=tuple(key)) for ent, key in case.get("seqs", [])]
        archive = self.call("archive", lambda: build_archive(case), foreign)
        self.trace.append(("construct archive", enc(archive_geometry(archive, case))))
        emitters = []
        for i, e in enumerate(case["emitters"]):
            em = self.call("emitter %d" % i, lambda e=e: build_emitter(archive, e, case, seqs), foreign)
            emitters.append(em)
        sched = self.call("scheduler", lambda: build_scheduler(archive, emitters, case), foreign)
        self.built = (archive, emitters, sched)
        if self.track:
            ag = reachable_generators([archive])
            self.gen_table = [(0, g) for g in ag]
            for i, em in enumerate(emitters):
                self.gen_table += [(i + 1, g) for g in reachable_generators([em]) if not any(g is h for h in ag)]
        n_em = len(emitters)
        extra = [1 if e.get("es") == "pycma_es" else 0 for e in case["emitters"]]

        def restarts():
            return [getattr(em, "restarts", 0) or 0 for em in emitters]

        def pop_ask(empty):
            return lambda out: [0, empty, [bool(x) for x in sched.active] if hasattr(sched, "active") else [True] * n_em, extra]

        def pop_tell(r0):
            return lambda out: [2, [b > a for a, b in zip(r0, restarts())]]
        dqd = is_dqd(case)
        nsteps_built = self.step

        def maybe_ckpt():
            nonlocal archive, emitters, sched
            if ckpt is not None and self.step == ckpt:
                self.ckpt_trace_index = len(self.trace)
                blob = pickle.dumps((archive, emitters, sched))
                archive, emitters, sched = pickle.loads(blob)

        for it in range(case["iters"]):
            if dqd:
                maybe_ckpt()
                sols = self.call("ask_dqd %d" % it, sched.ask_dqd, foreign, pop=[1, bool(archive.empty)])
                sols = np.array(sols)
                self.trace.append(("ask_dqd %d" % it, enc({"solutions": sols, "sizes": self.sizes(sched)})))
                obj, meas, jac = evaluate_dqd(sols)
                maybe_ckpt()
                n0 = len(ADD_LOG)
                self.call("tell_dqd %d" % it, lambda: sched.tell_dqd(obj, meas, jac), foreign, pop=[3])
                self.trace.append(("tell_dqd %d" % it, enc({"add": ADD_LOG[n0:], "contents": archive_contents(archive), "emitters": emitter_state(emitters)})))
            maybe_ckpt()
            sols = self.call("ask %d" % it, sched.ask, foreign, pop=pop_ask(bool(archive.empty)))
            sols = np.array(sols)
            self.trace.append(("ask %d" % it, enc({"solutions": sols, "sizes": self.sizes(sched), "active": self.active(sched)})))
            obj, meas = evaluate(sols)
            maybe_ckpt()
            n0 = len(ADD_LOG)
            self.call("tell %d" % it, lambda: sched.tell(obj, meas), foreign, pop=pop_tell(restarts()))
            self.trace.append(("tell %d" % it, enc({"add": ADD_LOG[n0:], "contents": archive_contents(archive), "emitters": emitter_state(emitters)})))
            for k, n in case.get("probes", {}).get(str(it), []):
                maybe_ckpt()
                if k == "sample" and not archive.empty:
                    r = self.call("sample_elites %d" % it, lambda n=n: archive.sample_elites(n), foreign, pop=[4, n, False])
                    self.trace.append(("sample_elites %d" % it, enc(r)))
                elif k == "cqd" and case["archive"]["kind"] in ("grid", "cvt", "sliding"):
                    r = self.call("cqd_score %d" % it, lambda n=n: archive.cqd_score(iterations=2, target_points=n, penalties=3, obj_min=-30.0, obj_max=0.0), foreign, pop=[5, 2, n])
                    self.trace.append(("cqd_score %d" % it, enc({"mean": float(r.mean), "scores": np.asarray(r.scores), "targets": np.asarray(r.target_points)})))
        self.final = (archive, emitters, sched)
        self.nsteps = self.step
        self.nsteps_built = nsteps_built
        return self

    @staticmethod
    def sizes(sched):
        # how many rows each emitter contributed: public through the emitters' batch sizes for Scheduler; recorded for attribution only
        try:
            return [int(x) for x in sched._num_emitted]   # attribution aid only, never compared on its own
        except Exception:  # noqa
            return None

    @staticmethod
    def active(sched):
        a = getattr(sched, "active", None)
        return None if a is None else [bool(x) for x in a]


def alt_seeds(case):
    c = copy.deepcopy(case)
    c["archive"]["seed"] = c["archive"]["seed"] + 1
    for i, e in enumerate(c["emitters"]):
        if isinstance(e["seed"], int):
            e["seed"] = e["seed"] + 1000 + i
    c["seqs"] = [[ent + 7, key] for ent, key in c.get("seqs", [])]
    return c


def first_diff(t1, t2):
    for i, (a, b) in enumerate(zip(t1, t2)):
        if a != b:
            return i, a[0], diff_detail(a[1], b[1])
    if len(t1) != len(t2):
        return min(len(t1), len(t2)), "(trace length %d vs %d)" % (len(t1), len(t2)), {}
    return None


def diff_detail(a, b, path=""):
    """first differing leaf of two encoded observations"""
    if isinstance(a, dict) and isinstance(b, dict) and not ("hex" in a and "dtype" in a):
        for k in sorted(set(a) | set(b)):
            if a.get(k) != b.get(k):
                return diff_detail(a.get(k), b.get(k), path + "/" + k)
    if isinstance(a, list) and isinstance(b, list) and len(a) == len(b):
        for i, (x, y) in enumerate(zip(a, b)):
            if x != y:
                return diff_detail(x, y, path + "[%d]" % i)
    da, db = dec(a), dec(b)
    out = {"where": path}
    if isinstance(da, np.ndarray) and isinstance(db, np.ndarray):
        out["a"] = da.tolist() if da.size <= 24 else da.ravel()[:24].tolist()
        out["b"] = db.tolist() if db.size <= 24 else db.ravel()[:24].tolist()
        if da.shape == db.shape and da.ndim >= 1:
            rows = np.where(np.any((da != db).reshape(da.shape[0], -1), axis=1))[0] if da.size else []
            out["rows"] = [int(r) for r in rows][:12]
    else:
        out["a"], out["b"] = da if not isinstance(da, np.ndarray) else da.tolist(), db if not isinstance(db, np.ndarray) else db.tolist()
    return out


def emitter_rows(trace, case, which=("ask", "ask_dqd")):
    """per emitter: the list of row blocks it contributed to every ask / ask_dqd (needs the recorded sizes)"""
    per = [[] for _ in case["emitters"]]
    for name, obs in trace:
        if name.split()[0] in which and obs.get("sizes") is not None:
            sols = dec(obs["solutions"])
            sizes = obs["sizes"]
            act = obs.get("active")
            idx = [i for i in range(len(case["emitters"])) if act is None or act[i]] if len(sizes) != len(case["emitters"]) or act is not None else list(range(len(sizes)))
            pos = 0
            if act is not None:
                for i in range(len(case["emitters"])):
                    if act[i]:
                        per[i].append(sols[pos:pos + sizes[i]].tobytes())
                        pos += sizes[i]
            else:
                for i, n in enumerate(sizes):
                    per[i].append(sols[pos:pos + n].tobytes())
                    pos += n
    return per


def attribute(case, step_name, detail, trace):
    """which component a divergence at `step_name` belongs to"""
    if step_name.startswith("construct archive"):
        return "archive"
    if step_name.split()[0] in ("ask", "ask_dqd") and detail.get("rows"):
        for name, obs in trace:
            if name == step_name and obs.get("sizes") is not None:
                sizes, act = obs["sizes"], obs.get("active")
                pos, r = 0, detail["rows"][0]
                for i, n in enumerate(sizes):
                    if act is not None and not act[i]:
                        continue
                    if pos <= r < pos + n:
                        return "emitter %d (%s)" % (i, emitter_label(case["emitters"][i]))
                    pos += n
    if step_name.split()[0] in ("sample_elites", "cqd_score"):
        return "archive"
    return None


def emitter_label(e):
    if e["type"] in ("es", "gae"):
        return "%s es=%s ranker=%s" % (e["type"], e["es"], e["ranker"])
    if e["type"] == "ga":
        return "ga operator=%s" % e["op"]
    return e["type"]


# ---------------------------------------------------------------------------------------------------------------
# model tie: generators reachable from the real objects vs the extracted constructor model
def reachable_generators(roots):
    """every numpy Generator reachable from the objects, in discovery order (generic graph walk over __dict__ / containers / closures)"""
    seen, out, stack = set(), [], list(roots)[::-1]
    while stack:
        o = stack.pop()
        if id(o) in seen or isinstance(o, (str, bytes, int, float, bool, type(None), np.ndarray, np.generic, type)):
            continue
        seen.add(id(o))
        if isinstance(o, np.random.Generator):
            out.append(o)
            continue
        kids = []
        if isinstance(o, dict):
            kids = list(o.values())
        elif isinstance(o, (list, tuple, set, frozenset)):
            kids = list(o)
        else:
            d = getattr(o, "__dict__", None)
            if isinstance(d, dict):
                kids += list(d.values())
            if hasattr(o, "__closure__") and o.__closure__:
                for c in o.__closure__:
                    try:
                        kids.append(c.cell_contents)
                    except ValueError:
                        pass
            if hasattr(o, "__self__"):
                kids.append(o.__self__)
            mod = type(o).__module__ or ""
            if not (mod.startswith("ribs") or mod == __name__ or mod.startswith("cma")) and not (hasattr(o, "__closure__")):
                kids = []          # do not wander into foreign library objects (k-d trees, numba dispatchers ...)
        stack.extend(kids[::-1])
    return out


def gen_identity(g):
    ss = g.bit_generator.seed_seq
    ent = ss.entropy
    return (int(ent) if isinstance(ent, (int, np.integer)) else None, tuple(int(k) for k in ss.spawn_key))


def model_case_sx(case):
    """sx encoding of Model/Rng.v's [config] for Model/RunC09.v"""
    a = case["archive"]
    if a["kind"] == "grid":
        ak = [0]
    elif a["kind"] == "cvt":
        ak = [1, {"kmeans": 0, "random": 2, "sobol": 3, "scrambled_sobol": 4, "halton": 5}[a["method"]], 0 if a.get("samples_array") else a.get("samples", 0)]      # samples given as an array: nothing is drawn for them
    elif a["kind"] == "sliding":
        ak = [2]
    else:
        ak = [3]
    cells = a.get("cells", 0)

    def sv(s):
        return [1, s["ss"]] if isinstance(s, dict) else [0, s]
    es_code = {"cma_es": 0, "sep_cma_es": 1, "lm_ma_es": 2, "openai_es": 3, "pycma_es": 5}
    rk_code = {"imp": 0, "2imp": 1, "obj": 2, "2obj": 3, "rd": 4, "2rd": 5, "nov": 6, "density": 7}
    ems = []
    for e in case["emitters"]:
        t = e["type"]
        init = e.get("init") is not None
        if t == "gaussian":
            ems.append([0, sv(e["seed"]), e["batch"], case["sol_dim"], init])
        elif t == "isoline":
            ems.append([1, sv(e["seed"]), e["batch"], case["sol_dim"], init])
        elif t == "ga":
            ems.append([2, 0 if e["op"] == "gaussian" else 1, sv(e["seed"]), e["batch"], case["sol_dim"], init])
        elif t == "gradop":
            ems.append([3, sv(e["seed"]), e["batch"], case["sol_dim"], init, e.get("optype") == "isolinedd", bool(e.get("mgrad"))])
        elif t == "es":
            ems.append([4, sv(e["seed"]), es_code[e["es"]], rk_code[e["ranker"]], e["batch"], case["sol_dim"]])
        else:
            ems.append([5, sv(e["seed"]), es_code[e["es"]], rk_code[e["ranker"]], e["batch"]])
    return [[[ent, list(key)] for ent, key in case.get("seqs", [])], [ak, sv(a["seed"]), cells, MDIM], ems]


ROLE = {0: "archive", 1: "emitter", 2: "operator", 3: "opt", 4: "ranker", 5: "third-party"}


def model_tie(case, pipe, driver):
    """compares [build cfg] of the extracted model with the generators found in the freshly built real objects.
    Returns None or a problem dict."""
    out = driver.call("C09", model_case_sx(case))
    if out[0] != 1:
        return {"what": "model build failed", "model": out}
    rows = out[1]       # [component, role, entropy, key, pos]
    archive, emitters, sched = pipe.built_snapshot
    real = []
    for comp, obj in enumerate([archive] + list(emitters)):
        for g in obj:
            real.append((comp, g))
    model = [(r[0], ROLE[r[1]], (r[2], tuple(r[3])), r[4]) for r in rows if ROLE[r[1]] != "third-party"]
    by_comp_m, by_comp_r = {}, {}
    for comp, role, sid, pos in model:
        by_comp_m.setdefault(comp, []).append((sid, pos, role))
    for comp, (ident, state) in real:
        by_comp_r.setdefault(comp, []).append((ident, state))
    for comp in sorted(set(by_comp_m) | set(by_comp_r)):
        m = sorted(by_comp_m.get(comp, []), key=lambda t: (t[0], t[1]))
        r = sorted(by_comp_r.get(comp, []), key=lambda t: t[0])
        if sorted(x[0] for x in m) != sorted(x[0] for x in r):
            return {"what": "stream identities of component %d differ" % comp, "component": comp,
                    "model": [[list(map(str, x[0])), x[2]] for x in m], "implementation": [str(x[0]) for x in r]}
        # cursor: advance a shadow generator with the model's identity by the model's position
        for sid, pos, role in m:
            shadow = np.random.default_rng(np.random.SeedSequence(sid[0], spawn_key=sid[1]))
            if pos > 0:
                if role == "ranker":
                    shadow.standard_normal(pos)
                else:
                    shadow.uniform(size=pos)
            want = shadow.bit_generator.state
            cands = [st for ident, st in r if ident == sid]
            if not any(_same_state(want, st) for st in cands):
                return {"what": "constructor cursor of component %d (%s) differs: model says %d variates drawn" % (comp, role, pos),
                        "component": comp, "role": role, "model_pos": pos}
    return None


def _same_state(a, b):
    return a["state"] == b["state"] and a.get("has_uint32") == b.get("has_uint32") and a.get("uinteger") == b.get("uinteger")


# ---------------------------------------------------------------------------------------------------------------
# oracles
def has_pycma(case):
    return any(e.get("es") == "pycma_es" for e in case["emitters"])


def run_mode(case, mode, alt=False, track=False, keep_partial=False):
    """(pipeline, error).  With keep_partial a run that raises is returned with the trace it produced so far plus a final 'raised' entry,
    so that it can be compared with the reference run like any other (the first divergence is usually earlier than the exception)."""
    p = Pipeline(case, mode, alt, track)
    try:
        return p.run(), None
    except Exception as e:  # noqa
        err = "%s: %s" % (type(e).__name__, str(e)[:300])
        if not keep_partial:
            return None, err
        p.trace.append(("raised (after %d pyribs calls)" % p.step, {"error": err}))
        return p, err


def check_case(case, driver=None, want=None):
    """Runs the oracles on one case.  Returns (problems, info); a problem = dict(oracle, kind, step, detail, component, found)."""
    probs, info = [], {"unsupported": None, "steps": 0, "restarts": 0, "draw_steps": 0}

    def P(oracle, kind, what, **kw):
        d = {"oracle": oracle, "kind": kind, "what": what}
        d.update(kw)
        probs.append(d)

    A, err = run_mode(case, "A")
    if A is None:
        info["unsupported"] = err
        return probs, info
    info["steps"] = A.nsteps
    info["restarts"] = sum((s[0] or 0) for s in (json.loads(json.dumps(A.trace[-1][1])).get("emitters") or []) if s)
    kind_a = case["archive"]["kind"]
    method = case["archive"].get("method")

    def tag_for(comp, default):
        if comp == "archive" and kind_a == "cvt":
            return "cvt-centroid-seed-ignored"
        return default

    # -- O3 undisturbed (on every run that is made)
    def undisturbed(pipe, label):
        if pipe.disturbed and (want is None or want == "undisturbed"):
            st, name, which = pipe.disturbed[0]
            P("undisturbed", "disturbs-global-random-state", "pyribs call '%s' (step %d, run %s) changed the global %s generator state" % (name, st, label, "/".join(which)),
              step=st, step_name=name, which=which, run=label, found=True, component=None)
    undisturbed(A, "A")
    # -- O1 / O2
    B, errb = run_mode(case, "B", keep_partial=True)
    if True:
        undisturbed(B, "B")
        d = first_diff(A.trace, B.trace)
        if d is not None:
            A2, _ = run_mode(case, "A", keep_partial=True)
            d2 = first_diff(A.trace, A2.trace)
            comp = attribute(case, d[1], d[2], A.trace)
            if d2 is not None:
                comp2 = attribute(case, d2[1], d2[2], A.trace)
                if want in (None, "reproducible"):
                    P("reproducible", tag_for(comp2, "seeded-run-not-reproducible"),
                      "two runs with identical seeds AND identical global generator state differ at '%s' %s%s" % (
                          d2[1], d2[2].get("where", ""), " [%s]" % comp2 if comp2 else ""),
                      step=d2[0], step_name=d2[1], detail=d2[2], component=comp2, found=True, method=method if comp2 == "archive" else None)
            elif want in (None, "global-independent"):
                P("global-independent", tag_for(comp, "depends-on-global-random-state"),
                  "same seeds, same evaluations, but other global np.random / random state and interleaved foreign draws: outputs differ at '%s' %s%s" % (
                      d[1], d[2].get("where", ""), " [%s]" % comp if comp else ""),
                  step=d[0], step_name=d[1], detail=d[2], component=comp, found=True, method=method if comp == "archive" else None)
    # -- O4 checkpoint
    if case.get("checkpoint") is not None and not has_pycma(case) and want in (None, "checkpoint", "reproducible"):
        C, errc = run_mode(case, "C", keep_partial=True)
        if True:
            undisturbed(C, "C")
            d = first_diff(A.trace, C.trace)
            if d is not None and d[0] < getattr(C, "ckpt_trace_index", len(C.trace)):
                # differs BEFORE the pickle round trip although seeds and global state are those of run A: not a checkpoint matter
                comp = attribute(case, d[1], d[2], A.trace)
                if not any(p["oracle"] == "reproducible" for p in probs) and want in (None, "reproducible"):
                    P("reproducible", tag_for(comp, "seeded-run-not-reproducible"),
                      "two runs with identical seeds AND identical global generator state differ at '%s' %s%s" % (d[1], d[2].get("where", ""), " [%s]" % comp if comp else ""),
                      step=d[0], step_name=d[1], detail=d[2], component=comp, found=True, method=method if comp == "archive" else None)
            elif d is not None:
                comp = attribute(case, d[1], d[2], A.trace)
                P("checkpoint", "pickle-checkpoint-diverges",
                  "pipeline pickled and restored at step %d continues differently from the uninterrupted run at '%s' %s%s" % (
                      case["checkpoint"], d[1], d[2].get("where", ""), " [%s]" % comp if comp else ""),
                  step=d[0], step_name=d[1], detail=d[2], component=comp, found=True)
    # -- O5 seed-sensitive, O6 spawn-distinct
    if want in (None, "seed-sensitive", "spawn-distinct"):
        D, errd = run_mode(case, "A", alt=True)
        if D is not None:
            if kind_a == "cvt" and method in RANDOM_CVT and A.trace[0] == D.trace[0] and want in (None, "seed-sensitive"):
                P("seed-sensitive", "different-seeds-same-stream", "CVTArchive(centroid_method=%r): seed %d and seed %d give identical centroids" % (
                    method, case["archive"]["seed"], case["archive"]["seed"] + 1), step=0, step_name="construct archive", component="archive", found=True, method=method)
            ra, rd = emitter_rows(A.trace, case), emitter_rows(D.trace, case)
            for i, e in enumerate(case["emitters"]):
                if e.get("draws", True) and ra[i] and ra[i] == rd[i] and any(len(x) for x in ra[i]) and want in (None, "seed-sensitive"):
                    P("seed-sensitive", "different-seeds-same-stream", "emitter %d (%s): every ask of the run returns the same rows under seed %s and under another seed" % (
                        i, emitter_label(e), e["seed"]), step=None, step_name=None, component="emitter %d (%s)" % (i, emitter_label(e)), found=True)
        ra = emitter_rows(A.trace, case)
        for i, j in case.get("shared_pairs", []):
            if ra[i] and ra[i] == ra[j] and any(len(x) for x in ra[i]) and want in (None, "spawn-distinct"):
                P("spawn-distinct", "shared-seedsequence-same-stream", "emitters %d and %d (same configuration, same SeedSequence object) emit identical rows in every ask" % (i, j),
                  step=None, step_name=None, component="emitter %d" % j, found=True)
    return probs, info


def footprint_check(case, driver):
    """per pyribs call of a tracked run: the generators that advanced (by component and stream identity) vs the generators the
    footprint of Model/Rng.v (compiled by the extracted model) draws from.  Returns (problem or None, number of calls compared)."""
    if driver is None:
        return None, 0
    A, err = run_mode(case, "A", track=True)
    if A is None or not A.footprints:
        return None, 0
    out = driver.call("C09", model_case_sx(case) + [[fp[1] for fp in A.footprints]])
    if out[0] != 1:
        return {"what": "model build failed", "model": out}, 0
    sid_of = {(r[0], r[1]): (r[2], tuple(r[3])) for r in out[1]}
    n = 0
    dqd_empty = False
    for (name, pop, changed, one), drawn in zip(A.footprints, out[2]):
        want = sorted({(c, r) for c, r in map(tuple, drawn)})
        if pop[0] == 1:
            dqd_empty = bool(pop[1])
        if pop[0] == 0 and dqd_empty:
            # a GradientOperatorEmitter with initial_solutions whose ask_dqd saw an empty archive returned no parents: its ask draws
            # coefficients for ZERO rows when another emitter's solution made the archive non-empty in between (the model counts
            # batch_size rows there) -- not compared
            skip = {i + 1 for i, e in enumerate(case["emitters"]) if e["type"] == "gradop" and e.get("init") is not None}
            want = [(c, r) for c, r in want if c not in skip]
            changed = [(c, s) for c, s in changed if c not in skip]
        if one and pop[0] != 5:
            want = [(c, r) for c, r in want if (c, r) != (0, 0)]
            changed = [(c, s) for c, s in changed if c != 0]
        if any(c < 0 for c, r in want):
            return {"what": "the model's footprint of '%s' names a generator that does not exist / a global source" % name, "step_name": name, "model": drawn}, n
        want_ids = sorted((c, sid_of[(c, r)]) for c, r in want)
        got_ids = sorted(changed)
        n += 1
        if want_ids != got_ids:
            return {"what": "pyribs call '%s': generators that advanced %s differ from the footprint of the model %s (op %s)" % (
                name, [[c, list(map(str, s))] for c, s in got_ids], [[c, ROLE[r]] for c, r in want], pop),
                "step_name": name, "implementation": [[c, str(s)] for c, s in got_ids], "model": [[c, ROLE[r], str(sid_of[(c, r)])] for c, r in want], "op": pop}, n
    return None, n


def model_check(case, driver):
    """constructor model vs real generators (fresh build, nothing run)"""
    if driver is None:
        return None
    try:
        np.random.seed(1)
        random.seed(1)
        seqs = [np.random.SeedSequence(ent, spawn_key=tuple(key)) for ent, key in case.get("seqs", [])]
        with warnings.catch_warnings():
            warnings.simplefilter("ignore")
            archive = build_archive(case)
            emitters = [build_emitter(archive, e, case, seqs) for e in case["emitters"]]
    except Exception:  # noqa
        return None

    class _P:
        pass
    p = _P()
    p.built_snapshot = ([(gen_identity(g), g.bit_generator.state) for g in reachable_generators([archive])],
                        [[(gen_identity(g), g.bit_generator.state) for g in reachable_generators([em]) if not any(g is h for h in reachable_generators([archive]))]
                         for em in emitters], None)
    return model_tie(case, p, driver)


# ---------------------------------------------------------------------------------------------------------------
# generation
def gen_archive(rng, kind=None, method=None):
    kind = kind or rng.choice(["grid", "cvt", "cvt", "cvt", "sliding", "proximity"])
    seed = rng.randrange(1, 1 << 20)
    if kind == "grid":
        a = {"kind": "grid", "dims": [rng.choice([3, 4, 5]), rng.choice([3, 4])], "seed": seed}
        if rng.random() < 0.3:
            a["kw"] = {"learning_rate": 0.5, "threshold_min": -10.0}
        return a
    if kind == "cvt":
        m = method or rng.choice(CVT_METHODS)
        a = {"kind": "cvt", "method": m, "cells": rng.choice([6, 8, 12]), "seed": seed, "kd": rng.random() < 0.7}
        if m == "kmeans":
            a["samples"] = rng.choice([40, 60, 90])
            a["samples_array"] = rng.random() < 0.5
        return a
    if kind == "sliding":
        return {"kind": "sliding", "dims": [rng.choice([3, 4]), rng.choice([3, 4])], "seed": seed, "remap": rng.choice([5, 7, 11]), "buffer": rng.choice([10, 20])}
    return {"kind": "proximity", "seed": seed, "thr": rng.choice([0.02, 0.05, 0.1]), "lc": rng.random() < 0.5, "cap": rng.choice([4, 8])}


def rankers_for(arch):
    """rankers the library accepts for this archive: nov needs ProximityArchive's novelty feedback, imp / 2imp need the 'value' feedback
    (ProximityArchive only with local_competition), rd / 2rd need archive bounds before the first add (not ProximityArchive)"""
    if arch["kind"] != "proximity":
        return [r for r in RANKERS if r != "nov"]
    return ["nov", "obj", "2obj"] + (["imp", "2imp"] if arch.get("lc") else [])


def gen_emitter(rng, d, arch, t=None, es=None, ranker=None, allow_dqd=True, seqs=None):
    akind = arch["kind"]
    types = ["gaussian", "isoline", "ga", "es", "es", "es"] + (["gae", "gradop"] if allow_dqd else [])
    t = t or rng.choice(types)
    e = {"type": t, "batch": rng.choice([3, 4, 5, 6])}
    if seqs is not None and t in ("es", "gae", "gaussian", "isoline", "gradop") and rng.random() < 0.45:
        e["seed"] = {"ss": rng.randrange(len(seqs))}
    else:
        e["seed"] = rng.randrange(1, 1 << 20)
    e["x0"] = [round(rng.uniform(-0.5, 0.5), 3) for _ in range(d)]
    if t in ("gaussian", "isoline", "ga", "gradop"):
        if rng.random() < 0.25:
            e["init"] = [[round(rng.uniform(-0.5, 0.5), 3) for _ in range(d)] for _ in range(rng.choice([2, 3]))]
        if rng.random() < 0.4:
            e["bounds"] = [(-1.0, 1.0)] * d
    if t == "ga":
        e["op"] = rng.choice(["gaussian", "isoline"])
    if t in ("es", "gae"):
        e["es"] = es or rng.choice(ES_NAMES if _has_cma() else ES_NAMES[:4])
        rk = rankers_for(arch)
        e["ranker"] = ranker if (ranker in rk) else rng.choice(rk)
        e["ranker_as_class"] = rng.random() < 0.3
        if e["es"] == "lm_ma_es":
            e["batch"] = min(e["batch"], d if t == "es" else MDIM + 1)
        if e["es"] == "openai_es":
            e["batch"] = rng.choice([4, 6])
            if rng.random() < 0.5:
                e["es_kwargs"] = {"mirror_sampling": False}
        if e["es"] == "pycma_es":
            e["batch"] = max(e["batch"], 4)
        r = rng.random()
        e["restart"] = "no_improvement" if r < 0.4 else "basic" if r < 0.6 else rng.choice([1, 2, 3])
        e["sel"] = rng.choice(["filter", "mu"])
        if t == "es" and rng.random() < 0.4 and e["es"] != "openai_es":
            e["bounds"] = [(-1.5, 1.5)] * d
        if t == "es" and e["es"] == "openai_es" and e.get("es_kwargs") and rng.random() < 0.5:
            e["bounds"] = [(-1.5, 1.5)] * d
        if t == "gae":
            e["grad_opt"] = rng.choice(["adam", "gradient_ascent"])
    if t == "gradop":
        e["optype"] = rng.choice(["isotropic", "isolinedd"])
        e["mgrad"] = rng.random() < 0.5
        e["norm"] = rng.random() < 0.5
        e["line_sigma"] = 0.2 if e["optype"] == "isolinedd" else 0.0
    return e


def gen_foreign(rng, nsteps):
    f = {}
    for _ in range(rng.randint(2, 6)):
        st = str(rng.randrange(0, nsteps + 1))
        k = rng.choice(["np_normal", "np_rand", "np_integers", "np_seed", "py_random", "py_gauss", "py_seed"])
        f.setdefault(st, []).append([k, rng.randrange(1, 9) if "seed" not in k else rng.randrange(1 << 16)])
    return f


def gen_case(rng, tier, akind=None, method=None, sched=None, et=None, es=None, ranker=None):
    d = rng.choice(SOL_DIM_CHOICES)
    arch = gen_archive(rng, akind, method)
    sched = sched or rng.choice(["scheduler", "scheduler", "bandit"])
    seqs = None
    if rng.random() < 0.6:
        seqs = [[rng.randrange(1, 1 << 30), [rng.randrange(5)] if rng.random() < 0.5 else []] for _ in range(rng.choice([1, 2]))]
    n_em = rng.choice([1, 2, 2, 3]) if sched == "scheduler" else rng.choice([2, 3, 4])
    if arch["kind"] == "cvt" and isinstance(arch["seed"], int) is False:
        arch["seed"] = 5
    ems = []
    for i in range(n_em):
        ems.append(gen_emitter(rng, d, arch, t=et if i == 0 else None, es=es if i == 0 else None, ranker=ranker if i == 0 else None,
                               allow_dqd=(sched == "scheduler"), seqs=seqs))
    shared = []
    if seqs is not None and rng.random() < 0.5:
        # two identically configured ES emitters handed the very same SeedSequence object
        base = gen_emitter(rng, d, arch, t="es", es=rng.choice(ES_NAMES[:4]), allow_dqd=False, seqs=None)
        base["seed"] = {"ss": 0}
        ems += [base, copy.deepcopy(base)]
        shared.append([len(ems) - 2, len(ems) - 1])
    case = {"sol_dim": d, "archive": arch, "emitters": ems, "sched": sched, "iters": rng.randint(3, 5) if tier == "quick" else rng.randint(3, 9),
            "global_seeds": [[rng.randrange(1 << 30), rng.randrange(1 << 30)], [rng.randrange(1 << 30), rng.randrange(1 << 30)]]}
    if seqs is not None:
        case["seqs"] = seqs
    if shared:
        case["shared_pairs"] = shared
    if sched == "bandit":
        case["num_active"] = rng.randint(1, len(ems))
        case["reselect"] = rng.choice(["terminated", "all"])
    per_it = 4 if is_dqd(case) else 2
    nsteps = len(ems) + 2 + per_it * case["iters"]
    case["probes"] = {}
    for it in range(case["iters"]):
        if rng.random() < 0.3:
            case["probes"].setdefault(str(it), []).append(["sample", rng.choice([1, 3])])
        if rng.random() < 0.12 and arch["kind"] in ("grid", "cvt"):
            case["probes"].setdefault(str(it), []).append(["cqd", 4])
    case["foreign"] = gen_foreign(rng, nsteps)
    case["checkpoint"] = rng.randrange(len(ems) + 2, nsteps)
    return case


# ---------------------------------------------------------------------------------------------------------------
# shrinking
def shrink(case, prob, driver, budget=10.0):
    """smaller case on which the same oracle still reports the same kind"""
    t0 = time.time()
    oracle, kind = prob["oracle"], prob["kind"]

    def fails(c):
        if time.time() - t0 > budget:
            return None
        try:
            ps, info = check_case(c, None, want=oracle)
        except Exception:  # noqa
            return None
        ps = [p for p in ps if p["oracle"] == oracle and p["kind"] == kind]
        return ps[0] if ps else None

    best, bp = case, prob
    # fewer iterations
    for n in range(1, case["iters"]):
        c = dict(best, iters=n)
        if c.get("checkpoint") is not None:
            per_it = 4 if is_dqd(c) else 2
            c["checkpoint"] = min(c["checkpoint"], len(c["emitters"]) + 2 + per_it * n - 1)
        p = fails(c)
        if p:
            best, bp = c, p
            break
    # single emitters / dropped emitters
    changed = True
    while changed and len(best["emitters"]) > 1 and time.time() - t0 < budget:
        changed = False
        for i in range(len(best["emitters"])):
            if any(i in pr for pr in best.get("shared_pairs", [])) and oracle == "spawn-distinct":
                continue
            c = copy.deepcopy(best)
            del c["emitters"][i]
            c["shared_pairs"] = [[a - (a > i), b - (b > i)] for a, b in c.get("shared_pairs", []) if i not in (a, b)]
            if c["sched"] == "bandit":
                c["num_active"] = min(c["num_active"], len(c["emitters"]))
            if c.get("checkpoint") is not None:
                c["checkpoint"] = max(len(c["emitters"]) + 2, c["checkpoint"] - 1)
            p = fails(c)
            if p:
                best, bp, changed = c, p, True
                break
    # probes, foreign actions
    for key in ("probes",):
        c = dict(best, **{key: {}})
        p = fails(c)
        if p:
            best, bp = c, p
    if oracle == "global-independent":
        f = best.get("foreign", {})
        for st in list(f):
            c = dict(best, foreign={k: v for k, v in f.items() if k != st})
            p = fails(c)
            if p:
                best, bp, f = c, p, c["foreign"]
    else:
        best = dict(best, foreign={})
    return best, bp


THEOREMS = {
    "reproducible": ["C09_replay", "C09_seed_honoured"],
    "global-independent": ["C09_frame", "C09_interleaving", "C09_replay"],
    "undisturbed": ["C09_globals_undisturbed", "C09_pipeline_globals_untouched"],
    "checkpoint": ["C09_checkpoint", "C09_pipeline_checkpoint"],
    "seed-sensitive": ["C09_seed_honoured (stream identity; that different identities give different numbers is observed)"],
    "spawn-distinct": ["C09_shared_seedsequence_distinct", "C09_spawn_distinct"],
    "model": ["correspondence Model/Rng.v [build] / footprints vs generators of the real objects (C09_seed_honoured, C09_opt_ranker_separate, C09_pyribs_owned)"],
}


def report(rep, case, prob, driver, reported, do_shrink=True):
    key = (prob["oracle"], prob["kind"], (prob.get("component") or "").split(" (")[0] if prob["kind"] != "cvt-centroid-seed-ignored" else prob.get("method"))
    if key in reported:
        return
    reported.add(key)
    small, p = (shrink(case, prob, driver) if do_shrink else (case, prob))
    tags = {"kind": p["kind"], "oracle": p["oracle"]}
    if p.get("method"):
        tags["method"] = p["method"]
    rep.violation("[%s] %s" % (p["oracle"], p["what"][:500]),
                  {"kind": "property", "broken": THEOREMS.get(p["oracle"], []), "oracle": p["oracle"], "case": small, "step": p.get("step"),
                   "step_name": p.get("step_name"), "component": p.get("component"), "detail": p.get("detail"),
                   "replay_hint": "./check replay <this file>  (harness/c09.py: check_case(case))"},
                  bool(p.get("found")), tags)


# ---------------------------------------------------------------------------------------------------------------
def static_report(rep, dynamic_kinds):
    """the verdict of the inventory scan, as checked by Coq in Refine/RngInventoryOK.v"""
    st = SCAN
    rep.extra["inventory"] = {"ok": st["ok"], "verdict": st["verdict"], "entries": len(st["entries"]), "offending": len(st["offending"]),
                              "modules": st["files"], "source_sha256": st["sha"], "written_this_run": st["written"], "repo": st["repo"],
                              "notes": st.get("notes", [])[:10],
                              "kinds": {k: sum(1 for e in st["entries"] if e.get("kind", "use") == k) for k in sorted({e.get("kind", "use") for e in st["entries"]})}}
    if not st["ok"]:
        rep.violation("RNG inventory scan failed on the current source (fail-closed: broken tie): %s" % (st["error"] or "")[:300],
                      {"kind": "translation", "broken": "harness/c09_scan.py -> coq/Generated/RngInventory.v", "error": st["error"]}, False, {"kind": "rng-inventory-scan-failed"})
        return
    # the generated files on disk must be the ones of this scan (they are what the Coq gate compiled)
    try:
        head = open(c09_scan.OUT_INV).read(400)
        if st["sha"][:16] not in head:
            rep.violation("coq/Generated/RngInventory.v on disk is not the inventory of the scanned source", {"kind": "harness", "sha": st["sha"]}, False, {"kind": "build"})
    except OSError as e:
        rep.violation("cannot read the generated inventory: %r" % (e,), {"kind": "harness"}, False, {"kind": "build"})
    groups = {}
    for e in st["offending"]:
        if e["e"] == "site" and e["kind"] == "KThirdParty" and e["scope"].startswith("CVTArchive") and e["callee"].startswith("scipy.stats.qmc."):
            k = ("cvt-centroid-seed-ignored", e["callee"].split(".")[-1])
        elif e["e"] == "use" and e["rkind"] == "RvSampler" and e["scope"].startswith("CVTArchive"):
            k = ("cvt-centroid-seed-ignored", "sampler-use")
        elif e["e"] == "site" and e["kind"] == "KThirdParty" and e["scope"].startswith("CVTArchive"):
            k = ("cvt-centroid-seed-ignored", e["callee"].split(".")[-1])
        elif e["e"] == "site":
            k = ({"KLegacyNp": "legacy-global-numpy-rng", "KPyRandom": "python-global-rng", "KAlias": "rng-alias-unclassified", "KUnknown": "rng-site-unclassified",
                  "KDefaultRng": "unseeded-generator", "KBitGen": "unseeded-generator", "KSeedSequence": "unseeded-generator", "KSpawn": "unseeded-generator",
                  "KThirdParty": "third-party-seed-not-passed", "KForward": "seed-not-forwarded"}.get(e["kind"], "rng-site-unclassified"), e["scope"])
        else:
            k = ({"RvParam": "generator-not-owned", "RvUnknown": "rng-use-unclassified"}.get(e["rkind"], "use-of-unseeded-generator"), e["scope"])
        groups.setdefault(k[0], []).append(e)
    for kind, es in sorted(groups.items()):
        confirmed = kind in dynamic_kinds or (kind != "cvt-centroid-seed-ignored" and bool(dynamic_kinds))
        rep.violation("static RNG inventory: %d site(s) of ribs/ are not seeded from their component's seed (%s): %s" % (
            len(es), kind, "; ".join("%s:%d %s %s" % (e["file"], e["line"], e["scope"], e.get("callee") or (e["recv"] + "." + e["method"])) for e in es[:6])),
            {"kind": "refinement", "broken": ["Refine/RngInventoryOK.v: inventory_all_seeded (Coq proved inventory_all_seeded_refuted instead)",
                                              "hypothesis all_entries_seeded of C09_inventory_frame / _interleaving / _checkpoint / _globals_untouched"],
             "offending_entries": es, "coq_statement": "all_entries_seeded inventory = false; offending_disturb: executing any offending entry consumes a process-wide source",
             "dynamic_confirmation": ("a differential run found a concrete failing pipeline of the same class (see the other replay files of this run)" if confirmed
                                      else "no-failing-input-found by the differential runs of this tier")},
            confirmed, {"kind": kind, "tie": "static"})


def probe_for_static(rep, driver, reported):
    """directed dynamic confirmation of statically offending CVT sites: the smallest pipeline that executes the site"""
    kinds = set()
    methods = set()
    for e in SCAN.get("offending", []):
        if e["scope"].startswith("CVTArchive"):
            methods.update(CVT_METHODS)
    for m in sorted(methods):
        case = {"sol_dim": 3, "archive": {"kind": "cvt", "method": m, "cells": 6, "seed": 11, "kd": True, "samples": 40},
                "emitters": [{"type": "gaussian", "batch": 3, "seed": 5, "x0": [0.1, 0.1, 0.1]}], "sched": "scheduler", "iters": 1,
                "global_seeds": [[1, 2], [3, 4]], "foreign": {"0": [["np_normal", 3]]}, "probes": {}}
        probs, info = check_case(case, driver)
        for p in probs:
            kinds.add(p["kind"])
            report(rep, case, p, driver, reported, do_shrink=False)
    return kinds


def nontrivial(case, info):
    return info["unsupported"] is None and info["steps"] >= len(case["emitters"]) + 2 + 4 and bool(case.get("foreign")) and case.get("checkpoint") is not None


def check(rep, tier, seed, driver):
    t_start = time.time()
    rng = random.Random(seed)
    rep.rule = ("whole pipelines: archive in {Grid, CVT x (kmeans, random, sobol, scrambled_sobol, halton), SlidingBoundaries, Proximity} x 1-5 emitters from "
                "{Gaussian, IsoLine, GeneticAlgorithm(gaussian|isoline), EvolutionStrategy x (cma_es, sep_cma_es, lm_ma_es, openai_es +-mirror, pycma_es) x "
                "(imp, 2imp, rd, 2rd, obj, 2obj, nov), GradientArborescence (same ES x rankers), GradientOperator (isotropic / isolinedd, +-measure gradients)} x "
                "{Scheduler, BanditScheduler} x int / SeedSequence seeds (incl. one SeedSequence object shared by two emitters), 3-9 iterations of "
                "ask(_dqd)/tell(_dqd) with a deterministic evaluation function, sample_elites / cqd_score probes; run A vs run B (other global seeds, 2-6 foreign "
                "np.random.* / random.* draws or reseeds at random steps), vs run C (pickle round trip at a random step, no pycma), vs run D (all seeds "
                "changed); global generator states compared around every pyribs call; constructor generators compared with the extracted model. "
                "A case is non-trivial when it is accepted by the library, has foreign actions, a checkpoint and >= 2 full iterations; distinct by hash of the case")
    reported = set()
    dynamic_kinds = set()
    # ---- corpus first
    cases = []
    cdir = os.path.join(CORPUS, "C09")
    if os.path.isdir(cdir):
        for f in sorted(os.listdir(cdir)):
            if f.endswith(".json"):
                cases.append(("corpus:" + f, json.load(open(os.path.join(cdir, f)))["case"]))
    rep.count("corpus_cases", len(cases))
    # ---- systematic cross product first (every archive variant x both schedulers; every ES x ranker; every emitter class), then random
    variants = [("grid", None), ("sliding", None), ("proximity", None)] + [("cvt", m) for m in CVT_METHODS]
    for ak, m in variants:
        for sc in ("scheduler", "bandit"):
            cases.append(("sys", gen_case(rng, tier, akind=ak, method=m, sched=sc)))
    es_names = ES_NAMES if _has_cma() else ES_NAMES[:4]
    for es in es_names:
        for rk in RANKERS:
            ak = "proximity" if rk == "nov" else rng.choice(["grid", "cvt", "sliding"])
            cases.append(("sys", gen_case(rng, tier, akind=ak, sched="scheduler", et="es", es=es, ranker=rk)))
    for es in es_names:
        cases.append(("sys", gen_case(rng, tier, akind=rng.choice(["grid", "cvt"]), sched="scheduler", et="gae", es=es, ranker=rng.choice(["imp", "2imp", "rd", "2rd"]))))
    for et in ("gaussian", "isoline", "ga", "gradop"):
        for sc in ("scheduler", "bandit"):
            if et == "gradop" and sc == "bandit":
                continue
            cases.append(("sys", gen_case(rng, tier, sched=sc, et=et)))
    n_random = 400 if tier == "quick" else 6000
    cases += [("rnd", gen_case(rng, tier)) for _ in range(n_random)]
    budget = 30.0 if tier == "quick" else 360.0
    n_sys = sum(1 for k, _ in cases if k != "rnd")
    t0 = time.time()
    for ci, (origin, case) in enumerate(cases):
        if time.time() - t0 > budget and ci >= n_sys:
            rep.count("cases_skipped_for_time", len(cases) - ci)
            break
        try:
            with np.errstate(all="ignore"):
                probs, info = check_case(case, driver)
                mt = model_check(case, driver) if info["unsupported"] is None else None
                fp, nfp = (footprint_check(case, driver) if (info["unsupported"] is None and not probs and mt is None) else (None, 0))
        except Exception as e:  # noqa
            probs, info, mt, fp, nfp = [{"oracle": "harness", "kind": "crash", "what": "%r\n%s" % (e, traceback.format_exc()[-1500:]), "found": False}], {
                "unsupported": None, "steps": 0, "restarts": 0}, None, None, 0
        a = case["archive"]
        rep.count("archive_%s" % (a["kind"] if a["kind"] != "cvt" else "cvt_" + a["method"]))
        rep.count("sched_" + case["sched"])
        if info["unsupported"] is not None:
            rep.count("rejected_by_library")
            rep.extra.setdefault("rejected_examples", [])
            if len(rep.extra["rejected_examples"]) < 5:
                rep.extra["rejected_examples"].append(info["unsupported"])
        else:
            for e in case["emitters"]:
                rep.count("emitter_" + e["type"])
                if e["type"] in ("es", "gae"):
                    rep.count("es_" + e["es"])
                    rep.count("ranker_" + e["ranker"])
                rep.count("seed_seedsequence" if isinstance(e["seed"], dict) else "seed_int")
            rep.count("pyribs_calls_bracketed", info["steps"] * 3)
            rep.count("restarts_observed", info["restarts"])
            if case.get("shared_pairs"):
                rep.count("shared_seedsequence_pairs")
            if mt is None:
                rep.count("model_tie_checked")
            rep.count("footprint_calls_compared", nfp)
        nt = nontrivial(case, info)
        rep.case(case, nt, sample=case if nt else None)
        if mt is not None:
            probs.append({"oracle": "model", "kind": "constructor-stream-mismatch", "what": mt["what"], "detail": mt, "found": False,
                          "component": "component %s" % mt.get("component"), "step": None, "step_name": None})
        if fp is not None:
            probs.append({"oracle": "model", "kind": "footprint-mismatch", "what": fp["what"], "detail": fp, "found": False, "component": fp.get("step_name", "").split()[0],
                          "step": None, "step_name": fp.get("step_name")})
        for p in probs:
            dynamic_kinds.add(p["kind"])
            if p["oracle"] == "harness":
                if ("crash",) not in reported:
                    reported.add(("crash",))
                    rep.violation("harness exception on a case: " + p["what"][:300], {"kind": "harness-crash", "case": case, "trace": p["what"]}, False, {"kind": "crash"})
            else:
                report(rep, case, p, driver, reported, do_shrink=(p["oracle"] != "model"))
    wide_seed_check(rep, rng)
    cross_process_check(rep, rng)
    threaded_kmeans_check(rep)
    if SCAN.get("offending"):
        dynamic_kinds |= probe_for_static(rep, driver, reported)
    acc = rep.evaluations - rep.hist.get("rejected_by_library", 0)
    if rep.evaluations and acc < 0.7 * rep.evaluations:
        rep.violation("generator degenerate: the library rejected %d of %d generated pipelines" % (rep.hist.get("rejected_by_library", 0), rep.evaluations),
                      {"kind": "generator", "examples": rep.extra.get("rejected_examples")}, False, {"kind": "generator"})
    static_report(rep, dynamic_kinds)
    # the static finding first (only the first five replays are written out)
    rep.violations.sort(key=lambda v: 0 if v["tags"].get("tie") == "static" else 1)
    selftest = scan_selftest()
    rep.extra["scan_selftest"] = selftest
    if selftest["failed"]:
        rep.violation("the inventory scan misclassifies its own self-test snippets: %s" % selftest["failed"][:3], {"kind": "harness", "selftest": selftest}, False,
                      {"kind": "rng-inventory-scan-failed"})
    rep.extra["harness_wall_s"] = round(time.time() - t_start, 1)


def cross_process_check(rep, rng):
    """the same seeded pipelines in two fresh interpreter processes with DIFFERENT string-hash salts (PYTHONHASHSEED) must give the same
    digests: nothing may depend on hash() of a str, on set iteration order of strings, on id() ..."""
    import subprocess
    sd = str(rng.randrange(1 << 30))
    outs = []
    procs = [(salt, subprocess.Popen([sys.executable, os.path.join(os.path.dirname(os.path.abspath(__file__)), "c09_xproc.py"), sd],
                                     env=dict(os.environ, PYTHONHASHSEED=salt), stdout=subprocess.PIPE, stderr=subprocess.PIPE, text=True))
             for salt in ("0", "12345")]
    for salt, pr in procs:
        try:
            so, se = pr.communicate(timeout=300)
        except subprocess.TimeoutExpired:
            for _, q in procs:
                q.kill()
            rep.count("xproc_timeout")
            return
        line = [l for l in so.splitlines() if l.startswith("XPROC ")]
        if not line:
            rep.violation("the cross-process helper produced no result (PYTHONHASHSEED=%s): %s" % (salt, se[-300:]),
                          {"kind": "harness-crash", "stderr": se[-2000:]}, False, {"kind": "crash"})
            return
        outs.append(json.loads(line[0][6:]))
    for a, b in zip(outs[0], outs[1]):
        rep.count("xproc_pipelines")
        if a["digest"].startswith("error") or b["digest"].startswith("error") or a["case"] != b["case"]:
            rep.count("xproc_not_comparable")      # a run that did not complete (wall-clock guard on a loaded machine) says nothing
            continue
        if a["digest"] != b["digest"]:
            rep.violation("the same seeded pipeline gives different results in two interpreter processes that differ only in PYTHONHASHSEED "
                          "(0 / 12345): archive %s, first emitter %s" % (a["case"]["archive"]["kind"], emitter_label(a["case"]["emitters"][0])),
                          {"kind": "property", "broken": "same seeds and same evaluations reproduce bit-identical results", "case": a["case"],
                           "digests": [a["digest"], b["digest"]], "how": "PYTHONHASHSEED=0 and =12345: harness/c09_xproc.py <seed %s>" % sd}, True,
                          {"kind": "seeded-run-not-reproducible", "across": "processes"})
            return


KMEANS_SNIPPET = """
import numpy as np
from ribs.archives import CVTArchive
def mk():
    return np.array(CVTArchive(solution_dim=2, cells=20, ranges=[(-1, 1)] * 2, samples=20000, seed=42).centroids)
a = [mk() for _ in range(4)]
d = max(float(np.max(np.abs(a[0] - x))) for x in a[1:])
print("KMEANS", "SAME" if all(np.array_equal(a[0], x) for x in a[1:]) else "DIFF", d, a[0][:2].tolist())
"""


def threaded_kmeans_check(rep):
    """every check runs with OMP_NUM_THREADS=1 (./check); users do not.  With the OpenMP runtime left at its default, are two identically
    seeded CVTArchive(centroid_method='kmeans') constructions bit-identical?  (sklearn's Lloyd iteration reduces over threads in a
    nondeterministic order once the samples span several chunks.)"""
    import subprocess
    env = {k: v for k, v in os.environ.items() if k not in ("OMP_NUM_THREADS", "OPENBLAS_NUM_THREADS", "MKL_NUM_THREADS", "NUMBA_NUM_THREADS")}
    try:
        r = subprocess.run([sys.executable, "-c", KMEANS_SNIPPET], env=env, stdout=subprocess.PIPE, stderr=subprocess.PIPE, text=True, timeout=300)
    except subprocess.TimeoutExpired:
        rep.count("threaded_kmeans_timeout")
        return
    line = [l for l in r.stdout.splitlines() if l.startswith("KMEANS ")]
    if not line:
        rep.count("threaded_kmeans_no_result")
        return
    rep.count("threaded_kmeans_" + line[0].split()[1].lower())
    if line[0].split()[1] == "DIFF":
        rep.violation("CVTArchive(centroid_method='kmeans', samples=20000, cells=20, seed=42) built four times in one process with the OpenMP "
                      "runtime at its default thread count: the centroids differ (max abs difference %s) -- same seed, different result"
                      % line[0].split()[2],
                      {"kind": "property", "broken": "every CVTArchive centroid-generation method honours its seed: bit-identical results for the same seed",
                       "how": "python -c <harness/c09.py: KMEANS_SNIPPET> with OMP_NUM_THREADS / OPENBLAS_NUM_THREADS / MKL_NUM_THREADS unset", "observed": line[0]},
                      True, {"kind": "kmeans-threaded-nondeterministic"})


def wide_seed_check(rep, rng):
    """'components given different seeds draw different streams' for seeds that differ only above bit 32 / bit 64 (SeedSequence().entropy,
    time_ns()-style seeds): the random CVT centroid methods and a plain emitter must not fold the seed into fewer bits.  sklearn's k_means
    rejects seeds >= 2**32, so kmeans is left out."""
    from ribs.archives import CVTArchive, GridArchive
    from ribs.emitters import GaussianEmitter
    s0 = rng.randrange(1, 1 << 31)
    seeds = [s0, s0 + (1 << 32), s0 + (1 << 33), s0 + (1 << 64)]
    for method in ("random", "scrambled_sobol", "halton"):
        cents = []
        for sd in seeds:
            rep.count("wide_seed_constructions")
            try:
                a = CVTArchive(solution_dim=2, cells=8, ranges=[(-1.0, 1.0)] * 2, seed=sd, centroid_method=method)
            except Exception as ex:   # a library that rejects wide seeds outright says so; nothing to compare
                rep.count("wide_seed_rejected")
                cents.append(None)
                continue
            cents.append(np.array(a.centroids))
        for i in range(len(seeds)):
            for j in range(i + 1, len(seeds)):
                if cents[i] is not None and cents[j] is not None and np.array_equal(cents[i], cents[j]):
                    rep.violation("CVTArchive(centroid_method=%r): seeds %d and %d give identical centroids" % (method, seeds[i], seeds[j]),
                                  {"kind": "property", "broken": "components given different seeds draw different streams", "method": method,
                                   "seeds": [str(seeds[i]), str(seeds[j])], "centroids": cents[i].tolist()}, True,
                                  {"kind": "different-seeds-same-stream", "component": "archive"})
                    return
    rows = []
    for sd in seeds:
        arch = GridArchive(solution_dim=3, dims=[4, 4], ranges=[(-1.0, 1.0)] * 2)
        rows.append(np.array(GaussianEmitter(arch, sigma=0.3, x0=np.zeros(3), batch_size=4, seed=sd).ask()))
    for i in range(len(seeds)):
        for j in range(i + 1, len(seeds)):
            if np.array_equal(rows[i], rows[j]):
                rep.violation("GaussianEmitter: seeds %d and %d give the same first ask" % (seeds[i], seeds[j]),
                              {"kind": "property", "broken": "components given different seeds draw different streams", "seeds": [str(seeds[i]), str(seeds[j])],
                               "rows": rows[i].tolist()}, True, {"kind": "different-seeds-same-stream", "component": "emitter"})
                return


# ---------------------------------------------------------------------------------------------------------------
SELFTEST = [
    # (name, source of ribs/m.py, expected number of offending entries, expected kinds among the offenders)
    ("seeded default_rng + use", "import numpy as np\nclass A:\n    def __init__(self, seed=None):\n        self._rng = np.random.default_rng(seed)\n    def f(self):\n        return self._rng.normal(size=2)\n", 0, []),
    ("unseeded default_rng", "import numpy as np\nclass A:\n    def __init__(self, seed=None):\n        self._rng = np.random.default_rng()\n    def f(self):\n        return self._rng.normal(size=2)\n", 2, ["KDefaultRng", "use"]),
    ("legacy numpy", "import numpy as np\ndef f():\n    return np.random.normal(size=3)\n", 1, ["KLegacyNp"]),
    ("legacy numpy via from-import", "from numpy.random import normal as n\ndef f():\n    return n(3)\n", 1, ["KLegacyNp"]),
    ("python random", "import random\ndef f():\n    return random.random()\n", 1, ["KPyRandom"]),
    ("alias", "import numpy as np\ndef f():\n    g = np.random.standard_normal\n    return g(3)\n", 1, ["KAlias"]),
    ("np.random.choice in a scheduler", "import numpy as np\nclass S:\n    def ask(self):\n        return np.random.choice(3)\n", 1, ["KLegacyNp"]),
    ("k_means without random_state", "from sklearn.cluster import k_means\nclass A:\n    def __init__(self, seed=None):\n        self.c = k_means([[1.0]], 1, n_init=1)\n", 1, ["KThirdParty"]),
    ("k_means through **dict", "from sklearn.cluster import k_means\nclass A:\n    def __init__(self, seed=None, kw=None):\n        self._kw = {} if kw is None else kw.copy()\n        self._kw.setdefault('random_state', seed)\n        self.c = k_means([[1.0]], 1, **self._kw)\n", 0, []),
    ("Sobol unseeded / deterministic / seeded", "from scipy.stats.qmc import Sobol\nclass A:\n    def __init__(self, seed=None):\n        a = Sobol(d=2, scramble=False)\n        b = Sobol(d=2, scramble=True)\n        c = Sobol(d=2, scramble=True, seed=seed)\n", 1, ["KThirdParty"]),
    ("generator parameter", "def f(rng):\n    return rng.standard_normal(3)\n", 1, ["use"]),
    ("unknown receiver", "class A:\n    def f(self):\n        return self.thing.standard_normal(3)\n", 1, ["use"]),
    ("seed not forwarded", "import numpy as np\nclass B:\n    def __init__(self, seed=None):\n        self._rng = np.random.default_rng(seed)\nclass A:\n    def __init__(self, seed=None):\n        self.b = B()\n", 1, ["KForward"]),
    ("spawned children", "import numpy as np\nclass A:\n    def __init__(self, seed=None):\n        ss = seed if isinstance(seed, np.random.SeedSequence) else np.random.SeedSequence(seed)\n        a, b = ss.spawn(2)\n        self._r1 = np.random.default_rng(a)\n        self._r2 = np.random.default_rng(b)\n    def f(self):\n        return self._r1.random() + self._r2.random()\n", 0, []),
    ("pycma without randn", "import numpy as np\nclass P:\n    def __init__(self, seed=None):\n        self._opts = {}\n        self._opts['seed'] = np.nan\n    def reset(self, x0):\n        import cma\n        self._es = cma.CMAEvolutionStrategy(x0, 1.0, self._opts)\n", 1, ["KThirdParty"]),
    ("reseeding in __setstate__", "import numpy as np\nclass A:\n    def __init__(self, seed=None):\n        self._rng = np.random.default_rng(seed)\n    def __setstate__(self, s):\n        self.__dict__.update(s)\n        self._rng = np.random.default_rng()\n    def f(self):\n        return self._rng.random()\n", 2, ["KDefaultRng", "use"]),
    ("os.urandom", "import os\ndef f():\n    return os.urandom(4)\n", 1, ["KUnknown"]),
    ("wall clock", "import time\nclass A:\n    def f(self):\n        return time.perf_counter() > 3.0\n", 1, ["KUnknown"]),
    ("salted hash", "import numpy as np\nclass A:\n    def __init__(self, seed=None):\n        self._rng = np.random.default_rng(seed)\n        self._key = hash('opt') & 0xFFFFFFFF\n    def f(self):\n        return self._rng.random()\n", 1, ["KUnknown"]),
    ("scipy.stats rvs", "import scipy.stats as st\ndef f():\n    return st.norm.rvs(size=3)\n", 1, ["KUnknown"]),
]


def scan_selftest():
    """the scan is trusted: exercise it on every run against small snippets with a known classification"""
    import shutil
    import tempfile
    failed, n = [], 0
    tmp = tempfile.mkdtemp(prefix="c09scan_", dir="/var/tmp" if os.path.isdir("/var/tmp") else None)
    try:
        os.makedirs(os.path.join(tmp, "ribs"))
        for name, src, n_bad, kinds in SELFTEST:
            with open(os.path.join(tmp, "ribs", "m.py"), "w") as f:
                f.write(src)
            n += 1
            try:
                entries, _, _ = c09_scan.scan(tmp)
            except Exception as e:  # noqa
                failed.append([name, repr(e)])
                continue
            bad = [e for e in entries if not c09_scan.entry_seeded(e)]
            got = sorted(e.get("kind", "use") for e in bad)
            if len(bad) != n_bad or got != sorted(kinds):
                failed.append([name, "expected %d offending %s, got %s" % (n_bad, sorted(kinds), got)])
    finally:
        shutil.rmtree(tmp, ignore_errors=True)
    return {"snippets": n, "failed": failed}


# ---------------------------------------------------------------------------------------------------------------
def replay(rp, driver):
    """./check replay <file>: re-executes the case of a C09 replay against the current tree"""
    if "case" not in rp:
        st = c09_scan.generate(write=False)
        bad = st.get("offending", [])
        print("static replay: %d offending inventory entries on the current tree" % len(bad))
        for e in bad[:10]:
            print("  %s:%d %s %s" % (e["file"], e["line"], e["scope"], e.get("callee") or (e["recv"] + "." + e["method"])))
        return 1 if bad or not st["ok"] else 0
    probs, info = check_case(rp["case"], driver, want=rp.get("oracle"))
    if info["unsupported"] is not None:
        print("replay: the library rejects the case: %s" % info["unsupported"])
        return 2
    for p in probs:
        print("REPRODUCED [%s] %s" % (p["oracle"], p["what"]))
    if not probs:
        print("replay: no oracle fails on the current tree")
    return 1 if probs else 0
