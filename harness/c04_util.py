"""Shared pieces of the C04 / C16 harnesses: candidate-id encoding into every field, spy emitters built on the
public EmitterBase, spy archives (public subclasses recording accepted insertion calls and their feedback)."""
import math
from fractions import Fraction

import numpy as np

SOL_DIM = 3
MEAS_DIM = 2
GRID = 6            # GridArchive dims [GRID, GRID] over [0, GRID]^2
ID_MAX = 4096       # ids are < ID_MAX (64 * 64)
QSCALE = 8192.0     # objective = quality * QSCALE + id
EXTRA_FIELDS = {"tag": ((), np.int64), "vec": ((2,), np.float64)}


def err_code(exc):
    """exception -> code of Model/Store.err (NotImplementedError is a RuntimeError subclass: keep it apart)"""
    if isinstance(exc, NotImplementedError):
        return 7
    for cls, v in ((ValueError, 1), (IndexError, 2), (RuntimeError, 3), (KeyError, 4), (TypeError, 5)):
        if isinstance(exc, cls):
            return v
    return 7


# ----------------------------------------------------------------------------------------------------------
# encoding of a candidate id into each field (every value exactly representable)
def enc_solution(ids):
    ids = np.asarray(ids, dtype=np.float64).reshape(-1)
    return np.stack([ids, ids + 0.5, -ids], axis=1) if len(ids) else np.empty((0, SOL_DIM))


def enc_measures(ids, cells):
    """cells: list of (a, b) integer cell coordinates; the fractional parts carry the id"""
    out = np.empty((len(ids), MEAS_DIM))
    for k, (i, (a, b)) in enumerate(zip(ids, cells)):
        out[k, 0] = a + (i % 64 + 0.5) / 64.0
        out[k, 1] = b + (i // 64 + 0.5) / 64.0
    return out


def enc_objective(ids, quals):
    return np.array([q * QSCALE + i for i, q in zip(ids, quals)], dtype=np.float64)


def enc_tag(ids):
    return np.array(list(ids), dtype=np.int64)


def enc_vec(ids):
    ids = np.asarray(ids, dtype=np.float64).reshape(-1)
    return np.stack([ids, -ids - 1.0], axis=1) if len(ids) else np.empty((0, 2))


def enc_jacobian(ids):
    ids = np.asarray(ids, dtype=np.float64).reshape(-1)
    pat = np.arange((1 + MEAS_DIM) * SOL_DIM, dtype=np.float64).reshape(1 + MEAS_DIM, SOL_DIM) / 16.0
    return ids[:, None, None] + pat[None] if len(ids) else np.empty((0, 1 + MEAS_DIM, SOL_DIM))


def _as_id(x):
    try:
        x = float(x)
    except (TypeError, ValueError):
        return None
    if not math.isfinite(x) or x != int(x):
        return None
    return int(x)


def dec_field(name, arr):
    """array received for a field -> list of ids (an entry that is not a well-formed encoding becomes a string)"""
    if arr is None:
        return None
    a = np.asarray(arr)
    out = []
    for k in range(len(a)):
        r = a[k]
        try:
            if name == "solution":
                i = _as_id(r[0])
                ok = i is not None and r.shape == (SOL_DIM,) and np.array_equal(r, enc_solution([i])[0])
            elif name == "objective":
                # (a fraction below 2^-16 is allowed: with a float32 search archive the told float64 objectives carry 2^-30, see c04.tell_payload)
                rv = float(r)
                v = _as_id(math.floor(rv)) if math.isfinite(rv) and rv - math.floor(rv) < 2.0 ** -16 else None
                i = None if v is None else int(v % QSCALE)
                ok = i is not None
            elif name == "measures":
                f0, f1 = (r[0] % 1.0) * 64 - 0.5, (r[1] % 1.0) * 64 - 0.5
                i0, i1 = _as_id(f0), _as_id(f1)
                i = None if i0 is None or i1 is None else i0 + 64 * i1
                ok = i is not None and r.shape == (MEAS_DIM,)
            elif name == "tag":
                i = _as_id(r)
                ok = i is not None
            elif name == "vec":
                i = _as_id(r[0])
                ok = i is not None and np.array_equal(r, enc_vec([i])[0])
            elif name == "jacobian":
                i = _as_id(r[0, 0])
                ok = i is not None and r.shape == (1 + MEAS_DIM, SOL_DIM) and np.array_equal(r, enc_jacobian([i])[0])
            else:
                i, ok = None, False
        except Exception:  # noqa
            i, ok = None, False
        out.append(i if ok else "garbage:%s" % (np.array2string(np.asarray(r), threshold=8),))
    return out


def fval(x):
    """a float of add_info as an opaque sx payload"""
    x = float(x)
    if math.isnan(x):
        return [0, 0]
    if math.isinf(x):
        return [1 if x > 0 else -1, 0]
    f = Fraction(x)
    return [f.numerator, f.denominator]


def info_rows(add_info, n=None):
    """dict of add_info arrays -> one row per solution: [status, value..] with the other keys in sorted order.
    An empty dict (the `single`-mode quirk for an empty batch) has no rows."""
    if not add_info:
        return []
    keys = ["status"] + sorted(k for k in add_info if k != "status")
    if "status" not in add_info:
        return ["no-status-key"]
    m = len(np.asarray(add_info["status"]).reshape(-1)) if np.ndim(add_info["status"]) else 1
    rows = []
    for k in range(m):
        row = []
        for key in keys:
            v = np.asarray(add_info[key]).reshape(-1)[k] if np.ndim(add_info[key]) else add_info[key]
            row.append(int(v) if key == "status" else fval(v))
        rows.append(row)
    return rows


def col(ids):
    """column in the wire format: [] = None, [[ids]] = array"""
    return [] if ids is None else [list(ids)]


# ----------------------------------------------------------------------------------------------------------
def make_spy_emitter_class():
    from ribs.emitters import EmitterBase

    class SpyEmitter(EmitterBase):
        """Scripted emitter: returns the rows the harness planned, records every argument it is handed."""

        def __init__(self, archive, kind="dqd", restarts=None):
            EmitterBase.__init__(self, archive, solution_dim=SOL_DIM, bounds=None)
            self.kind = kind                # "dqd": ask_dqd scripted too; "plain": inherits EmitterBase.ask_dqd (empty)
            self.log = []                   # events in the wire format of Model/RunC04.v
            self.script = None              # ids to return from the next ask / ask_dqd
            self.field_order = ()           # extra field names in the order the harness passes them
            if restarts is not None:
                self.restarts = restarts    # only spies that model restarting emitters have the attribute

        def _emit(self, dqd):
            ids = list(self.script) if self.script is not None else []
            self.script = None
            self.log.append([0, int(dqd), ids])
            return enc_solution(ids)

        def ask(self):
            return self._emit(False)

        def ask_dqd(self):
            if self.kind == "plain":
                self.script = None
                self.log.append([0, 1, []])
                return EmitterBase.ask_dqd(self)
            return self._emit(True)

        def _told(self, dqd, solution, objective, measures, add_info, jacobian, fields):
            known = [f for f in self.field_order if f in fields] + sorted(f for f in fields if f not in self.field_order)
            data = [col(dec_field("objective", objective)), col(dec_field("measures", measures))]
            data += [col(dec_field(f, fields[f])) for f in known]
            data.append(col(dec_field("solution", solution)))
            jac = [] if jacobian is None else [dec_field("jacobian", jacobian)]
            self.log.append([1, int(dqd), [data, jac, info_rows(add_info)]])

        def tell(self, solution, objective, measures, add_info, **fields):
            self._told(False, solution, objective, measures, add_info, None, fields)

        def tell_dqd(self, solution, objective, measures, jacobian, add_info, **fields):
            self._told(True, solution, objective, measures, add_info, jacobian, fields)

    return SpyEmitter


def make_spy_archive(kind, extra, seed=0, dtype=None):
    """kind: grid | grid_mae | proximity | proximity_lc.  Returns a public subclass instance that records the insertion
    calls it ACCEPTED (decoded ids per field) and the feedback it returned."""
    from ribs.archives import GridArchive, ProximityArchive
    base = GridArchive if kind.startswith("grid") else ProximityArchive

    class SpyArchive(base):
        def _spy_init(self):
            self.calls = []      # wire format: [0, [cols]] | [1, [opt id per col]]
            self.feedback = []   # per accepted call: list of feedback rows
            self.field_order = ()
            self._depth = 0
            self.raw_objectives = []   # per accepted outermost call: the objective values as received (float64 copy; None when objective is None)

        def _cols(self, solution, objective, measures, fields, single):
            names = ["objective", "measures"] + [f for f in self.field_order if f in fields] + \
                    sorted(f for f in fields if f not in self.field_order) + ["solution"]
            vals = dict(fields, solution=solution, objective=objective, measures=measures)
            out = []
            for nme in names:
                v = vals[nme]
                if single:
                    out.append([] if v is None else [dec_field(nme, np.asarray(v)[None])[0]])
                else:
                    out.append(col(dec_field(nme, v)))
            return out

        def add(self, solution, objective, measures, **fields):
            self._depth += 1
            try:
                ret = base.add(self, solution, objective, measures, **fields)
            finally:
                self._depth -= 1
            if self._depth == 0:
                self.calls.append([0, self._cols(solution, objective, measures, fields, False)])
                self.feedback.append(info_rows(ret))
                self.raw_objectives.append(None if objective is None else [float(x) for x in np.asarray(objective, dtype=np.float64).reshape(-1)])
            return ret

        def add_single(self, solution, objective, measures, **fields):
            self._depth += 1
            try:
                ret = base.add_single(self, solution, objective, measures, **fields)
            finally:
                self._depth -= 1
            if self._depth == 0:
                self.calls.append([1, self._cols(solution, objective, measures, fields, True)])
                self.feedback.append(info_rows(ret))
                self.raw_objectives.append(None if objective is None else [float(np.asarray(objective, dtype=np.float64))])
            return ret

    ef = {k: EXTRA_FIELDS[k] for k in extra}
    if dtype is not None:
        _ctor = SpyArchive

        def SpyArchive(**kw):   # noqa: N802  (same call sites below, one more argument)
            return _ctor(dtype=dtype, **kw)
    if kind == "grid":
        a = SpyArchive(solution_dim=SOL_DIM, dims=[GRID, GRID], ranges=[(0, GRID), (0, GRID)], extra_fields=ef)
    elif kind == "grid_mae":
        a = SpyArchive(solution_dim=SOL_DIM, dims=[GRID, GRID], ranges=[(0, GRID), (0, GRID)], extra_fields=ef,
                       learning_rate=0.5, threshold_min=-1e6)
    elif kind == "grid_reject":   # threshold_min far above every objective: nothing is ever inserted
        a = SpyArchive(solution_dim=SOL_DIM, dims=[GRID, GRID], ranges=[(0, GRID), (0, GRID)], extra_fields=ef,
                       learning_rate=0.5, threshold_min=1e12)
    elif kind == "proximity":
        a = SpyArchive(solution_dim=SOL_DIM, measure_dim=MEAS_DIM, k_neighbors=2, novelty_threshold=0.7, extra_fields=ef,
                       initial_capacity=4)
    elif kind == "proximity_lc":
        a = SpyArchive(solution_dim=SOL_DIM, measure_dim=MEAS_DIM, k_neighbors=2, novelty_threshold=0.7, extra_fields=ef,
                       initial_capacity=4, local_competition=True)
    else:
        raise ValueError(kind)
    a._spy_init()
    return a


def archive_contents(a):
    """canonical contents of a real archive: sorted list of (decoded ids per field, objective, threshold)"""
    d = a.data()
    n = len(d["index"])
    rows = []
    for k in range(n):
        ids = {f: dec_field(f, d[f][k:k + 1])[0] for f in ("solution", "measures") + tuple(x for x in EXTRA_FIELDS if x in d)}
        rows.append([int(d["index"][k]), sorted(ids.items()), fval(d["objective"][k]), fval(d["threshold"][k])])
    return sorted(rows, key=repr)
