"""C15 correspondence: SlidingBoundariesArchive (buffer, remap, boundaries, re-insertion) vs Model/Sliding.v,
plus an independent oracle stating the clauses of C15 directly on the implementation's outputs."""
import random
import py2v_sliding
from fractions import Fraction

import numpy as np

import arch_util as au
from common import err_code

CONFIG = {
    "source_ties": "Since round 8 also tied statically: harness/py2v_sliding.py re-reads SolutionBuffer / _remap / add_single / add on every run; Refine/SlidingRefine.v proves the translated sample index, remap trigger and buffer-full test equal to Model/Sliding.v's for all arguments.",
    "cone": ["Base/ListUtil.v", "Base/QUtil.v", "Base/FirstArgmax.v", "Base/MixedRadix.v", "Model/Store.v", "Proofs/StoreProofs.v",
             "Model/Archive.v", "Proofs/ArchiveProofs.v", "Proofs/C01Proofs.v", "Proofs/C02Proofs.v", "Proofs/C07Proofs.v",
             "Model/Sliding.v", "Proofs/SlidingProofs.v", "Model/Grid.v", "Model/SlidingIndex.v", "Proofs/SlidingBridge.v",
             "Properties/C15.v", "Model/SlidingFacts.v", "Generated/SlidingGen.v", "Refine/SlidingRefine.v"],
    "extra_property_files": ["Refine/SlidingRefine.v"],
    "trusted": ["harness/py2v_sliding.py: fail-closed reader of SolutionBuffer / _remap / add_single / add into Generated/SlidingGen.v on every run; "
                "Refine/SlidingRefine.v proves the translated index / trigger / full tests equal to Model/Sliding.v's for all arguments and compares the "
                "statement-level facts",
                "Model/Sliding.v is a hand-written model of _sliding_boundaries_archive.py tied by the correspondence run (sampled): whole "
                "histories through several remaps, compared after every operation on feedback, data() incl. measures, boundaries, bounds, "
                "statistics and best elite",
                "sortedcontainers.SortedList is modelled as the sorted multiset of the buffered coordinates (not its add/remove code)",
                "floating point: index_of computes m + epsilon and upper - epsilon in floats; the generated measures lie on a dyadic lattice "
                "(multiples of 1/8, |m| <= 7) on which those two roundings cannot change any comparison, so the exact model decides the same "
                "cells; objectives are dyadic so statistics are exact"],
    "level_text": "Theorems over Model/Sliding.v for every history of add/add_single/clear, every dims/frequency/capacity: C15_between_remaps "
                  "(a non-remapping insertion is ArchiveBase.add_single with the cell of the current boundaries), C15_boundaries (after a remap "
                  "each dimension's boundaries are the order statistics sorted[j*n/d] of the buffered coordinates, last = max, sorted, bounds = "
                  "first/last), C15_buffer (buffer = the most recent min(capacity,total) insertions), C15_contents (each cell holds the first "
                  "arg-max of old elites ++ buffer routed there by the NEW geometry, complete payload), C15_in_own_cell (invariant of every "
                  "history: each stored elite lies in the cell its measures map to under the current geometry), C15_nothing_lost, and "
                  "C15_stale_refuted (the pre-fix order of updates violates in-own-cell on a 4-insertion witness).",
    "level_note": "Trusted: Coq kernel; extraction + driver; model tied by sampling; harness. No axioms.",
    "technique": "Rocq/Coq invariant + refinement proof (remap = fresh elitist run under the new geometry) + model-vs-implementation correspondence",
    "design_ref": "DESIGN.md section 5, C15",
}

EPS = 1e-6


def gen_spec_index_arith(rng):
    """order-statistic index arithmetic: buffer sizes that are multiples of dims (j*size/dims is an exact integer for every j, where
    a float evaluation such as (j/dims)*size can land just below it), remaps exactly when the buffer holds such a size"""
    d = rng.choice([3, 5, 6, 7, 9, 10, 10, 11, 11, 12, 13])
    m = rng.choice([1, 2, 3, 5, 7, 9, 10])
    lo = rng.choice([-4.0, 0.0, 0.5])
    return {"kind": "sliding", "dtype": rng.choice(["f", "d"]), "sol_dim": 1, "extras": [], "lr": None, "tmin": None, "offset": 0.0,
            "dims": [d], "ranges": [[lo, lo + d * 0.5]], "remap_frequency": rng.choice([d, d * m]), "buffer_capacity": d * m,
            "seed": rng.randrange(1 << 30), "index_arith": True}


def gen_ops_index_arith(rng, spec):
    d = spec["dims"][0]
    total = spec["buffer_capacity"] + rng.choice([0, d, 2 * d])
    ops, nid = [], 1
    while total > 0:
        n = min(total, rng.choice([d, d, 2 * d, spec["buffer_capacity"]]))
        cands = []
        for _ in range(n):
            cands.append([nid, rng.randrange(-64, 65) / 8.0, [rng.randrange(-56, 57) / 8.0]])
            nid += 1
        ops.append(["add", cands, "nd"])
        total -= n
    return ops


def gen_spec(rng, tier, allow_scale=False):
    nd = rng.choice([1, 1, 2, 2, 3])
    dims = [rng.choice([1, 2, 3, 4, 5]) for _ in range(nd)]
    while int(np.prod(dims)) > 40:
        dims[rng.randrange(nd)] = 2
    ranges = []
    for d in dims:
        lo = rng.choice([-4.0, -1.0, 0.0, 0.5, 2.0])
        w = rng.choice([0.25, 0.5, 1.0, 2.0])
        ranges.append([lo, lo + d * w])          # np.linspace(lo, hi, d+1) is exact
    # some archives live at a large scale (measures in the thousands), where the archive's epsilon is far below one float32 ulp
    mscale = rng.choice([1.0, 1.0, 1.0, 1024.0]) if allow_scale else 1.0
    odtype = "f" if (allow_scale and rng.random() < 0.25) else None      # dict dtype: float32 objectives next to float64 measures
    ranges = [[a * mscale, b * mscale] for a, b in ranges]
    freq = rng.choice([1, 2, 3, 4, 5, 7, 9])
    cap = rng.choice([max(1, freq - 2), freq, freq + 3, 1000, 2, 1])
    spec = {"kind": "sliding", "dtype": rng.choice(["f", "d"]), "sol_dim": rng.randint(1, 3), "extras": rng.choice(au.EXTRA_LAYOUTS),
            "lr": None, "tmin": None, "offset": rng.choice([0.0, -2.0, 1.5]), "dims": dims, "ranges": ranges,
            "remap_frequency": freq, "buffer_capacity": cap, "seed": rng.randrange(1 << 30), "mscale": mscale, "odtype": odtype}
    if rng.random() < 0.35:
        spec["relay"] = {"how": rng.choice(["deepcopy", "pickle", "fork-deepcopy", "fork-pickle"]), "every": rng.choice([1, 2, 3, 5])}     # see arch_util.relay
    if rng.random() < 0.3:
        spec["reuse"] = rng.randrange(1, 1 << 30)      # see arch_util.reuse_buffers
    return spec


def gen_ops(rng, spec, nops, force_sliver=False):
    nd = len(spec["dims"])
    centre = [rng.randrange(-16, 17) / 8.0 for _ in range(nd)]
    drift = [rng.choice([-0.25, 0.0, 0.125, 0.5]) for _ in range(nd)]
    pool, seen_obj, ops = [], [], []
    nid = [1]
    # "sliver" histories (float64 only): few base points, every measure = base + k * 2^-21 (|k| <= 3, i.e. below the archive's
    # epsilon 1e-6 but far above rounding), so that consecutive remaps move boundaries by less than epsilon and elites sit in
    # the slivers between old and new boundaries
    sliver = spec["dtype"] == "d" and (force_sliver or rng.random() < 0.25)
    bases = [[rng.randrange(-16, 17) / 8.0 for _ in range(rng.choice([1, 2, 3]))] for _ in range(nd)]

    msc = spec.get("mscale", 1.0)

    def measures():
        if sliver:
            return [rng.choice(bases[i]) * msc + rng.randrange(-3, 4) * 2.0 ** -21 for i in range(nd)]
        if pool and rng.random() < 0.3:
            return list(rng.choice(pool))
        m = []
        for i in range(nd):
            v = centre[i] + rng.randrange(-16, 17) / 8.0
            if rng.random() < 0.1:
                v = rng.choice([-7.0, 7.0, spec["ranges"][i][0], spec["ranges"][i][1]])
            m.append(max(-7.0, min(7.0, round(v * 8) / 8.0)) * msc if v not in (spec["ranges"][i][0], spec["ranges"][i][1]) else v)
            if spec.get("odtype") and spec["dtype"] == "d":
                m[-1] += rng.randrange(1, 1000) * 2.0 ** -40      # float64 measures that are not float32 values
        pool.append(m)
        return m

    def cand():
        i = nid[0]
        nid[0] += 1
        o = rng.choice(seen_obj) if seen_obj and rng.random() < 0.3 else rng.randrange(-64, 65) / 8.0
        seen_obj.append(o)
        return [i, o, measures()]
    for _ in range(nops):
        r = rng.random()
        if r < 0.06:
            ops.append(["clear"])
        elif r < 0.45:
            ops.append(["add_single", cand(), rng.choice(["nd", "list", "wide"])])
        else:
            n = rng.choice([0, 1, 2, 3, 5, 8])
            ops.append(["add", [cand() for _ in range(n)], rng.choice(["nd", "list", "f64", "wide"]) if n else "nd"])
        for i in range(nd):
            centre[i] = max(-5.0, min(5.0, centre[i] + drift[i]))
    return ops


def observe(archive, spec, table):
    o = au.observe(archive, spec, table)
    d = archive.data("measures") if len(archive) else np.zeros((0, len(spec["dims"])))
    o["measures"] = [[au.F(x) for x in row] for row in d]
    o["bnd"] = [[au.F(x) for x in b] for b in archive.boundaries]
    o["lo"] = [au.F(x) for x in archive.lower_bounds]
    o["hi"] = [au.F(x) for x in archive.upper_bounds]
    o["bounds_dtype"] = [archive.lower_bounds.dtype.name, archive.upper_bounds.dtype.name]
    idx = archive.index_of(archive.data("measures")) if len(archive) else []
    o["own"] = [int(x) for x in idx]
    return o


def run_impl(spec, ops):
    archive = au.make_archive(spec)
    table = {}
    trace = []
    for step, op in enumerate(ops):
        archive = au.relay(archive, spec, step)      # a deep copy / pickle round trip continues exactly like the original
        ent = {"op": op[0]}
        try:
            if op[0] == "add":
                for c in op[1]:
                    table[c[0]] = c
                info = archive.add(**au.batch_arrays(spec, op[1], op[2]))
                if not op[1] and not info:
                    info = {"status": [], "value": []}
                ent["fb"] = [[int(s), au.F(v)] for s, v in zip(info["status"], info["value"])]
            elif op[0] == "add_single":
                table[op[1][0]] = op[1]
                info = archive.add_single(**au.single_args(spec, op[1], op[2]))
                ent["fb"] = [[int(info["status"]), au.F(info["value"])]]
            else:
                archive.clear()
                ent["fb"] = []
        except Exception as e:  # noqa
            ent["error"] = [err_code(e), repr(e)]
        ent["obs"] = observe(archive, spec, table)
        trace.append(ent)
    return trace, archive, table


def model_run(driver, spec, ops, stale=False):
    dtype = au.DT[spec["dtype"]]
    cfg = [spec["dims"], au.F(dtype(EPS)), spec["remap_frequency"], spec["buffer_capacity"], au.F(dtype(spec["offset"])),
           [au.F(dtype(r[0])) for r in spec["ranges"]], [au.F(dtype(r[1])) for r in spec["ranges"]], stale]
    mops = []

    def ment(c):
        return [[au.F(dtype(x)) for x in c[2]], au.F(dtype(c[1])), c[0]]
    for op in ops:
        if op[0] == "add":
            mops.append([0, [ment(c) for c in op[1]]])
        elif op[0] == "add_single":
            mops.append([1, ment(op[1])])
        else:
            mops.append([2])
        mops.append([3])
    out = driver.call("C15", [cfg, mops])
    res = []
    for k in range(0, len(out), 2):
        fb, ob = out[k], out[k + 1]
        if fb and isinstance(fb[0], int):
            fb = [fb]
        rows = []
        for i, r in ob[0]:
            r = r[0]
            rows.append([i, r[2], au.uq(r[0]), au.uq(r[1]), [au.uq(x) for x in r[3]]])
        g = ob[1]
        st = ob[2]
        stats = {"num": st[0], "cov": au.uq(st[1]), "qd": au.uq(st[2]), "norm": au.uq(st[3]), "max": au.uq(st[4][0]) if st[4] else None,
                 "mean": au.uq(st[5][0]) if st[5] else None}
        best = None
        if st[6]:
            b = st[6][0]
            best = [b[0], b[3], au.uq(b[1]), au.uq(b[2])]
        res.append({"fb": [[f[0], au.uq(f[1])] for f in fb], "rows": rows, "bnd": [[au.uq(x) for x in b] for b in g[0]],
                    "lo": [au.uq(x) for x in g[1]], "hi": [au.uq(x) for x in g[2]], "stats": stats, "best": best,
                    "buf": ob[3], "total": ob[4]})
    return res


def compare(driver, spec, ops):
    if spec.get("mscale", 1.0) > 1.0 and spec["dtype"] == "f":
        # at this scale the archive's epsilon (1e-6) is below one float32 ulp: m + eps == m in the implementation, so the exact-epsilon
        # model does not describe it; these cases are judged by the oracle alone (which evaluates index_of in the archive's dtype)
        return None
    trace, archive, table = run_impl(spec, ops)
    mres = model_run(driver, spec, ops)
    dtype = au.DT[spec.get("odtype") or spec["dtype"]]     # feedback values and statistics are computed in the OBJECTIVE's dtype
    for step, (ent, m) in enumerate(zip(trace, mres)):
        if "error" in ent:
            return {"step": step, "what": "valid call raised", "impl": ent["error"]}
        o = ent["obs"]
        if [f[0] for f in ent["fb"]] != [f[0] for f in m["fb"]]:
            return {"step": step, "what": "status", "model": [f[0] for f in m["fb"]], "impl": [f[0] for f in ent["fb"]]}
        for j, (fi, fm) in enumerate(zip(ent["fb"], m["fb"])):
            if au.F(au.fl(fm[1], dtype)) != fi[1]:
                return {"step": step, "what": "value[%d]" % j, "model": float(fm[1]), "impl": float(fi[1])}
        if o["bnd"] != m["bnd"]:
            return {"step": step, "what": "boundaries", "model": [[float(x) for x in b] for b in m["bnd"]], "impl": [[float(x) for x in b] for b in o["bnd"]]}
        if o["lo"] != m["lo"] or o["hi"] != m["hi"]:
            return {"step": step, "what": "lower/upper bounds", "model": [[float(x) for x in m["lo"]], [float(x) for x in m["hi"]]],
                    "impl": [[float(x) for x in o["lo"]], [float(x) for x in o["hi"]]]}
        ir = [[r[0], r[1], r[2], r[3], mm] for r, mm in zip(o["rows"], o["measures"])]
        if ir != m["rows"]:
            return {"step": step, "what": "contents (cell, id, objective, threshold, measures) in data() order",
                    "model": [[r[0], r[1], float(r[2])] for r in m["rows"]], "impl": [[r[0], r[1] if not isinstance(r[1], tuple) else str(r[1]), float(r[2])] for r in ir]}
        if o["len"] != len(m["rows"]) or o["stats"]["num"] != m["stats"]["num"]:
            return {"step": step, "what": "len / num_elites", "model": m["stats"]["num"], "impl": [o["len"], o["stats"]["num"]]}
        for key in ("cov", "qd", "norm", "max", "mean"):
            mv, iv = m["stats"][key], o["stats"][key]
            ok = (mv is None and iv is None) or (mv is not None and iv is not None and (au.F(au.fl(mv, dtype)) == iv if key != "max" else mv == iv))
            if not ok:
                return {"step": step, "what": "stats." + key, "model": None if mv is None else float(mv), "impl": None if iv is None else float(iv)}
        if (m["best"] is None) != (o["best"] is None) or (m["best"] is not None and m["best"] != o["best"]):
            return {"step": step, "what": "best_elite", "model": str(m["best"]), "impl": str(o["best"])}
    return None


def oracle(spec, ops):
    """C15 stated on the implementation alone (no model): boundaries = order statistics of the buffered measures, sorted, bounds = first /
    last boundary; contents after a remap = elitist insertion of (previous elites in data() order ++ buffer) under the archive's own
    index_of; every stored elite sits in the cell its measures map to."""
    dtype = au.DT[spec["dtype"]]
    trace, archive, table = run_impl(spec, ops)
    inserted = []          # every validated insertion, in order: [id, obj, measures]
    total = 0
    prev_rows = []         # (cell, id, obj, thr, measures) after the previous op
    freq, cap = spec["remap_frequency"], spec["buffer_capacity"]
    for step, (op, ent) in enumerate(zip(ops, trace)):
        if "error" in ent:
            return "step %d: valid %s raised %s" % (step, op[0], ent["error"][1])
        o = ent["obs"]
        cands = op[1] if op[0] == "add" else [op[1]] if op[0] == "add_single" else []
        remap_at = None
        for j, c in enumerate(cands):
            total += 1
            inserted.append(c)
            if total % freq == 0:
                remap_at = j
        for i, b in enumerate(o["bnd"]):
            if any(b[k] > b[k + 1] for k in range(len(b) - 1)):
                return "step %d: boundaries of dimension %d are not sorted: %s" % (step, i, [float(x) for x in b])
            if o["lo"][i] != b[0] or o["hi"][i] != b[-1]:
                return "step %d: bounds (%r, %r) of dimension %d are not the first/last boundary (%r, %r)" % (step, float(o["lo"][i]), float(o["hi"][i]), i, float(b[0]), float(b[-1]))
        rows = [[r[0], r[1], r[2], r[3], mm] for r, mm in zip(o["rows"], o["measures"])]
        for r, own in zip(rows, o["own"]):
            if isinstance(r[1], tuple):
                return "step %d: torn elite in cell %d: %s" % (step, r[0], r[1])
            if r[0] != own:
                return "step %d: elite %s stored in cell %d but index_of(its measures %s) = %d" % (step, r[1], r[0], [float(x) for x in r[4]], own)
        if remap_at is not None and remap_at == len(cands) - 1:
            # the last insertion of this call remapped: everything observable now is the remap's result
            buf = inserted[-min(cap, total):]
            n = len(buf)
            for i, d in enumerate(spec["dims"]):
                srt = sorted(au.F(dtype(c[2][i])) for c in buf)
                exp = [srt[int(j * n / d)] for j in range(d)] + [srt[-1]]
                if o["bnd"][i] != exp:
                    return "step %d: after the remap, boundaries of dimension %d are %s but the order statistics of the %d buffered measures are %s" % (
                        step, i, [float(x) for x in o["bnd"][i]], n, [float(x) for x in exp])
            # contents: previous elites (before this call's remap the archive held prev_rows updated by the earlier insertions of this
            # call -- only decidable here when the call is a single insertion or the remap is caused by a batch of one)
            if len(cands) == 1:
                old = [[r[1], r[2], r[4]] for r in prev_rows]
                seq = old + [[c[0], au.F(dtype(c[1])), [au.F(dtype(x)) for x in c[2]]] for c in buf]
                meas = np.array([[float(x) for x in s[2]] for s in seq], dtype=dtype).reshape(len(seq), len(spec["dims"]))
                cells = [int(x) for x in archive_index_of(spec, o, meas)]
                best = {}
                for s, cell in zip(seq, cells):
                    if cell not in best or s[1] > best[cell][1]:
                        best[cell] = s
                got = {r[0]: [r[1], r[2]] for r in rows}
                exp = {cell: [s[0], s[1]] for cell, s in best.items()}
                if got != exp:
                    return "step %d: contents after the remap %s differ from inserting the previous elites then the buffer into an empty archive with the new boundaries %s" % (
                        step, {k: [v[0], float(v[1])] for k, v in sorted(got.items())}, {k: [v[0], float(v[1])] for k, v in sorted(exp.items())})
        prev_rows = rows
    return None


def archive_index_of(spec, o, meas):
    """index_of of a fresh SlidingBoundariesArchive-like geometry: searchsorted on the observed boundaries with the observed bounds
    (this is the documented index_of, evaluated with numpy on the observed public attributes)"""
    dtype = au.DT[spec["dtype"]]
    eps = dtype(EPS)
    lo = np.array([float(x) for x in o["lo"]], dtype=dtype)
    hi = np.array([float(x) for x in o["hi"]], dtype=dtype)
    m = np.clip(meas + eps, lo, hi - eps)
    cols = []
    for i, d in enumerate(spec["dims"]):
        b = np.array([float(x) for x in o["bnd"][i]], dtype=dtype)
        cols.append(np.maximum(0, np.searchsorted(b[:d], m[:, i]) - 1))
    return np.ravel_multi_index(cols, spec["dims"]) if len(meas) else []


def nontrivial(case):
    spec, ops = case["spec"], case["ops"]
    n = sum(len(o[1]) if o[0] == "add" else 1 if o[0] == "add_single" else 0 for o in ops)
    return n >= 2 * spec["remap_frequency"] and len(set(tuple(c[2]) for o in ops if o[0] != "clear" for c in (o[1] if o[0] == "add" else [o[1]]))) >= 3


def tagger(spec, ops, d, orc):
    if orc and ("index_of(its measures" in orc or "contents after the remap" in orc):
        return {"kind": "sliding-remap-stale-bounds"}
    if (d or {}).get("what", "").startswith("valid call raised") or (orc and "raised" in orc):
        return {"kind": "sliding-remap-raises"}
    return {}


def check(rep, tier, seed, driver):
    py2v_sliding.report(rep)
    rng = random.Random(seed)
    n = 250 if tier == "quick" else 5000
    rep.rule = ("random SlidingBoundariesArchive configurations (1-3 dims, remap_frequency 1-9, buffer_capacity below/equal/above it, both dtypes, "
                "extra-field layouts) and histories of add / add_single / clear with drifting dyadic measures (duplicates, values far outside "
                "the initial ranges) and dyadic objectives with ties; after every operation feedback, data() with measures, boundaries, bounds, "
                "statistics and best elite are compared with the extracted model, and the oracle re-derives boundaries / contents / in-own-cell "
                "from the implementation's outputs alone; non-trivial = at least two remaps and three distinct measure points" 
                "; plus: archives at scale 1024 (epsilon below one float32 ulp; float32 ones judged by the oracle alone), float64 measures that are not float32 values, extra-field keyword order varying from call to call")
    cases = au.load_corpus("C15")
    rep.count("corpus_cases", len(cases))
    for k in range(n):
        if k % 5 == 4:
            spec = gen_spec_index_arith(rng)
            ops = gen_ops_index_arith(rng, spec)
            rep.count("index_arith_cases")
        else:
            spec = gen_spec(rng, tier, allow_scale=True)
            if spec.get("odtype"):
                spec["dtype"] = "d"
            ops = gen_ops(rng, spec, rng.randint(3, 14 if tier == "quick" else 40))
        cases.append({"spec": spec, "ops": ops})
    remaps = 0
    for c in cases:
        tot = sum(len(o[1]) if o[0] == "add" else 1 if o[0] == "add_single" else 0 for o in c["ops"])
        remaps += tot // c["spec"]["remap_frequency"]
    rep.count("remaps_total", remaps)
    au.run_cases(rep, "C15", cases, compare=lambda s, o: compare(driver, s, o), oracle=oracle, nontrivial=nontrivial,
                 what="SlidingBoundariesArchive remap", broken="Model/Sliding.v vs ribs/archives/_sliding_boundaries_archive.py",
                 theorems=["C15_contents", "C15_in_own_cell", "C15_boundaries", "C15_buffer", "C15_between_remaps"], tagger=tagger)
