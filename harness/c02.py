"""C02 correspondence: add()/add_single() feedback vs Model/Archive.v, default and CMA-MAE settings."""
import math
import random
from fractions import Fraction

import numpy as np

import arch_util as au
import py2v_arch

CONFIG = {
    "cone": ["Base/ListUtil.v", "Base/QUtil.v", "Base/FirstArgmax.v", "Model/Store.v", "Proofs/StoreProofs.v", "Model/Archive.v",
             "Proofs/ArchiveProofs.v", "Proofs/C01Proofs.v", "Proofs/C02Proofs.v", "Generated/TransGen.v", "Refine/TransRefine.v", "Properties/C02.v"],
    "extra_property_files": ["Refine/TransRefine.v"],
    "trusted": ["harness/py2v_arch.py: fail-closed ast translator of single_entry_with_threshold and of the ratio/new_threshold expressions of "
                "_compute_thresholds into Generated/TransGen.v on every run; Refine/TransRefine.v proves them equal to the model for all arguments "
                "(the numpy-vectorised batch transform itself is tied by the correspondence run only)",
                "Model/Archive.v (see C01); ProximityArchive with local competition reuses the same transform and is exercised by the C14 check",
                "SlidingBoundariesArchive.add is its documented loop of add_single, so 'the archive before the call' is per inserted solution there",
                "value is compared against the correctly rounded exact difference (single rounding)"],
    "level_text": "Theorems C02_pointwise / C02_single_feedback: for every reachable archive state and every batch, the model's feedback is "
                  "map judge over the batch, judge depending only on the PRE-call content of the candidate's cell and the candidate; "
                  "C02_stored_has_status; C02_single_eq_batch1 (identical post-state and feedback, default and CMA-MAE settings). Tied to "
                  "the code by whole-history runs (elitist, wild floats) and step-wise simulation from the implementation's own pre-state "
                  "(CMA-MAE) with objectives placed exactly at / one ulp around the current thresholds.",
    "level_note": "Trusted: Coq kernel; extraction + driver; hand-written model tied by sampling; harness. No axioms. Exact arithmetic in the "
                  "model; floats only enter through the harness's rounding of the exact value.",
    "technique": "source-derived fragments (py2v translator + refinement lemmas) + Rocq/Coq proof (pointwise judge spec) + model-vs-implementation correspondence (whole-history and step-wise simulation)",
    "design_ref": "DESIGN.md section 5, C02",
}


def oracle(spec, ops):
    """C02 stated directly on the implementation: status/value of each candidate from the state BEFORE the call
    (per inserted solution for SlidingBoundariesArchive), stored only if status != 0, add_single == add on a batch of one."""
    dtype = au.DT[spec["dtype"]]
    trace, mops, archive, table = au.run_impl(spec, ops)
    tmin = spec.get("tmin")
    pre = au.EMPTY_OBS
    for step, (op, ent) in enumerate(zip(ops, trace)):
        if op[0] in ("add", "add_single"):
            if "error" in ent["ret"]:
                return "step %d: valid call raised %s" % (step, ent["ret"]["msg"])
            cands = op[1] if op[0] == "add" else [op[1]]
            state = {r[0]: r[3] for r in pre["rows"]}   # cell -> threshold
            vdt = np.dtype(ent["ret"]["value_dtype"]).type
            for j, (cell, c) in enumerate(zip(ent["cells"], cands)):
                o = au.F(dtype(c[1]))
                if cell in state:
                    est = 1 if o > state[cell] else 0
                    base = state[cell]
                else:
                    est = 2 if (tmin is None or o > au.F(dtype(tmin))) else 0
                    base = Fraction(0) if tmin is None else au.F(dtype(tmin))
                if ent["ret"]["status"][j] != est:
                    return "step %d: candidate %d (cell %d, objective %r, prior threshold %s) got status %d, expected %d" % (
                        step, j, cell, c[1], float(state[cell]) if cell in state else "empty", ent["ret"]["status"][j], est)
                if au.F(au.fl(o - base, vdt)) != ent["ret"]["value"][j]:
                    return "step %d: candidate %d value %r, expected objective - prior threshold = %r" % (step, j, float(ent["ret"]["value"][j]), float(o - base))
                if spec["kind"] == "sliding" and est:
                    state[cell] = o   # sequential single insertions (elitist)
            before = {r[1] for r in pre["rows"]}
            for r in ent["obs"]["rows"]:
                if r[1] not in before:
                    k = [c[0] for c in cands].index(r[1]) if r[1] in [c[0] for c in cands] else None
                    if k is None or ent["ret"]["status"][k] == 0:
                        return "step %d: elite %s stored although its status is 0 / it was not submitted" % (step, r[1])
        pre = ent["obs"]
    # add_single == add([x]) from the same pre-state (prefix identical, the op itself replaced)
    singles = [k for k, o in enumerate(ops) if o[0] == "add_single"]
    if spec["kind"] != "sliding":
        for k in singles[:3]:
            twin = ops[:k] + [["add", [ops[k][1]], "nd"]]
            t2, _, _, _ = au.run_impl(spec, twin)
            e1, e2 = trace[k], t2[k]
            if e1["ret"].get("status") != e2["ret"].get("status") or e1["ret"].get("value") != e2["ret"].get("value"):
                return "step %d: add_single and add on a batch of one report different feedback (%s vs %s)" % (k, e1["ret"], e2["ret"])
            r1, r2 = e1["obs"]["rows"], e2["obs"]["rows"]
            scale = max([abs(float(r[3])) for r in r1] + [abs(float(r[2])) for r in r1] + [abs(tmin or 0.0), 1e-300])
            if [r[:3] for r in r1] != [r[:3] for r in r2] or not all(
                    (a[3] == b[3]) if tmin is None else au.near(a[3], b[3], dtype, scale, 32) for a, b in zip(r1, r2)):
                return "step %d: add_single and add on a batch of one leave different archives" % k
            if e1["obs"]["stats"]["num"] != e2["obs"]["stats"]["num"] or e1["obs"]["stats"]["max"] != e2["obs"]["stats"]["max"]:
                return "step %d: add_single and add on a batch of one leave different statistics" % k
    return None



def wide_input_cases(rep, rng, n):
    """add_single must agree with add on a batch of one ALSO when the caller passes objectives wider than the archive's dtype
    (float64 values into a float32 archive): candidates are placed within a fraction of a float32 ulp around the live threshold."""
    for _ in range(n):
        spec = au.gen_spec(rng, kinds=("grid", "cvt"), cma=rng.random() < 0.5, dtypes=("f",), max_cells=16)
        spec["extras"] = []
        prefix = au.gen_history(rng, spec, rng.randint(1, 5), 4, lambda r: r.randrange(-64, 65) / 8.0, clear_rate=0.0)
        a1, a2 = au.make_archive(spec), au.make_archive(spec)
        for arch in (a1, a2):
            for op in prefix:
                if op[0] == "add":
                    arch.add(**au.batch_arrays(spec, op[1]))
                elif op[0] == "add_single":
                    arch.add_single(**au.single_args(spec, op[1]))
        d = a1.data()
        if len(d["index"]) == 0:
            continue
        k = rng.randrange(len(d["index"]))
        thr = float(d["threshold"][k])
        ulp32 = float(np.spacing(np.float32(abs(thr) if thr else 1.0)))
        obj = thr + rng.choice([0.25, 0.4, -0.25, -0.4, 0.0, 0.6, -0.6]) * ulp32     # a float64 that is (mostly) not a float32
        mea = np.asarray(d["measures"][k], dtype=np.float64)
        if rng.random() < 0.5:
            # ... and measures wider than the archive's dtype: a float64 point whose cell differs from the cell of its float32 rounding
            # (found by bisection across a cell border); both paths must judge the SAME cell (since fix FC07a: the cell of the stored, i.e. rounded, measures)
            m2 = au.cast_sensitive_measures(a1, spec, rng)
            if m2 is not None:
                mea = m2
                rep.count("wide_measure_cases")
                if rng.random() < 0.5:
                    obj = float(rng.randrange(-64, 65)) / 8.0
        sol = np.zeros(spec["sol_dim"])
        i1 = a1.add(sol[None], np.array([obj], dtype=np.float64), mea[None])
        i2 = a2.add_single(sol, obj, mea)
        rep.count("wide_input_cases")
        rep.case({"wide": [spec["kind"], spec.get("tmin"), obj.hex() if hasattr(obj, "hex") else obj, thr]}, True)
        s1, s2 = int(i1["status"][0]), int(i2["status"])
        v1, v2 = float(i1["value"][0]), float(i2["value"])
        c1, c2 = a1.data(), a2.data()
        # contents: everything must be identical, except that under CMA-MAE the new threshold is computed by two different (documented)
        # expressions in the two paths -- ratio*t + mean*(1-ratio) vs t*(1-lr) + f*lr -- which may round differently (a few ulp)
        def same_field(f):
            if f == "threshold" and spec.get("tmin") is not None:
                a, b = c1[f].astype(np.float64), c2[f].astype(np.float64)
                return a.shape == b.shape and bool(np.all(np.abs(a - b) <= 8 * np.spacing(np.maximum(np.abs(a), np.abs(b)).astype(np.float32)).astype(np.float64)))
            return np.array_equal(c1[f], c2[f])
        same = s1 == s2 and v1 == v2 and all(same_field(f) for f in c1)
        if not same:
            rep.violation("add on a batch of one and add_single disagree for float64 arguments in a float32 archive: objective %r, measures %r, cell threshold %r: "
                          "add -> status %d value %r, add_single -> status %d value %r" % (obj, mea.tolist(), thr, s1, v1, s2, v2),
                          {"kind": "property", "broken": "C02_single_eq_batch1 (add_single agrees with add on a batch of one)",
                           "case": {"spec": spec, "prefix": prefix, "objective_hex": float(obj).hex(), "measures": mea.tolist(), "threshold": thr}},
                          True, {"kind": "batch-single-dtype-cast"})
            return


def nontrivial(case):
    """a batch with >= 2 members sharing a measure point, and some objective placed exactly at a current threshold or an exact tie"""
    ops = case["ops"]
    shared = any(o[0] == "add" and len({tuple(c[2]) for c in o[1]}) < len(o[1]) for o in ops)
    return shared and case.get("ties", 0) > 0


def check(rep, tier, seed, driver):
    py2v_arch.report(rep)
    rng = random.Random(seed)
    _dd = au.dict_dtype_stream(rep, random.Random(seed + 77), 40 if tier == "quick" else 400, "agree")
    if _dd:
        rep.violation("dict-dtype archive: " + _dd[0], {"kind": "property", "broken": "C02 under the dict form of dtype (objective and measures in different float types)",
                                                     "case": _dd[1]}, True, {"kind": "dict-dtype"})
    n = 300 if tier == "quick" else 2500
    rep.rule = ("(a) elitist archives, whole-history comparison, wild floats; (b) CMA-MAE and elitist archives, step-wise simulation from the "
                "implementation's pre-state, histories generated against a live archive so that 30% of the objectives sit exactly at, one "
                "ulp above or one ulp below the targeted cell's current threshold; Grid/CVT(kd,brute,chunk)/Sliding, float32/float64; "
                "non-trivial = a batch in which >= 2 members share a measure point AND >= 1 objective placed at/around a live threshold; "
                "distinct by hash of (spec, ops)" 
                "; (c) add([x]) vs add_single(x) for float64 objectives around a threshold and float64 measures whose float32 rounding lies in another cell")
    cases = au.load_corpus("C02")
    rep.count("corpus_cases", len(cases))
    for k in range(n):
        cma = k % 3 != 0
        spec = au.gen_spec(rng, cma=cma, max_cells=64)
        dtype = au.DT[spec["dtype"]]
        gen = (lambda r: au.moderate_float(r, dtype)) if spec.get("tmin") is not None else (lambda r: au.wild_float(r, dtype))
        ops, st = au.gen_history_live(rng, spec, rng.randint(2, 12 if tier == "quick" else 40), 8, gen)
        for a, b in st.items():
            rep.count("objective_" + a, b)
        cases.append({"spec": spec, "ops": ops, "ties": st["at_thr"] + st["above"] + st["below"]})
    # one call with several thousand candidates (implementations that process a batch in blocks must still judge every member
    # against the pre-call archive): few cells, many members per cell, dyadic objectives
    for kb in range(1 if tier == "quick" else 4):
        spec = au.gen_spec(rng, kinds=("grid", "cvt"), cma=(kb % 2 == 1), max_cells=12)
        spec["extras"] = []
        gen = lambda r: r.randrange(-64, 65) / 8.0
        pre = au.gen_history(rng, spec, 2, 4, gen, clear_rate=0.0)
        nbig = rng.choice([4200, 4700, 8300]) if tier != "quick" else rng.choice([4200, 4700])
        pool = [au.gen_measures(rng, spec, []) for _ in range(10)]
        big = [["add", [[0, gen(rng), list(rng.choice(pool))] for _ in range(nbig)], "nd"]]
        ops = pre + big + au.gen_history(rng, spec, 1, 3, gen, clear_rate=0.0)
        nid = 1
        for o in ops:
            for c in (o[1] if o[0] == "add" else [o[1]] if o[0] == "add_single" else []):
                c[0] = nid
                nid += 1
        cases.append({"spec": spec, "ops": ops, "ties": 1})
        rep.count("big_batch_cases")
    rep.count("cma_mae_cases", sum(1 for c in cases if c["spec"].get("tmin") is not None))

    def compare(spec, ops):
        if spec.get("tmin") is None:
            d = au.compare_history(driver, spec, ops, exact_values=True, stats_mode="none")
            if d:
                return d
        return au.compare_stepwise(driver, spec, ops, check_stats=False)
    au.run_cases(rep, "C02", cases, compare=compare, oracle=oracle, nontrivial=nontrivial,
                 what="add feedback", broken="Model/Archive.v vs ribs/archives/_transforms.py + _archive_base.py",
                 theorems=["C02_pointwise", "C02_single_feedback", "C02_stored_has_status", "C02_single_eq_batch1"])
    wide_input_cases(rep, rng, 60 if tier == "quick" else 800)
