"""C17 correspondence: the real rankers of ribs.emitters.rankers vs the extracted Ranker model.

A case is a history on ONE ranker object: reset / target_measure_dir setter / rank, each rank with a fresh batch.
For every rank the harness checks, on the implementation's outputs,
  * the property's own statement (python oracle AND the extracted Coq predicate Spec.rank_ok): indices are a
    permutation, keys along them are best-first by the DOCUMENTED key (computed by the harness from the inputs,
    exact rationals), ranking values are aligned with the original positions,
  * purity: data / add_info / archive bitwise unchanged, direction unchanged,
  * correspondence with the model: same error class, same ranking values, same KEY SEQUENCE along the returned
    order (index vectors are not compared: the order of equal keys is unspecified).
For every reset of a random-direction ranker the draw is reproduced with a parallel
np.random.default_rng(seed) and target_measure_dir must equal z * (upper - lower) bit for bit; the model's exact
z ⊙ (upper − lower) must round to it."""
import py2v_rank
import copy
import json
import os
import random
from fractions import Fraction

import numpy as np

from common import err_code, CORPUS

CONFIG = {
    "cone": ["Model/Ranker.v", "Spec/RankerSpec.v", "Proofs/RankerProofs.v", "Generated/RankGen.v", "Refine/RankRefine.v", "Properties/C17.v"],
    "extra_property_files": ["Refine/RankRefine.v"],
    "trusted": ["harness/py2v_rank.py: fail-closed extractor of the ranker key table (stages, sort key, flip) of rankers.py into "
                "Generated/RankGen.v on every run; Refine/RankRefine.v proves that Model/Ranker.v ranks by exactly that table",
                "Model/Ranker.v models numpy's argsort/lexsort/flip/stack/dot on exact rationals (ties: stable order; the "
                "implementation's tie order is unspecified and is not compared)",
                "archive.compute_density and the standard-normal draws are inputs of the model (oracle tables supplied by the harness: "
                "the draws are reproduced with np.random.default_rng(seed))",
                "immutability of archive/data/add_info is a by-construction fact of the functional model; it is tied to the code only by the "
                "harness's bitwise before/after comparison"],
    "level_text": "Theorems in coq/Properties/C17.v quantify over every ranker kind, every ranker state, every archive and all column arrays "
                  "of any length (0 and 1 included) over Q / Z: the result is a permutation of the batch positions (C17_perm), best-first by "
                  "(status, key) lexicographically with status dominating, density ascending (C17_sorted, C17_status_dominates), the ranking "
                  "values are the documented key array at original positions (C17_values_aligned), any sequence of rank calls leaves direction "
                  "and random stream unchanged (C17_pure), reset sets dir = z ⊙ (upper − lower) from the next draws and a second reset uses "
                  "the next segment (C17_reset, C17_reset_fresh); the decidable predicate rank_ok used as oracle on the implementation's outputs "
                  "is proved equivalent to permutation ∧ best-first (C17_checker_exact). The model is tied to ribs/emitters/rankers.py by a "
                  "differential run of the extracted model against every exported ranker class on every run.",
    "level_note": "All clauses proved at full strength, no axioms. Floating point: order logic is exact over the rationals the floats denote; "
                  "projections are compared exactly on the exact stream (dot product verified exact with Fractions) and otherwise the numpy-"
                  "computed projections are supplied to the model and only bounded against the exact dot product; reset is compared bitwise "
                  "against numpy's own multiplication and against the correctly rounded model value. The source-derived AST fragment of "
                  "DESIGN 2.2(b) is not implemented for C17; the tie is the correspondence run only.",
    "technique": "Rocq/Coq proof over an executable Gallina model + model-vs-implementation correspondence run",
    "design_ref": "DESIGN.md section 5, C17",
}

KINDS = {"ImprovementRanker": 0, "TwoStageImprovementRanker": 1, "RandomDirectionRanker": 2,
         "TwoStageRandomDirectionRanker": 3, "ObjectiveRanker": 4, "TwoStageObjectiveRanker": 5,
         "NoveltyRanker": 6, "DensityRanker": 7}
TWO = {1, 3, 5}
RDK = {2, 3}
INT_DTYPES = ["int8", "int16", "int32", "int64", "uint8", "uint16", "uint32", "uint64"]
THEOREM = {"perm": "C17_perm", "sorted": "C17_sorted", "aligned": "C17_values_aligned", "mutated": "C17_pure",
           "dir-changed": "C17_pure", "reset": "C17_reset", "reset-stale": "C17_reset_fresh", "error": "correspondence (error class)",
           "shape": "C17_perm", "model": "correspondence Model/Ranker.v vs ribs/emitters/rankers.py", "coq-oracle": "C17_checker_exact"}


def fr(x):
    """exact rational denoted by a finite python / numpy number"""
    if isinstance(x, (bool, np.bool_)):
        return Fraction(int(x))
    if isinstance(x, (int, np.integer)):
        return Fraction(int(x))
    if isinstance(x, Fraction):
        return x
    f = float(x)
    if f != f or f in (float("inf"), float("-inf")):
        raise ValueError("non-finite value %r" % (x,))
    return Fraction(f)


def fl(x):
    return [fr(v) for v in x]


# ---------------------------------------------------------------------------------------------
# building the implementation-side objects from a JSON case
_CLS = {}


def _classes():
    if not _CLS:
        from ribs.archives import GridArchive

        class DensityGrid(GridArchive):
            """GridArchive with the compute_density method DensityRanker documents; returns the table of the current rank op."""
            c17_table = None
            c17_calls = None

            def compute_density(self, measures):
                self.c17_calls.append(measures)
                return self.c17_table
        _CLS["DensityGrid"] = DensityGrid
    return _CLS


class _Emitter:
    """stand-in for the emitter argument of reset / rank (the stock rankers do not look at it)"""


EMITTERS = [None, _Emitter(), _Emitter()]


class Spy:
    """transparent proxy recording which attributes of the archive a ranker touches"""

    def __init__(self, real):
        object.__setattr__(self, "_c17_real", real)
        object.__setattr__(self, "_c17_log", [])

    def __getattr__(self, name):
        object.__getattribute__(self, "_c17_log").append(name)
        return getattr(object.__getattribute__(self, "_c17_real"), name)

    def __setattr__(self, name, value):
        object.__getattribute__(self, "_c17_log").append("SET:" + name)
        setattr(object.__getattribute__(self, "_c17_real"), name, value)


def build_archive(spec):
    """-> (object handed to the ranker, underlying real archive or None)"""
    from ribs.archives import GridArchive, CVTArchive, SlidingBoundariesArchive, ProximityArchive
    t = spec["type"]
    if t == "none":
        return None, None
    ranges = [tuple(r) for r in spec["ranges"]]
    d = len(ranges)
    dt = np.dtype(spec["dtype"]).type
    g = np.random.default_rng(spec["fill"])
    if t in ("grid", "plain"):
        a = GridArchive(solution_dim=2, dims=[3] * d, ranges=ranges, dtype=dt)
    elif t == "density":
        a = _classes()["DensityGrid"](solution_dim=2, dims=[3] * d, ranges=ranges, dtype=dt)
        a.c17_calls = []
    elif t == "cvt":
        cents = np.array([[lo + (hi - lo) * g.integers(0, 9) / 8 for lo, hi in ranges] for _ in range(5)], dtype=dt)
        cents = np.unique(cents, axis=0)
        a = CVTArchive(solution_dim=2, cells=len(cents), ranges=ranges, custom_centroids=cents, dtype=dt)
    elif t == "sliding":
        a = SlidingBoundariesArchive(solution_dim=2, dims=[3] * d, ranges=ranges, dtype=dt)
    elif t == "proximity":
        a = ProximityArchive(solution_dim=2, measure_dim=d, k_neighbors=1, novelty_threshold=0.0, dtype=dt)
    else:
        raise ValueError(t)
    k = spec["n_fill"]
    if t == "proximity":
        k = max(k, 2)
    if k:
        meas = np.array([[lo + (hi - lo) * g.integers(0, 9) / 8 for lo, hi in ranges] for _ in range(k)], dtype=dt)
        if t == "proximity":  # corners, so that the bounds are the ranges
            meas[0] = [lo for lo, _ in ranges]
            meas[1] = [hi for _, hi in ranges]
            if spec.get("flat"):    # every entry shares its first coordinate: that measure range is exactly 0
                meas[:, 0] = meas[0, 0]
        a.add(g.integers(-3, 4, (k, 2)).astype(dt), g.integers(-5, 6, k).astype(dt), meas)
    return (Spy(a) if spec.get("spy") else a), a


def _b(x):
    x = np.asarray(x)
    return (x.dtype.str, x.shape, x.tobytes())


def snap_archive(a):
    """public-API observation of everything a ranker could disturb"""
    if a is None:
        return None
    out = {"len": len(a), "empty": a.empty, "stats": repr(a.stats)}
    for k, v in a.data().items():
        out["data." + k] = _b(v)
    be = a.best_elite
    out["best"] = None if be is None else sorted((k, _b(v)) for k, v in be.items())
    for attr in ("lower_bounds", "upper_bounds", "boundaries", "centroids", "dims", "interval_size", "cells", "capacity"):
        try:
            v = getattr(a, attr)
        except Exception:  # noqa
            continue
        out[attr] = [_b(x) for x in v] if isinstance(v, list) else _b(v)
    return out


def snap_value(v):
    if isinstance(v, np.ndarray):
        return ("nd", v.dtype.str, v.shape, v.tobytes(), v.flags.writeable)
    return ("py", repr(v))


def snap_dict(d):
    return {k: snap_value(v) for k, v in d.items()}


def column(vals, dtype, container, shape=None):
    if container == "list":
        if dtype.startswith("int") or dtype.startswith("uint"):
            conv = int
        else:
            conv = float
        if shape is not None:
            return [[conv(x) for x in row] for row in vals]
        return [conv(x) for x in vals]
    arr = np.array(vals, dtype=dtype)
    if shape is not None:
        arr = arr.reshape(shape)
    return arr


def make_seed(sd):
    """-> (seed object for the ranker, parallel generator constructed the way RankerBase does)"""
    if sd[0] == "int":
        return sd[1], np.random.default_rng(sd[1])
    return np.random.SeedSequence(sd[1]).spawn(2)[1], np.random.default_rng(np.random.SeedSequence(sd[1]).spawn(2)[1])


# ---------------------------------------------------------------------------------------------
# the property's statement, directly
def good(kind, x, y):
    """x may stand in front of y"""
    if kind == 7:
        return x[1] <= y[1]
    return x[0] > y[0] or (x[0] == y[0] and x[1] >= y[1])


def oracle_rank(kind, n, doc, idx, vals_rows):
    """doc: documented (status, key) per original position; idx: returned indices (python ints);
    vals_rows: returned ranking values per original position as (status, key) / (0, key). -> list of (clause, message)"""
    bad = []
    if sorted(idx) != list(range(n)):
        bad.append(("perm", "returned indices %s are not a permutation of 0..%d" % (idx[:12], n - 1)))
        return bad
    for p in range(n - 1):
        if not good(kind, doc[idx[p]], doc[idx[p + 1]]):
            bad.append(("sorted", "position %d (solution %d, key %s) ranks before position %d (solution %d, key %s)" % (
                p, idx[p], kstr(doc[idx[p]]), p + 1, idx[p + 1], kstr(doc[idx[p + 1]]))))
            break
    if vals_rows is not None and vals_rows != doc:
        j = [k for k in range(n) if vals_rows[k] != doc[k]][0] if len(vals_rows) == n else -1
        bad.append(("aligned", "ranking value at original position %d is %s, documented key is %s" % (
            j, kstr(vals_rows[j]) if j >= 0 else "?", kstr(doc[j]) if j >= 0 else "?")))
    return bad


def kstr(p):
    return "(%s, %s)" % (float(p[0]), float(p[1]))


# ---------------------------------------------------------------------------------------------
def run_case(case, driver, stats=None, trace=None):
    """Runs the history on the real ranker and on the model. -> list of problems
    {op, clause, what, found (bool: the property itself fails on the implementation's output), detail}"""
    import ribs.emitters.rankers as R
    st = stats if stats is not None else {}

    def cnt(k, n=1):
        st[k] = st.get(k, 0) + n
    kind = KINDS[case["cls"]]
    seed_obj, gen = make_seed(case["seed"])
    ranker = getattr(R, case["cls"])(seed_obj)
    archive, real = build_archive(case["archive"])
    emitter = None
    step_no = [0]
    problems = []
    mops, post = [], []   # model ops; per model op a function (model_out) -> None | problem dict
    stream = []
    cur_dir_q = None       # exact value of the implementation's current direction
    twin = [None, None]    # a second ranker that was handed the first one's direction (the setter takes any array) + the value it must keep

    def prob(k, clause, what, found, **detail):
        problems.append({"op": k, "clause": clause, "what": what, "found": bool(found), "theorem": THEOREM.get(clause, clause), "detail": detail})

    def get_dir():
        return getattr(ranker, "target_measure_dir", None) if kind in RDK else None

    def tr(k, **kw):
        if trace is not None:
            for t in trace:
                if t["op"] == k:
                    t.update(kw)
                    return
            trace.append(dict(op=k, **kw))

    for k, op in enumerate(case["ops"]):
        step_no[0] = k
        before_arch = snap_archive(real)
        dir_before = None if get_dir() is None else snap_value(copy.deepcopy(get_dir()))
        if op["op"] == "grow":
            # the harness itself grows a ProximityArchive beyond its current bounds: the measure ranges a later reset must use change
            if real is not None and type(real).__name__ == "ProximityArchive" and len(real):
                dtm = real.upper_bounds.dtype.type
                far = (real.upper_bounds + op["by"] * (real.upper_bounds - real.lower_bounds + 1)).astype(dtm)
                real.add(np.zeros((1, 2), dtype=dtm), np.zeros(1, dtype=dtm), far[None])
                cnt("grow_ops")
                if isinstance(archive, Spy):
                    del object.__getattribute__(archive, "_c17_log")[:]
            continue
        if op["op"] == "reset":
            err = None
            try:
                # one ranker may serve several emitters: whichever emitter is named, the ranker has ONE current direction
                ranker.reset(EMITTERS[(step_no[0] * 7 + 1) % 3], archive)
            except Exception as e:  # noqa
                err = err_code(e)
            if snap_archive(real) != before_arch:
                prob(k, "mutated", "reset modified the archive", True)
            if isinstance(archive, Spy):
                log = object.__getattribute__(archive, "_c17_log")
                for a in log:
                    cnt("spy_reset_" + a)
                if any(a.startswith("SET:") for a in log):
                    prob(k, "mutated", "reset assigned archive attributes %s" % log, True)
                del log[:]
            if err is not None:
                prob(k, "error", "reset raised (error class %d)" % err, True)
                break
            if kind in RDK:
                up, lo = real.upper_bounds, real.lower_bounds
                z = gen.standard_normal(len(up))
                expected = z * (up - lo)
                d = ranker.target_measure_dir
                tr(k, impl_dir=None if d is None else np.asarray(d).tolist(), draw=z.tolist(), lower=lo.tolist(), upper=up.tolist(),
                   numpy_draw_times_range=expected.tolist())
                ok = isinstance(d, np.ndarray) and d.dtype == expected.dtype and d.shape == expected.shape and d.tobytes() == expected.tobytes()
                if not ok:
                    prob(k, "reset", "after reset target_measure_dir = %s, but draw * (upper - lower) = %s (z=%s, lower=%s, upper=%s)" % (
                        np.asarray(d).tolist() if d is not None else None, expected.tolist(), z.tolist(), lo.tolist(), up.tolist()), True)
                    break
                if dir_before is not None and snap_value(d) == dir_before and np.any(np.asarray(up - lo) != 0):
                    # (an archive whose every measure range is exactly 0 makes every direction the zero vector)
                    prob(k, "reset-stale", "reset did not draw a new direction", True)
                if twin[0] is not None and not np.array_equal(np.asarray(twin[0].target_measure_dir), twin[1]):
                    prob(k, "reset", "resetting one ranker changed the direction of ANOTHER ranker that had been given the same direction and was "
                         "not reset: %s -> %s" % (twin[1].tolist(), np.asarray(twin[0].target_measure_dir).tolist()), True)
                    break
                try:
                    twin[0] = type(ranker)()
                    twin[0].target_measure_dir = ranker.target_measure_dir
                    twin[1] = np.array(ranker.target_measure_dir, copy=True)
                except Exception:  # noqa
                    twin[0] = None
                stream.extend(fl(z))
                d_q = fl(d)
                sub_exact = all(fr(u) - fr(l) == fr(w) for u, l, w in zip(up, lo, up - lo))
                cnt("reset_rd")
                cnt("reset_sub_exact" if sub_exact else "reset_sub_rounded")
                mops.append([0, fl(lo), fl(up)])

                def chk(mo, k=k, d=d, d_q=d_q, sub_exact=sub_exact):
                    if mo[0] != 0 or not mo[1]:
                        return dict(clause="model", what="model reset failed: %s" % (mo,), found=False)
                    md = [Fraction(a, b) for a, b in mo[1][0]]
                    tr(k, model_dir_exact=[str(x) for x in md], model_dir_rounded=[float(x) for x in md])
                    if len(md) != len(d_q):
                        return dict(clause="model", what="model direction has length %d, implementation %d" % (len(md), len(d_q)), found=False)
                    if sub_exact:
                        for j, (m, x) in enumerate(zip(md, d)):
                            if float(m) != float(x):
                                return dict(clause="reset", what="direction[%d] = %r is not the correctly rounded z*(upper-lower) = %r" % (j, float(x), float(m)), found=True)
                    return None
                post.append((k, chk))
                cur_dir_q = d_q
                mops.append([1, d_q])   # continue from the implementation's (rounded) direction
                post.append((k, None))
            else:
                cnt("reset_noop")
                mops.append([0, [], []])
                post.append((k, lambda mo: None if mo[0] == 0 else dict(clause="model", what="model reset of a stateless ranker failed", found=False)))
        elif op["op"] == "set_dir":
            v = column(op["dir"], op["dtype"], op["container"])
            ranker.target_measure_dir = v
            cur_dir_q = fl(op["dir"])
            cnt("set_dir")
            mops.append([1, cur_dir_q])
            post.append((k, None))
        elif op["op"] == "rank":
            n = op["n"]
            d = case["archive"].get("dim", 1)
            cont, fdt, sdt = op["container"], op["fdtype"], op["sdtype"]
            if n == 0:
                cont = "array"
            odt = op.get("odtype") or fdt
            data = {"solution": np.zeros((n, 2)), "objective": column(op["objective"], odt, cont),
                    "measures": column(op["measures"], fdt, cont, (n, d))}
            info = {"status": column(op["status"], sdt, cont), "value": column(op["value"], odt, cont)}
            if kind == 6 or op.get("all_fields"):
                info["novelty"] = column(op["novelty"], odt, cont)
            if op.get("all_fields"):
                data["extra_field"] = np.arange(n)
            if case["archive"]["type"] == "density":
                real.c17_table = column(op["density"], fdt if not fdt.startswith("int") else "float64", cont)
                real.c17_calls = []
                before_arch = snap_archive(real)
            b_data, b_info = snap_dict(data), snap_dict(info)
            # exact column values
            obj_q, val_q, nov_q = fl(op["objective"]), fl(op["value"]), fl(op["novelty"])
            st_q = [Fraction(int(s)) for s in op["status"]]
            meas_q = [fl(row) for row in op["measures"]]
            dens_q = fl(op["density"])
            dir_at_call = copy.deepcopy(get_dir())
            err, res = None, None
            try:
                res = ranker.rank(EMITTERS[(step_no[0] * 5 + 2) % 3], archive, data, info)
            except Exception as e:  # noqa
                err = err_code(e)
                err_repr = repr(e)
            # purity
            if snap_dict(data) != b_data:
                prob(k, "mutated", "rank modified the data dict: %s" % [x for x in data if snap_value(data[x]) != b_data.get(x)], True)
            if snap_dict(info) != b_info:
                prob(k, "mutated", "rank modified add_info: %s" % [x for x in info if snap_value(info[x]) != b_info.get(x)], True)
            if snap_archive(real) != before_arch:
                prob(k, "mutated", "rank modified the archive", True)
            if (None if get_dir() is None else snap_value(get_dir())) != dir_before:
                prob(k, "dir-changed", "rank changed target_measure_dir from %s to %s" % (dir_before, snap_value(get_dir())), True)
            if isinstance(archive, Spy):
                log = object.__getattribute__(archive, "_c17_log")
                for a in log:
                    cnt("spy_rank_" + a)
                if any(a.startswith("SET:") for a in log):
                    prob(k, "mutated", "rank assigned archive attributes %s" % log, True)
                del log[:]
            # documented key
            proj_supplied = None
            if kind in RDK and dir_at_call is not None:
                dirv = np.asarray(dir_at_call)
                dir_q = fl(dirv.tolist())
                exact = [sum((a * b for a, b in zip(row, dir_q)), Fraction(0)) for row in meas_q]
                try:
                    ref = np.dot(column(op["measures"], fdt, cont, (n, d)), dirv)
                    ref_q = fl(ref.tolist())
                except Exception:  # noqa
                    ref, ref_q = None, None
                if ref_q is not None and ref_q == exact:
                    key_q = exact
                    cnt("proj_exact")
                    seen = {}
                    for row, pq in zip(op["measures"], exact):
                        seen.setdefault(pq, set()).add(tuple(row))
                    if any(len(v) > 1 for v in seen.values()):
                        cnt("equal_projection_of_distinct_rows")
                else:
                    cnt("proj_rounded")
                    key_q = ref_q
                    proj_supplied = True
                    mag = [sum((abs(a * b) for a, b in zip(row, dir_q)), Fraction(0)) for row in meas_q]
            else:
                key_q = {0: val_q, 1: val_q, 4: obj_q, 5: obj_q, 6: nov_q, 7: dens_q}.get(kind)
            expect_err = None
            if kind in RDK and dir_at_call is None:
                expect_err = 3
                cnt("malformed_rank_before_reset")
            if kind == 7 and case["archive"]["type"] != "density":
                expect_err = 7
                cnt("malformed_density_without_compute_density")
            impl_idx = impl_vals = None
            if err is None:
                try:
                    idx_a, vals_a = np.asarray(res[0]), np.asarray(res[1])
                    shape_ok = idx_a.shape == (n,) and (np.issubdtype(idx_a.dtype, np.integer) or n == 0) and \
                        vals_a.shape == ((n, 2) if kind in TWO else (n,))
                except Exception:  # noqa
                    shape_ok = False
                if not shape_ok:
                    prob(k, "shape", "rank returned indices of shape/dtype %s/%s and values of shape %s for a batch of %d" % (
                        getattr(idx_a, "shape", None), getattr(idx_a, "dtype", None), getattr(vals_a, "shape", None), n), True)
                    break
                impl_idx = [int(x) for x in idx_a]
                tr(k, impl_indices=impl_idx, impl_values=vals_a.tolist())
                try:
                    if kind in TWO:
                        impl_vals = [(fr(r[0]), fr(r[1])) for r in vals_a.tolist()]
                    else:
                        impl_vals = [(Fraction(0), fr(x)) for x in vals_a.tolist()]
                except ValueError as e:
                    prob(k, "aligned", "ranking values are not finite: %s" % e, True)
                    break
                if proj_supplied and key_q is not None:
                    got = [v[1] for v in impl_vals]
                    if got != key_q:
                        eps = Fraction(1, 2 ** (20 if np.asarray(ref).dtype == np.float32 else 49))
                        if all(abs(g - e) <= eps * m for g, e, m in zip(got, exact, mag)) and len(got) == len(exact):
                            cnt("proj_ref_mismatch_within_tolerance")
                            key_q = got
                    if len(key_q) == len(exact):
                        eps = Fraction(1, 2 ** (20 if np.asarray(ref).dtype == np.float32 else 49))
                        for j, (g, e, m) in enumerate(zip(key_q, exact, mag)):
                            if abs(g - e) > eps * m:
                                prob(k, "aligned", "projection %d = %r is not <measures, dir> = %r" % (j, float(g), float(e)), True)
                                break
            if err is not None:
                tr(k, impl_error=err_repr)
            if expect_err is not None or err is not None:
                if err != expect_err:
                    prob(k, "error", "rank %s but %s expected" % ("raised %s" % err_repr if err is not None else "returned",
                                                                   "error class %s" % expect_err if expect_err else "a ranking"),
                         expect_err is None)
            doc = None
            if err is None and key_q is not None and len(key_q) == n:
                doc = [(st_q[j] if kind in TWO else Fraction(0), key_q[j]) for j in range(n)]
                for clause, msg in oracle_rank(kind, n, doc, impl_idx, impl_vals):
                    prob(k, clause, msg, True)
                if kind == 7 and case["archive"]["type"] == "density":
                    calls = real.c17_calls
                    if len(calls) != 1 or calls[0] is not data["measures"]:
                        cnt("density_arg_not_identical")
                        if len(calls) != 1 or snap_value(np.asarray(calls[0])) != snap_value(np.asarray(data["measures"])):
                            prob(k, "aligned", "compute_density was not called once with data['measures']", True)
            # model op(s)
            dens = [dens_q] if case["archive"]["type"] == "density" else []
            if proj_supplied and key_q is not None:
                mops.append([1, [Fraction(1)]])
                post.append((k, None))
                m_meas = [[x] for x in key_q]
            else:
                m_meas = meas_q
            mops.append([2, [], [], dens, obj_q, m_meas, [int(s) for s in op["status"]], val_q, nov_q])

            def chk(mo, k=k, err=err, impl_idx=impl_idx, impl_vals=impl_vals, doc=doc, n=n):
                if mo[0] != 0:
                    tr(k, model_error_class=mo[0])
                    if err is None:
                        return dict(clause="error", what="model raises error class %d, implementation returns a ranking" % mo[0], found=False)
                    if err != mo[0]:
                        return dict(clause="error", what="model raises error class %d, implementation %d" % (mo[0], err), found=False)
                    return None
                if err is not None:
                    return dict(clause="error", what="implementation raises (class %d), model returns a ranking" % err, found=True)
                m_idx = mo[1]
                if mo[2][0] == 1:
                    m_vals = [(Fraction(0), Fraction(a, b)) for a, b in mo[2][1]]
                else:
                    m_vals = [(Fraction(a, b), Fraction(c, d)) for (a, b), (c, d) in mo[2][1]]
                tr(k, model_indices=m_idx, model_values=[[float(a), float(b)] for a, b in m_vals] if mo[2][0] == 2 else [float(b) for _, b in m_vals])
                if m_vals != impl_vals:
                    return dict(clause="aligned", what="ranking values differ from the model's", found=False,
                                model=[kstr(x) for x in m_vals[:8]], impl=[kstr(x) for x in impl_vals[:8]])
                if sorted(impl_idx) == list(range(n)):
                    ks_m = [m_vals[j] for j in m_idx]
                    ks_i = [m_vals[j] for j in impl_idx]
                    if ks_m != ks_i:
                        p = [t for t in range(n) if ks_m[t] != ks_i[t]][0]
                        return dict(clause="sorted", what="key sequence along the returned order differs from the model's at rank %d: %s vs model %s" % (
                            p, kstr(ks_i[p]), kstr(ks_m[p])), found=False, model_idx=m_idx, impl_idx=impl_idx)
                    if m_idx == impl_idx:
                        cnt("same_index_vector")
                    else:
                        cnt("tie_order_differs")
                return None
            post.append((k, chk))
            if proj_supplied and key_q is not None:
                mops.append([1, cur_dir_q if cur_dir_q is not None else []])
                post.append((k, None))
            # the extracted Coq predicate on the implementation's indices w.r.t. the documented values
            if doc is not None and impl_idx is not None and all(0 <= x < 10 ** 6 for x in impl_idx):
                dv = [2, [[a, b] for a, b in doc]] if kind in TWO else [1, [b for _, b in doc]]
                mops.append([3, dv, impl_idx])

                def chk2(mo, k=k):
                    tr(k, coq_rank_ok_on_impl={"permutation": mo[0], "best_first": mo[1]})
                    if mo != [1, 1]:
                        return dict(clause="coq-oracle", what="Spec.rank_ok rejects the implementation's ranking: permutation=%d best_first=%d" % (mo[0], mo[1]), found=True)
                    return None
                post.append((k, chk2))
        else:
            raise ValueError(op)
    # model
    if driver is not None and mops:
        mout = driver.call("C17", [kind, stream, mops])
        assert len(mout) == len(mops) == len(post), (len(mout), len(mops), len(post))
        for mo, (k, f) in zip(mout, post):
            if f is None:
                continue
            p = f(mo)
            if p:
                prob(k, p.pop("clause"), p.pop("what"), p.pop("found"), **p)
    return problems


# ---------------------------------------------------------------------------------------------
# generators
DYADIC = [x / 8 for x in range(-64, 65)]


def gen_value(rng, style, fdt):
    if fdt.startswith("int"):
        return rng.randint(-6, 6)
    if style == "small":
        v = rng.choice(DYADIC)
        if v == 0 and rng.random() < 0.5:
            v = -0.0
    elif style == "wild":
        e = rng.randint(-18, 18) if fdt == "float64" else rng.randint(-9, 9)
        v = rng.uniform(-1, 1) * 10.0 ** e
    else:  # extreme
        if fdt == "float64":
            v = rng.choice([1.7976931348623157e308, -1.7976931348623157e308, 5e-324, -5e-324, 2.2250738585072014e-308, 1e300, -1e300, 0.0, -0.0, 1.0])
        else:
            v = rng.choice([3.4028234663852886e38, -3.4028234663852886e38, 1.401298464324817e-45, -1.401298464324817e-45, 0.0, -0.0, 1.0, 16777216.0, 16777218.0])
    return float(np.dtype(fdt).type(v))


def gen_column(rng, n, fdt, small_only=False):
    style = rng.choice(["small", "small", "wild"]) if not small_only else "small"
    if n <= 6 and not small_only and rng.random() < 0.08:
        style = "extreme"
    mode = rng.choice(["ties", "ties", "mixed", "mixed", "distinct", "equal", "sorted", "rsorted"])
    pool = [gen_value(rng, style, fdt) for _ in range(rng.choice([1, 2, 2, 3, 4]))]
    if mode == "ties":
        col = [rng.choice(pool) for _ in range(n)]
    elif mode == "mixed":
        col = [rng.choice(pool) if rng.random() < 0.5 else gen_value(rng, style, fdt) for _ in range(n)]
    elif mode == "equal":
        col = [pool[0]] * n
    else:
        col = [gen_value(rng, style, fdt) for _ in range(n)]
        if mode == "sorted":
            col.sort()
        elif mode == "rsorted":
            col.sort(reverse=True)
    return col


def gen_status(rng, n):
    mode = rng.random()
    if mode < 0.08:
        return [rng.choice([0, 1, 2])] * n
    if mode < 0.3:
        a, b = rng.sample([0, 1, 2], 2)
        return [rng.choice([a, b]) for _ in range(n)]
    if mode < 0.4:  # status order agrees with nothing in particular: blocks
        return sorted(rng.choice([0, 1, 2]) for _ in range(n))
    return [rng.choice([0, 1, 2]) for _ in range(n)]


def gen_measures(rng, n, d, fdt, dir_mode):
    """dir_mode 'exact': small dyadic direction -> small dyadic measures (exact dot product);
    'drawn': arbitrary float direction -> signed one-hot power-of-two rows (exact), sometimes general rows (rounded)"""
    if fdt.startswith("int"):
        pool = [[rng.randint(-4, 4) for _ in range(d)] for _ in range(rng.choice([1, 2, 3, 5]))]
        return [list(rng.choice(pool)) if rng.random() < 0.6 else [rng.randint(-4, 4) for _ in range(d)] for _ in range(n)]
    if dir_mode == "drawn" and rng.random() < 0.75:
        def row():
            r = [0.0] * d
            r[rng.randrange(d)] = rng.choice([-1, 1]) * 2.0 ** rng.randint(-2, 2)
            return r
        pool = [row() for _ in range(rng.choice([1, 2, 3]))]
        return [list(rng.choice(pool)) if rng.random() < 0.5 else row() for _ in range(n)]
    vals = [x / 8 for x in range(-16, 17)]
    pool = [[rng.choice(vals) for _ in range(d)] for _ in range(rng.choice([1, 2, 3, 5]))]
    return [list(rng.choice(pool)) if rng.random() < 0.5 else [rng.choice(vals) for _ in range(d)] for _ in range(n)]


def gen_rank(rng, tier, d, dir_mode, n=None):
    if n is None:
        r = rng.random()
        if r < 0.03:
            n = 0
        elif r < 0.10:
            n = 1
        elif r < 0.16:
            n = 2
        elif tier == "thorough" and r < 0.20:
            n = rng.randint(41, 200)
        else:
            n = rng.randint(3, 40)
    fdt = rng.choice(["float64"] * 11 + ["float32"] * 6 + ["int64"] * 2)
    cont = "list" if rng.random() < 0.12 else "array"
    sdt = rng.choice(INT_DTYPES)
    if rng.random() < 0.12:
        # the ranking keys as unsigned integers or booleans (counts, success flags): still ordered best-first by their VALUE
        odt = rng.choice(["uint8", "uint16", "uint64", "bool"])
        top = 1 if odt == "bool" else 6
        keys = lambda: [rng.randint(0, top) for _ in range(n)]
        return {"op": "rank", "n": n, "fdtype": fdt, "odtype": odt, "sdtype": sdt, "container": "array",
                "objective": keys(), "value": keys(), "novelty": keys(),
                "density": gen_column(rng, n, fdt if not fdt.startswith("int") else "float64"),
                "status": gen_status(rng, n), "measures": gen_measures(rng, n, d, fdt, dir_mode), "all_fields": rng.random() < 0.3}
    return {"op": "rank", "n": n, "fdtype": fdt, "sdtype": sdt, "container": cont,
            "objective": gen_column(rng, n, fdt), "value": gen_column(rng, n, fdt), "novelty": gen_column(rng, n, fdt),
            "density": gen_column(rng, n, fdt if not fdt.startswith("int") else "float64"),
            "status": gen_status(rng, n), "measures": gen_measures(rng, n, d, fdt, dir_mode),
            "all_fields": rng.random() < 0.3}


def gen_ranges(rng, d):
    mode = rng.random()
    out = []
    for _ in range(d):
        if mode < 0.5:       # power-of-two widths: z * range is exact
            lo = rng.randint(-8, 8) / 4
            out.append([lo, lo + 2.0 ** rng.randint(-2, 3)])
        elif mode < 0.85:    # dyadic: subtraction exact, one rounding in the product
            lo = rng.randint(-40, 40) / 8
            out.append([lo, lo + rng.randint(1, 80) / 8])
        else:                # arbitrary floats
            lo = rng.uniform(-3, 3)
            out.append([lo, lo + rng.uniform(0.01, 5)])
    return out


def gen_case(rng, tier):
    cls = rng.choice(sorted(KINDS))
    kind = KINDS[cls]
    d = rng.choice([1, 2, 2, 3, 4])
    if kind == 7:
        atype = "density" if rng.random() < 0.92 else rng.choice(["plain", "none"])
    elif kind in RDK:
        atype = rng.choice(["grid", "grid", "cvt", "sliding", "proximity"])
    else:
        atype = rng.choice(["grid", "cvt", "sliding", "proximity", "none"])
    arch = {"type": atype, "dim": d, "ranges": gen_ranges(rng, d), "dtype": rng.choice(["float64", "float64", "float32"]),
            "fill": rng.randrange(1 << 30), "n_fill": rng.choice([0, 1, 3, 6]), "spy": rng.random() < 0.3 and atype != "none"}
    if arch["dtype"] == "float32":
        arch["ranges"] = [[float(np.float32(a)), float(np.float32(b))] for a, b in arch["ranges"]]
    if atype == "proximity" and rng.random() < 0.3:
        arch["flat"] = True
    seed = [rng.choice(["int", "int", "ss"]), rng.randrange(1 << 31)]
    ops = []
    if kind in RDK:
        dir_mode = None
        if rng.random() < 0.12:
            ops.append(gen_rank(rng, tier, d, "exact", n=rng.choice([0, 1, 3])))   # before any reset: RuntimeError
        for _ in range(rng.randint(2, 6)):
            r = rng.random()
            if dir_mode is None or r < 0.25:
                if dir_mode is None and rng.random() < 0.35 or dir_mode is not None and rng.random() < 0.4:
                    ops.append({"op": "set_dir", "dir": [rng.choice([-2.0, -1.0, -0.5, 0.0, 0.25, 0.5, 1.0, 1.0, 2.0, 3.0]) for _ in range(d)],
                                "dtype": rng.choice(["float64", "float64", "float32"]), "container": rng.choice(["list", "array"])})
                    dir_mode = "exact"
                else:
                    if atype == "proximity" and dir_mode is not None and rng.random() < 0.6:
                        ops.append({"op": "grow", "by": rng.choice([1, 2, 5])})   # the archive's measure ranges change between two resets
                    ops.append({"op": "reset"})
                    dir_mode = "drawn"
            else:
                ops.append(gen_rank(rng, tier, d, dir_mode))
        if ops[-1]["op"] != "rank":
            ops.append(gen_rank(rng, tier, d, dir_mode))
        if rng.random() < 0.5:   # a reset after ranks: the stream must not have been consumed by rank
            if atype == "proximity":
                ops.append({"op": "grow", "by": rng.choice([1, 3])})
            ops.append({"op": "reset"})
            ops.append(gen_rank(rng, tier, d, "drawn"))
    else:
        if rng.random() < 0.2 and atype != "none":
            ops.append({"op": "reset"})
        for _ in range(rng.randint(1, 3)):
            ops.append(gen_rank(rng, tier, d, "exact"))
            if rng.random() < 0.1 and atype != "none":
                ops.append({"op": "reset"})
    return {"cls": cls, "seed": seed, "archive": arch, "ops": ops}


def systematic_cases():
    """every status vector in {0,1,2}^n x key vector in {-1,0,1}^n, n <= 3, for the two-stage rankers;
    every key vector in {-1,0,1}^n, n <= 4, for the one-stage ones"""
    import itertools
    arch = {"type": "grid", "dim": 1, "ranges": [[0.0, 1.0]], "dtype": "float64", "fill": 1, "n_fill": 2, "spy": False}
    for cls, kind in sorted(KINDS.items()):
        a = dict(arch, type="density") if kind == 7 else arch
        nmax = 3 if kind in TWO else 4
        for n in range(1, nmax + 1):
            ops = [{"op": "set_dir", "dir": [1.0], "dtype": "float64", "container": "list"}] if kind in RDK else []
            for keys in itertools.product([-1.0, 0.0, 1.0], repeat=n):
                for sts in (itertools.product([0, 1, 2], repeat=n) if kind in TWO else [(0,) * n]):
                    ops.append({"op": "rank", "n": n, "fdtype": "float64", "sdtype": "int32", "container": "array",
                                "objective": list(keys), "value": list(keys), "novelty": list(keys), "density": list(keys),
                                "status": list(sts), "measures": [[x] for x in keys], "all_fields": False})
                    if len(ops) >= 60:
                        yield {"cls": cls, "seed": ["int", 1], "archive": a, "ops": ops}
                        ops = [{"op": "set_dir", "dir": [1.0], "dtype": "float64", "container": "list"}] if kind in RDK else []
            if len(ops) > (1 if kind in RDK else 0):
                yield {"cls": cls, "seed": ["int", 1], "archive": a, "ops": ops}


def rank_nontrivial(kind, op):
    """a rank whose outcome distinguishes the documented order from plausible wrong ones"""
    n = op["n"]
    if n < 3:
        return False
    key = {0: "value", 1: "value", 4: "objective", 5: "objective", 6: "novelty", 7: "density"}.get(kind)
    if key is None:
        keys = [tuple(r) for r in op["measures"]]
        tie = len(set(keys)) < n
        unsorted_ = True
    else:
        col = op[key]
        tie = len(set(col)) < n
        unsorted_ = col != sorted(col) and col != sorted(col, reverse=True)
    if kind in TWO:
        s = op["status"]
        if len(set(s)) < 2:
            return False
        if key is not None:
            col = op[key]
            inv = any(s[a] > s[b] and col[a] < col[b] for a in range(n) for b in range(n))
            return tie and inv
        return tie
    return tie and unsorted_


def nontrivial(case):
    kind = KINDS[case["cls"]]
    return any(o["op"] == "rank" and rank_nontrivial(kind, o) for o in case["ops"])


# ---------------------------------------------------------------------------------------------
def drop_row(op, j):
    o = dict(op)
    o["n"] = op["n"] - 1
    for f in ("objective", "value", "novelty", "density", "status", "measures"):
        o[f] = op[f][:j] + op[f][j + 1:]
    return o


def shrink(case, driver, clause):
    def fails(c):
        try:
            return any(p["clause"] == clause for p in run_case(c, driver))
        except Exception:  # noqa
            return False
    ops = list(case["ops"])
    changed = True
    while changed and len(ops) > 1:
        changed = False
        for k in range(len(ops)):
            cand = dict(case, ops=ops[:k] + ops[k + 1:])
            if fails(cand):
                ops = cand["ops"]
                changed = True
                break
    for k in range(len(ops)):
        if ops[k]["op"] != "rank":
            continue
        changed = True
        while changed and ops[k]["n"] > 0:
            changed = False
            for j in range(ops[k]["n"]):
                cand_ops = ops[:k] + [drop_row(ops[k], j)] + ops[k + 1:]
                if fails(dict(case, ops=cand_ops)):
                    ops = cand_ops
                    changed = True
                    break
    small = dict(case, ops=ops)
    if small["archive"].get("spy") and fails(dict(small, archive=dict(small["archive"], spy=False))):
        small = dict(small, archive=dict(small["archive"], spy=False))
    return small


def report(rep, case, problems, driver):
    p0 = sorted(problems, key=lambda p: (not p["found"], p["op"]))[0]
    small = shrink(case, driver, p0["clause"])
    trace = []
    try:
        ps = [p for p in run_case(small, driver, trace=trace) if p["clause"] == p0["clause"]] or [p0]
    except Exception:  # noqa
        small, ps = case, [p0]
    found = any(p["found"] for p in ps) or any(p["found"] for p in problems)
    rep.violation("%s: %s" % (case["cls"], ps[0]["what"]),
                  {"kind": "correspondence", "broken": ps[0]["theorem"], "case": small, "outputs": trace, "problems": ps[:5],
                   "original_problems": [dict(p, detail=None) for p in problems[:5]],
                   "theorems_at_stake": sorted({p["theorem"] for p in problems})},
                  found, {"kind": "ranker-" + p0["clause"], "cls": case["cls"]})


def failed_reset_probe(rep, rng):
    """'keeps its direction until reset, when it draws a new one scaled to the archive's measure ranges': a reset() that RAISES (the bounds
    of an empty ProximityArchive are undefined, e.g. right after clear()) is no reset -- the direction stays what it was, and the next
    successful reset gives the direction an undisturbed twin (same seed) gets from its next reset"""
    import ribs.emitters.rankers as R
    from ribs.archives import ProximityArchive
    for cls in (R.RandomDirectionRanker, R.TwoStageRandomDirectionRanker):
        sd = rng.randrange(1 << 30)
        a = ProximityArchive(solution_dim=1, measure_dim=2, k_neighbors=1, novelty_threshold=0.1)
        a.add([[0.0], [1.0]], [0.0, 1.0], [[0.0, 0.0], [2.0, 1.0]])
        r, twin = cls(seed=sd), cls(seed=sd)
        r.reset(None, a)
        twin.reset(None, a)
        d1 = np.array(r.target_measure_dir, copy=True)
        a.clear()
        rep.count("failed_reset_probes")
        try:
            r.reset(None, a)
            continue        # an implementation that defines bounds for the empty archive: nothing to observe
        except Exception:  # noqa
            pass
        kept = np.array(r.target_measure_dir, copy=True)
        a.add([[0.0], [1.0]], [0.0, 1.0], [[0.0, 0.0], [2.0, 1.0]])
        r.reset(None, a)
        twin.reset(None, a)
        problem = None
        if not np.array_equal(kept, d1):
            problem = "after a reset() that raised (empty ProximityArchive) the direction changed from %s to %s" % (d1.tolist(), kept.tolist())
        elif not np.array_equal(np.asarray(r.target_measure_dir), np.asarray(twin.target_measure_dir)):
            problem = ("after a reset() that raised, the next successful reset gives %s, an undisturbed twin (same seed, same archive) gives %s"
                       % (np.asarray(r.target_measure_dir).tolist(), np.asarray(twin.target_measure_dir).tolist()))
        if problem:
            rep.violation("%s: %s" % (cls.__name__, problem), {"kind": "property", "broken": "a random-direction ranker keeps its direction until reset",
                                                              "ranker": cls.__name__, "seed": sd}, True, {"kind": "failed-reset-not-atomic"})
            return


def deferred_draw_probe(rep, rng):
    """reset() draws the new direction THEN: a direction assigned after a reset is the one rank() uses (nothing pending overwrites it), and two
    resets in a row are two draws -- checked WITHOUT reading target_measure_dir in between (a read could trigger a postponed draw)"""
    import ribs.emitters.rankers as R
    from ribs.archives import GridArchive
    for cls in (R.RandomDirectionRanker, R.TwoStageRandomDirectionRanker):
        sd = rng.randrange(1 << 30)
        a = GridArchive(solution_dim=1, dims=[4, 4], ranges=[(-1.0, 1.0), (0.0, 4.0)])
        data = {"solution": np.zeros((5, 1)), "objective": np.arange(5.0), "measures": np.array([[0.1, 3.0], [-0.5, 1.0], [0.9, 0.5], [0.0, 2.0], [-0.9, 3.5]])}
        info = {"status": np.array([2, 2, 0, 1, 2]), "value": np.arange(5.0)}
        v = np.array([rng.choice([-2.0, 1.0, 3.0]), rng.choice([-1.0, 0.5, 2.0])])
        r, ref = cls(seed=sd), cls(seed=sd + 1)
        r.reset(None, a)
        r.target_measure_dir = v.copy()
        got = r.rank(None, a, data, info)
        ref.target_measure_dir = v.copy()
        want = ref.rank(None, a, data, info)
        rep.count("deferred_draw_probes")
        problem = None
        if not (np.array_equal(np.asarray(got[0]), np.asarray(want[0])) and np.array_equal(np.asarray(got[1]), np.asarray(want[1]))):
            problem = "reset(); target_measure_dir = %s; rank(...) ranks %s, a ranker that was only given the direction ranks %s" % (
                v.tolist(), np.asarray(got[0]).tolist(), np.asarray(want[0]).tolist())
        else:
            r2, twin = cls(seed=sd), cls(seed=sd)
            r2.reset(None, a)
            r2.reset(None, a)
            twin.reset(None, a)
            np.asarray(twin.target_measure_dir)
            twin.reset(None, a)
            if not np.array_equal(np.asarray(r2.target_measure_dir), np.asarray(twin.target_measure_dir)):
                problem = "two resets in a row end on %s; resetting, looking at the direction and resetting again (same seed) ends on %s" % (
                    np.asarray(r2.target_measure_dir).tolist(), np.asarray(twin.target_measure_dir).tolist())
        if problem:
            rep.violation("%s: %s" % (cls.__name__, problem), {"kind": "property", "broken": "a random-direction ranker draws its new direction when it is reset and ranks by its current direction",
                                                              "ranker": cls.__name__, "seed": sd, "direction": v.tolist()}, True, {"kind": "deferred-direction-draw"})
            return


def check(rep, tier, seed, driver):
    py2v_rank.report(rep)
    import ribs.emitters.rankers as R
    rng = random.Random(seed)
    failed_reset_probe(rep, random.Random(seed + 5))
    deferred_draw_probe(rep, random.Random(seed + 6))
    n_cases = 700 if tier == "quick" else 20000
    rep.rule = ("histories (reset / target_measure_dir setter / rank) on one ranker object per case, over every ranker class exported by "
                "ribs.emitters.rankers, archives Grid/CVT/SlidingBoundaries/Proximity (+ a GridArchive subclass with compute_density, + a "
                "recording proxy), batch sizes 0..40 (thorough: ..200), float64/float32/int64 columns and python lists, status arrays of every "
                "integer dtype; value columns drawn with heavy ties / all-equal / sorted / negative / -0.0 / extreme magnitudes; measures chosen "
                "so that projections are exact (verified with Fractions), otherwise numpy's projections are supplied to the model; thorough adds "
                "every (status, key) combination over {0,1,2}x{-1,0,1} up to n=3. A case is non-trivial when it has a rank with n>=3, an exact "
                "key tie, keys not already sorted and, for two-stage rankers, >=2 distinct statuses with a status/key inversion; distinct by hash")
    exported = [c for c in R.__all__ if c != "RankerBase"]
    for c in exported:
        if c not in KINDS:
            rep.violation("ranker class %s is exported by ribs.emitters.rankers but unknown to the model" % c,
                          {"kind": "correspondence", "broken": "Model/Ranker.v kind inventory", "class": c}, False, {"kind": "ranker-inventory"})
    for c in KINDS:
        if c not in exported:
            rep.violation("ranker class %s of the model is no longer exported" % c,
                          {"kind": "correspondence", "broken": "Model/Ranker.v kind inventory", "class": c}, False, {"kind": "ranker-inventory"})
    cases = []
    cdir = os.path.join(CORPUS, "C17")
    if os.path.isdir(cdir):
        for f in sorted(os.listdir(cdir)):
            cases.append(json.load(open(os.path.join(cdir, f))))
    rep.count("corpus_cases", len(cases))
    if tier == "thorough":
        sysc = list(systematic_cases())
        rep.count("systematic_cases", len(sysc))
        cases += sysc
    cases += [gen_case(rng, tier) for _ in range(n_cases)]
    stats = {}
    for case in cases:
        if case["cls"] not in exported:
            continue
        kind = KINDS[case["cls"]]
        rep.count("cls_" + case["cls"])
        rep.count("archive_" + case["archive"]["type"] + ("_spy" if case["archive"].get("spy") else ""))
        for o in case["ops"]:
            rep.count("op_" + o["op"])
            if o["op"] == "rank":
                n = o["n"]
                rep.count("n_%s" % (n if n <= 2 else "3-16" if n <= 16 else "17-40" if n <= 40 else "41+"))
                rep.count("fdtype_" + o["fdtype"])
                rep.count("sdtype_" + o["sdtype"])
                rep.count("container_" + o["container"])
                if rank_nontrivial(kind, o):
                    rep.count("rank_nontrivial")
        try:
            problems = run_case(case, driver, stats)
        except Exception as e:  # noqa
            import traceback
            problems = [{"op": -1, "clause": "harness", "what": "harness exception %r" % (e,), "found": False, "theorem": "harness",
                         "detail": {"trace": traceback.format_exc()}}]
        nt = nontrivial(case)
        rep.case(case, nt, sample=case if nt and len(case["ops"]) <= 3 and all(o.get("n", 0) <= 8 for o in case["ops"]) else None)
        if problems:
            if problems[0]["clause"] == "harness":
                rep.violation(problems[0]["what"], {"kind": "harness-crash", "case": case, "problems": problems}, False, {"kind": "crash"})
            else:
                report(rep, case, problems, driver)
            if len(rep.violations) >= 3:
                break
    for k, v in stats.items():
        rep.count(k, v)
    # generator floors: the interesting classes must actually occur
    if not rep.violations:
        floors = {"rank_nontrivial": 100, "proj_exact": 50, "reset_rd": 50, "equal_projection_of_distinct_rows": 20,
                  "malformed_rank_before_reset": 3, "n_1": 20, "n_0": 5, "fdtype_float32": 50, "container_list": 20}
        for k, v in floors.items():
            if rep.hist.get(k, 0) < v:
                rep.violation("generator degenerate: %s = %d < %d" % (k, rep.hist.get(k, 0), v), {"kind": "generator", "hist": rep.hist}, False,
                              {"kind": "generator"})


def replay(rp, driver):
    problems = run_case(rp["case"], driver)
    for p in problems:
        print("op %d [%s] %s" % (p["op"], p["theorem"], p["what"]))
    print("replay: %d problem(s)" % len(problems))
    return 1 if problems else 0
