"""Shared harness code for the archive-core properties (C01, C02, C05, C06, C07, C11):
archive factories, candidate encoding (id -> every field), implementation runner, model runner
(whole-history and step-wise simulation), comparison, shrinking."""
import math
import random
from fractions import Fraction

import numpy as np

from common import err_code

DT = {"f": np.float32, "d": np.float64}


def F(x):
    x = float(x)
    return Fraction(x) if math.isfinite(x) else x


def fl(fr, dtype):
    """correctly rounded value of an exact rational in dtype (double rounding through float64 is innocuous
    for a single +,-,*,/ of float32 operands since 53 >= 2*24+2)"""
    if fr is None:
        return None
    try:
        v = float(fr)
    except OverflowError:
        v = math.inf if fr > 0 else -math.inf
    with np.errstate(over="ignore"):
        return dtype(v)


def sf(x):
    try:
        return float(x)
    except OverflowError:
        return math.inf if x > 0 else -math.inf


def ulp(x, dtype):
    try:
        x = abs(float(x))
    except OverflowError:
        x = math.inf
    x = min(x, float(np.finfo(dtype).max))
    if x == 0 or not math.isfinite(x):
        return float(np.finfo(dtype).tiny)
    xv = dtype(x)
    return float(xv) - float(np.nextafter(xv, dtype(0)))   # distance towards zero (finite even at the largest float)


# ---------------------------------------------------------------------------------------------
# archive specs
EXTRA_LAYOUTS = [[], ["es"], ["ev"], ["eo"], ["es", "ev", "eo"]]


def extra_fields(names):
    d = {}
    for n in names:
        if n == "es":
            d["es"] = ((), np.float64)
        elif n == "ev":
            d["ev"] = ((2,), np.int64)
        elif n == "eo":
            d["eo"] = ((), object)
    return d


def gen_spec(rng, kinds=("grid", "cvt", "cvt_brute", "cvt_chunk", "sliding"), cma=False, dtypes=("f", "d"), max_cells=64, allow_odtype=False):
    kind = rng.choice(kinds)
    spec = {"kind": kind, "dtype": rng.choice(dtypes), "sol_dim": rng.randint(1, 3), "extras": rng.choice(EXTRA_LAYOUTS),
            "lr": None, "tmin": None, "offset": rng.choice([0.0, 0.0, -2.0, 1.5, -100.0])}
    if kind in ("grid", "sliding"):
        nd = rng.choice([1, 1, 2, 2, 3, 4])
        dims = []
        for _ in range(nd):
            dims.append(rng.choice([1, 2, 3, 4, 5, 7]))
        while np.prod(dims) > max_cells:
            dims[rng.randrange(nd)] = 1
        spec["dims"] = dims
        spec["ranges"] = [[-1.0, 1.0] if rng.random() < 0.5 else [rng.choice([-8.0, 0.0, 0.25]), rng.choice([8.5, 16.0, 100.0])] for _ in range(nd)]
        if kind == "sliding":
            spec["remap_frequency"] = 10 ** 9
            spec["buffer_capacity"] = rng.choice([1, 3, 1000])
    else:
        cells = rng.choice([1, 2, 3, 5, 8, 13, 30])
        nd = rng.choice([1, 2, 2, 3])
        spec["cells"] = cells
        spec["ranges"] = [[-1.0, 1.0]] * nd
        crng = random.Random(rng.randrange(1 << 30))
        cents = [[crng.randrange(-8, 9) / 8.0 for _ in range(nd)] for _ in range(cells)]
        spec["centroids"] = cents
        if kind == "cvt_chunk":
            spec["chunk_size"] = rng.choice([1, 2, 3])
    if cma and kind != "sliding":
        spec["lr"] = rng.choice([0.0, 0.25, 0.5, 0.75, 1.0, 0.1, 0.3])
        spec["tmin"] = rng.choice([-4.0, 0.0, 1.5, -100.0])
    spec["seed"] = rng.randrange(1 << 30)
    if allow_odtype and kind != "sliding" and rng.random() < 0.25:
        # the dict form of `dtype`: the objective (and with it the threshold) in the OTHER float type than solution / measures
        spec["odtype"] = "d" if spec["dtype"] == "f" else "f"
    if rng.random() < 0.3:
        spec["reuse"] = rng.randrange(1, 1 << 30)      # see reuse_buffers
    if kind != "sliding" and rng.random() < 0.15:
        spec["bogus_threshold"] = True
    if rng.random() < 0.35:
        # lifecycle: before every [every]-th operation the live archive is replaced by a copy of itself (copy.deepcopy / pickle round trip);
        # a copy must behave exactly like the original from then on (no model operation corresponds to it)
        spec["relay"] = {"how": rng.choice(["deepcopy", "pickle", "fork-deepcopy", "fork-pickle"]), "every": rng.choice([1, 2, 3, 5])}
    return spec


DECOYS = []     # archives with OTHER settings that stay alive next to the archive under test (settings are per instance, never per class)


def relay(archive, spec, step):
    """the archive to continue with at operation number [step]"""
    r = spec.get("relay")
    if not r or step == 0 or step % r["every"] != 0:
        return archive
    import copy
    import pickle
    how = r["how"]
    twin = copy.deepcopy(archive) if how.endswith("deepcopy") else pickle.loads(pickle.dumps(archive))
    if not how.startswith("fork-"):
        return twin
    # fork: the COPY goes its own way (a burst of far-away additions, then clear) and is dropped; the original must not notice
    try:
        nd = measure_dim(spec)
        for j in range(12):
            twin.add_single(**single_args(dict(spec, reuse=None), [900000 + j, 50.0 + j, [(-1) ** j * (3.0 + j)] * nd]))
        twin.clear()
    except Exception:  # noqa   (whatever the copy does is its own business)
        pass
    return archive


def make_archive(spec):
    archive = _make_archive(spec)
    if spec.get("decoy", True) and spec["kind"] == "sliding" and spec.get("remap_frequency", 10 ** 9) <= 64:
        # an archive with the SAME configuration that lives next to this one and remaps at once (the usual archive + result-archive pair):
        # whatever the two constructors may share, this one's boundaries are its own
        try:
            twin = _make_archive(spec)
            nd = measure_dim(spec)
            for j in range(2 * spec["remap_frequency"] + 2):
                twin.add_single(**single_args(dict(spec, reuse=None), [800000 + j, float(j), [(-1) ** j * (7.0 + 3 * j)] * nd]))
            DECOYS.append(twin)
            del DECOYS[:-3]
        except Exception:  # noqa
            pass
    if spec.get("decoy", True):
        try:
            d = dict(spec, dtype="d" if spec["dtype"] == "f" else "f", offset=spec["offset"] + 3.0, seed=spec["seed"] + 1, odtype=None)
            if spec["kind"] != "sliding":
                d["lr"], d["tmin"] = (None, None) if spec.get("tmin") is not None else (0.25, -7.0)
            DECOYS.append(_make_archive(d))
            del DECOYS[:-3]
        except Exception:  # noqa   (a decoy the library rejects is no decoy)
            pass
    return archive


def _make_archive(spec):
    from ribs.archives import CVTArchive, GridArchive, SlidingBoundariesArchive
    dtype = DT[spec["dtype"]]
    ef = extra_fields(spec["extras"]) or None
    adt = dtype
    if spec.get("odtype"):
        # per-field dtypes (the dict form of `dtype`): objective (and with it threshold) in another float type than solution / measures
        adt = {"solution": dtype, "objective": DT[spec["odtype"]], "measures": dtype}
    kw = dict(solution_dim=spec["sol_dim"], qd_score_offset=spec["offset"], seed=spec["seed"], dtype=adt, extra_fields=ef)
    if spec["kind"] != "sliding" and spec.get("tmin") is not None:
        kw["learning_rate"] = spec["lr"]
        kw["threshold_min"] = spec["tmin"]
    if spec["kind"] == "grid":
        return GridArchive(dims=spec["dims"], ranges=[tuple(r) for r in spec["ranges"]], **kw)
    if spec["kind"] == "sliding":
        return SlidingBoundariesArchive(dims=spec["dims"], ranges=[tuple(r) for r in spec["ranges"]],
                                        remap_frequency=spec["remap_frequency"], buffer_capacity=spec["buffer_capacity"], **kw)
    cents = np.array(spec["centroids"], dtype=dtype)
    return CVTArchive(cells=spec["cells"], ranges=[tuple(r) for r in spec["ranges"]], custom_centroids=cents,
                      use_kd_tree=(spec["kind"] == "cvt"), chunk_size=spec.get("chunk_size"), **kw)


def n_cells(spec):
    return int(np.prod(spec["dims"])) if "dims" in spec else spec["cells"]


def measure_dim(spec):
    return len(spec["ranges"])


# ---------------------------------------------------------------------------------------------
# candidate encoding: the id is written redundantly into solution and every extra field
def enc_solution(i, sol_dim):
    return [float(i), float(-i), i / 2.0][:sol_dim]


def enc_extra(name, i):
    if name == "es":
        return float(2 * i + 1)
    if name == "ev":
        return [i, i + 7]
    if name == "eo":
        return {"o": int(i)}
    raise KeyError(name)


def batch_arrays(spec, cands, container="nd"):
    """cands: list of [id, objective(float), measures(list of float)] -> kwargs for archive.add"""
    dtype = DT[spec["dtype"]]
    n = len(cands)
    sol = np.array([enc_solution(c[0], spec["sol_dim"]) for c in cands], dtype=dtype).reshape(n, spec["sol_dim"])
    obj = np.array([c[1] for c in cands], dtype=DT[spec.get("odtype") or spec["dtype"]])
    mea = np.array([c[2] for c in cands], dtype=dtype).reshape(n, measure_dim(spec))
    if container == "list":
        sol, obj, mea = sol.tolist(), obj.tolist(), mea.tolist()
    elif container in ("f64", "wide"):
        sol, obj, mea = sol.astype(np.float64), obj.astype(np.float64), mea.astype(np.float64)
        if container == "wide" and dtype == np.float32:
            # float64 measures that are not float32 values but round to the intended ones (only for archives that convert first)
            pert = np.array([[1.0 + (2.0 ** -27 if (c[0] + j) % 2 == 0 else -(2.0 ** -27)) for j in range(mea.shape[1])] for c in cands]).reshape(mea.shape)
            wide = mea * pert
            assert np.array_equal(wide.astype(np.float32), mea.astype(np.float32))
            mea = wide
    kw = {"solution": sol, "objective": obj, "measures": mea}
    # keyword order of the extra fields varies from call to call (it must not matter)
    for name in (list(reversed(spec["extras"])) if cands and cands[0][0] % 2 == 1 else spec["extras"]):
        if name == "eo":
            arr = np.empty(n, dtype=object)
            for k, c in enumerate(cands):
                arr[k] = enc_extra(name, c[0])
        else:
            arr = np.array([enc_extra(name, c[0]) for c in cands])
            if name == "ev":
                arr = arr.reshape(n, 2)
        kw[name] = arr
    if spec.get("bogus_threshold") and spec["kind"] != "sliding" and n:
        # callers copy elites between archives with dst.add(**src.data()): a `threshold` keyword is accepted and must be IGNORED
        # (thresholds are the archive's own bookkeeping)
        kw["threshold"] = np.array([1e6 if (c[0] % 2) else -1e6 for c in cands], dtype=DT[spec.get("odtype") or spec["dtype"]])
    if container == "narrow" and spec["dtype"] == "d" and not spec.get("odtype"):
        # a float32 objective array handed to a float64 archive (when every value is a float32 value, so nothing is lost)
        o32 = np.asarray(obj, dtype=np.float64).astype(np.float32)
        if np.array_equal(o32.astype(np.float64), np.asarray(obj, dtype=np.float64)):
            kw["objective"] = o32
    return reuse_buffers(spec, kw, "b") if container == "nd" else kw


_POOL = {}


def reuse_buffers(spec, kw, tag):
    """callers often keep ONE preallocated array per argument and refill it in place between calls (same object, new contents): with
    spec["reuse"] every numeric ndarray argument of a given shape is such a buffer"""
    key0 = spec.get("reuse")
    if not key0:
        return kw
    if len(_POOL) > 4000:
        _POOL.clear()
    out = {}
    for name, v in kw.items():
        if isinstance(v, np.ndarray) and v.dtype != object and v.ndim >= 1:
            key = (key0, tag, name, v.shape, v.dtype.str)
            if key in _POOL:
                _POOL[key][...] = v
                v = _POOL[key]
            else:
                _POOL[key] = v
        out[name] = v
    return out


def single_args(spec, c, container="nd"):
    kw = batch_arrays(dict(spec, reuse=None), [c], "wide" if container == "wide" else "nd")
    out = {k: v[0] for k, v in kw.items()}
    if container == "nd":
        out = reuse_buffers(spec, {k: (np.array(v, copy=True) if isinstance(v, np.ndarray) else v) for k, v in out.items()}, "s")
    if container == "wide":
        out["objective"] = np.float64(out["objective"])
    if container == "list":
        out["solution"] = out["solution"].tolist()
        out["measures"] = out["measures"].tolist()
        out["objective"] = float(out["objective"])
    elif container == "f64":
        out["solution"] = out["solution"].astype(np.float64)
        out["measures"] = out["measures"].astype(np.float64)
        out["objective"] = np.float64(out["objective"])
    return out


def cast_sensitive_measures(arch, spec, rng):
    """a float64 measure vector m with index_of_single(m) != index_of_single(float32(m)), or None: bisect between two points of
    different cells and probe both sides of the crossing at sub-float32-ulp distances"""
    nd = len(spec["ranges"])
    pt = lambda: np.array([rng.uniform(lo, hi) for lo, hi in spec["ranges"]], dtype=np.float64)
    for _ in range(6):
        a, b = pt(), pt()
        if rng.random() < 0.7 and nd > 1:           # cross one border only
            j = rng.randrange(nd)
            b = np.where(np.arange(nd) == j, b, a)
        ia, ib = int(arch.index_of_single(a)), int(arch.index_of_single(b))
        if ia == ib:
            continue
        for _ in range(70):
            mid = (a + b) / 2
            if np.array_equal(mid, a) or np.array_equal(mid, b):
                break
            if int(arch.index_of_single(mid)) == ia:
                a = mid
            else:
                b = mid
        for base in (a, b):
            for k in (0, 1, 3, 10, 100, 1000, 100000):
                m = base + (base - (b if base is a else a)) * k
                if not all(lo <= x <= hi for x, (lo, hi) in zip(m, spec["ranges"])):
                    continue
                i64 = int(arch.index_of_single(m))
                i32 = int(arch.index_of_single(m.astype(np.float32)))
                if i64 != i32:
                    return m
    return None


def decode_elite(spec, fields, table):
    """fields: dict name -> value of ONE elite. Returns id, or ('torn', why)."""
    sol = np.asarray(fields["solution"])
    i = sol.reshape(-1)[0]
    if not np.isfinite(i) or i != int(i):
        return ("torn", "solution[0]=%r" % (i,))
    i = int(i)
    dtype = DT[spec["dtype"]]
    if not np.array_equal(sol, np.array(enc_solution(i, spec["sol_dim"]), dtype=dtype)):
        return ("torn", "solution")
    if i in table and not np.array_equal(np.asarray(fields["measures"]), np.array(table[i][2], dtype=dtype)):
        return ("torn", "measures of %d" % i)
    for name in spec["extras"]:
        v = fields[name]
        e = enc_extra(name, i)
        if name == "eo":
            if v != e:
                return ("torn", name)
        elif not np.array_equal(np.asarray(v), np.asarray(e)):
            return ("torn", name)
    return i


# ---------------------------------------------------------------------------------------------
# observations through the public API
def observe(archive, spec, table):
    """-> dict(rows=[[cell, id, obj Fraction, thr Fraction]...] in data() order, stats=..., best=..., len=...)"""
    d = archive.data()
    n = len(d["index"])
    rows = []
    for k in range(n):
        fields = {name: d[name][k] for name in d if name not in ("index",)}
        rows.append([int(d["index"][k]), decode_elite(spec, fields, table), F(d["objective"][k]), F(d["threshold"][k])])
    st = archive.stats
    stats = {"num": int(st.num_elites), "cov": F(st.coverage), "qd": F(st.qd_score), "norm": F(st.norm_qd_score),
             "max": None if st.obj_max is None else F(st.obj_max), "mean": None if st.obj_mean is None else F(st.obj_mean)}
    be = archive.best_elite
    best = None
    if be is not None:
        best = [int(be["index"]), decode_elite(spec, {k: v for k, v in be.items() if k != "index"}, table), F(be["objective"]), F(be["threshold"])]
    return {"rows": rows, "stats": stats, "best": best, "len": len(archive), "empty": bool(archive.empty)}


def cells_of(archive, spec, cands, measures=None):
    """cells through the public index_of, on exactly the measures object that is passed to add"""
    if not cands:
        return []
    if measures is None:
        dtype = DT[spec["dtype"]]
        measures = np.array([c[2] for c in cands], dtype=dtype).reshape(len(cands), measure_dim(spec))
    return [int(x) for x in archive.index_of(measures)]


def odt(spec):
    """the dtype of objective, threshold, feedback values and statistics (differs from spec["dtype"] for dict-dtype archives)"""
    return DT[spec.get("odtype") or spec["dtype"]]


def model_cfg(spec):
    return [n_cells(spec), [] if spec.get("tmin") is None else [F(odt(spec)(spec["tmin"]))],
            F(odt(spec)(1.0 if spec.get("lr") is None else spec["lr"])), F(odt(spec)(spec["offset"]))]


def mcand(cell, c, spec):
    return [cell, F(odt(spec)(c[1])), c[0]]


def apply_op(archive, spec, op, table, obs=True):
    """applies ONE valid operation to a live archive -> (trace entry, model ops)"""
    mops = []
    ent = {}
    if op[0] == "add":
        cands = op[1]
        for c in cands:
            table[c[0]] = c
        kw = batch_arrays(spec, cands, op[2] if len(op) > 2 else "nd")
        # every archive converts the measures to its dtype before it routes a solution (fix FC07a: the cell is the cell of the STORED measures)
        cells = cells_of(archive, spec, cands, np.asarray(kw["measures"], dtype=DT[spec["dtype"]]))
        try:
            info = archive.add(**kw)
            if not cands and not info:
                # SlidingBoundariesArchive.add returns an empty dict for an empty batch (no rows to report)
                info = {"status": np.array([], dtype=np.int32), "value": np.array([], dtype=odt(spec))}
            ent["ret"] = {"status": [int(x) for x in info["status"]], "value": [F(x) for x in info["value"]],
                          "value_dtype": np.asarray(info["value"]).dtype.name, "keys": sorted(info.keys())}
            if len(cands):
                ent["_raw_info"] = info
        except Exception as e:  # noqa
            ent["ret"] = {"error": err_code(e), "msg": repr(e)}
        if spec["kind"] == "sliding":
            # documented: SlidingBoundariesArchive.add is a loop of add_single, in order
            for cell, c in zip(cells, cands):
                mops.append([1, mcand(cell, c, spec)])
            ent["n_mops"] = len(cands)
        else:
            mops.append([0, [mcand(cell, c, spec) for cell, c in zip(cells, cands)]])
            ent["n_mops"] = 1
        ent["cells"] = cells
    elif op[0] == "add_single":
        c = op[1]
        table[c[0]] = c
        kw = single_args(spec, c, op[2] if len(op) > 2 else "nd")
        cell = int(archive.index_of_single(np.asarray(kw["measures"], dtype=DT[spec["dtype"]])))
        try:
            info = archive.add_single(**kw)
            ent["ret"] = {"status": [int(info["status"])], "value": [F(info["value"])],
                          "value_dtype": np.asarray(info["value"]).dtype.name, "keys": sorted(info.keys())}
            ent["_raw_info"] = info
        except Exception as e:  # noqa
            ent["ret"] = {"error": err_code(e), "msg": repr(e)}
        mops.append([1, mcand(cell, c, spec)])
        ent["n_mops"] = 1
        ent["cells"] = [cell]
    elif op[0] == "clear":
        archive.clear()
        ent["ret"] = {}
        mops.append([2])
        ent["n_mops"] = 1
    else:
        raise AssertionError(op)
    if obs:
        ent["obs"] = observe(archive, spec, table)
        mops.extend([[4], [5]])
    return ent, mops


def run_impl(spec, ops, obs=True):
    """Runs a history on the real archive. ops: ["add", cands, container] | ["add_single", cand, container] | ["clear"].
    Returns (trace, mops, archive, table): trace[k] = dict(ret=..., obs=...), mops = model op list (with cells from index_of)."""
    archive = make_archive(spec)
    table = {}
    trace, mops = [], []
    held = None      # (trace index, the feedback object of the previous add / add_single, what it said when it was returned)
    for step, op in enumerate(ops):
        archive = relay(archive, spec, step)
        ent, m = apply_op(archive, spec, op, table, obs)
        trace.append(ent)
        mops.extend(m)
        # a report belongs to its call: what the previous call handed back must still say the same after this one (callers collect reports)
        if held is not None:
            k0, info0, said = held
            try:
                now = ([int(x) for x in np.asarray(info0["status"]).reshape(-1)], [F(x) for x in np.asarray(info0["value"]).reshape(-1)])
            except Exception as e:  # noqa
                now = repr(e)
            if now != said and "error" not in trace[k0]["ret"]:
                trace[k0]["ret"] = {"error": "feedback-changed", "msg": "the feedback returned by operation %d reads %s after operation %d (it read %s when it was returned)" % (
                    k0, str(now)[:120], step, str(said)[:120])}
        raw = ent.pop("_raw_info", None)
        held = None if raw is None else (len(trace) - 1, raw, ([int(x) for x in np.asarray(raw["status"]).reshape(-1)], [F(x) for x in np.asarray(raw["value"]).reshape(-1)]))
    return trace, mops, archive, table


def model_outputs(driver, spec, mops):
    return driver.call("ARCH", [model_cfg(spec), mops])


def uq(p):
    return Fraction(p[0], p[1])


def decode_model_rows(out):
    """(4) output: list of (i (opt row)) -> [[cell, id, obj, thr]]"""
    res = []
    for i, r in out:
        r = r[0]
        res.append([i, r[2], uq(r[0]), uq(r[1])])
    return res


def decode_model_stats(out):
    num, cov, qd, norm, mx, mean, best, sm, ln = out
    b = None
    if best:
        i, r = best[0]
        b = [i, r[2], uq(r[0]), uq(r[1])]
    return {"num": num, "cov": uq(cov), "qd": uq(qd), "norm": uq(norm), "max": uq(mx[0]) if mx else None,
            "mean": uq(mean[0]) if mean else None}, b, uq(sm), ln


def near(a, b, dtype, scale, ulps):
    """|a-b| <= ulps * ulp(scale) in dtype (exact rationals)"""
    if a is None or b is None:
        return a is None and b is None
    if isinstance(a, float) or isinstance(b, float):   # non-finite in the implementation's dtype
        return a == b
    if a == b:
        return True
    u = ulp(max(abs(sf(scale)), abs(sf(a)), abs(sf(b))), dtype)
    if not math.isfinite(u):
        return False
    return abs(a - b) <= Fraction(ulps * ulp(max(abs(float(scale)), abs(float(a)), abs(float(b))), dtype))


def compare_history(driver, spec, ops, exact_values=True, stats_mode="exact", check_value=True):
    """Whole-history comparison (mode A). Returns None or a disagreement dict.
    exact_values: thresholds / objectives compared exactly.
    stats_mode: 'exact' | 'rounded' (each statistic within 4 ulp of the model's exact value, scale = sum of |objectives|) | 'none'."""
    trace, mops, archive, table = run_impl(spec, ops)
    return compare_trace(driver, spec, ops, trace, mops, exact_values, stats_mode, check_value)


def compare_trace(driver, spec, ops, trace, mops, exact_values=True, stats_mode="exact", check_value=True):
    """compares an implementation trace (as produced by run_impl for the valid operations `ops`) with the model run on `mops`"""
    mout = model_outputs(driver, spec, mops)
    dtype = odt(spec)
    k = 0
    for step, (op, ent) in enumerate(zip(ops, trace)):
        # returned feedback
        rets = mout[k:k + ent["n_mops"]]
        k += ent["n_mops"]
        if op[0] in ("add", "add_single"):
            if "error" in ent["ret"]:
                return {"step": step, "what": "valid call raised", "impl": ent["ret"]}
            if op[0] == "add" and spec["kind"] != "sliding":
                mst, mval = rets[0][0], [uq(v) for v in rets[0][1]]
            else:
                mst, mval = [r[0] for r in rets], [uq(r[1]) for r in rets]
            if mst != ent["ret"]["status"]:
                return {"step": step, "what": "status", "model": mst, "impl": ent["ret"]["status"]}
            if check_value:
                vdt = np.dtype(ent["ret"]["value_dtype"]).type
                for j, (mv, iv) in enumerate(zip(mval, ent["ret"]["value"])):
                    exp = F(fl(mv, vdt))
                    if exp != iv:
                        return {"step": step, "what": "value[%d]" % j, "model_exact": str(mv), "model_rounded": float(exp), "impl": float(iv)}
            if len(mval) != len(ent["ret"]["value"]):
                return {"step": step, "what": "feedback length", "model": len(mval), "impl": len(ent["ret"]["value"])}
        mrows = decode_model_rows(mout[k])
        mstats, mbest, msum, mlen = decode_model_stats(mout[k + 1])
        k += 2
        o = ent["obs"]
        if [r[:2] for r in mrows] != [r[:2] for r in o["rows"]]:
            return {"step": step, "what": "contents (cell,id) in data() order", "model": [r[:2] for r in mrows], "impl": [r[:2] for r in o["rows"]]}
        for mr, ir in zip(mrows, o["rows"]):
            if mr[2] != ir[2]:
                return {"step": step, "what": "stored objective", "cell": mr[0], "model": float(mr[2]), "impl": float(ir[2])}
            if exact_values and mr[3] != ir[3]:
                return {"step": step, "what": "stored threshold", "cell": mr[0], "model": float(mr[3]), "impl": float(ir[3])}
        if o["len"] != mlen or o["empty"] != (mlen == 0):
            return {"step": step, "what": "len/empty", "model": mlen, "impl": [o["len"], o["empty"]]}
        if stats_mode != "none":
            if o["stats"]["num"] != mstats["num"]:
                return {"step": step, "what": "num_elites", "model": mstats["num"], "impl": o["stats"]["num"]}
            scale = sum(abs(r[2]) for r in o["rows"]) + abs(F(spec["offset"])) * max(1, len(o["rows"]))
            for key in ("cov", "qd", "norm", "max", "mean"):
                mv, iv = mstats[key], o["stats"][key]
                if key == "max":
                    ok = mv == iv
                elif stats_mode == "exact":
                    ok = (mv is None and iv is None) or (mv is not None and iv is not None and F(fl(mv, dtype)) == iv)
                else:
                    ok = near(mv, iv, dtype, scale if key in ("qd", "mean") else 1, 8)
                if not ok:
                    return {"step": step, "what": "stats." + key, "model": None if mv is None else float(mv), "impl": None if iv is None else float(iv)}
            ib = o["best"]
            if (mbest is None) != (ib is None) or (mbest is not None and (mbest[:3] != ib[:3] or (exact_values and mbest[3] != ib[3]))):
                return {"step": step, "what": "best_elite", "model": str(mbest), "impl": str(ib)}
    return None


def shrink_ops(ops, fails, max_rounds=200):
    """greedy delta debugging: drop ops, then drop batch members"""
    ops = [list(o) for o in ops]
    rounds = 0
    changed = True
    while changed and rounds < max_rounds:
        changed = False
        for k in range(len(ops)):
            rounds += 1
            cand = ops[:k] + ops[k + 1:]
            if cand and fails(cand):
                ops = cand
                changed = True
                break
        if changed:
            continue
        for k, o in enumerate(ops):
            if o[0] == "add" and len(o[1]) > 1:
                for j in range(len(o[1])):
                    rounds += 1
                    cand = [list(x) for x in ops]
                    cand[k] = ["add", o[1][:j] + o[1][j + 1:]] + o[2:]
                    if fails(cand):
                        ops = cand
                        changed = True
                        break
                if changed:
                    break
    return ops


# ---------------------------------------------------------------------------------------------
# generators
def moderate_float(rng, dtype):
    """finite floats whose sums/products stay far from overflow (CMA-MAE arithmetic)"""
    r = rng.random()
    if r < 0.5:
        v = rng.uniform(-10, 10)
    elif r < 0.7:
        v = rng.choice([-1, 1]) * 10 ** rng.uniform(-12, 12 if dtype is np.float64 else 6)
    else:
        v = rng.randrange(-64, 65) / 8.0
    return float(dtype(v))


def wild_float(rng, dtype):
    r = rng.random()
    fi = np.finfo(dtype)
    if r < 0.5:
        v = rng.uniform(-10, 10)
    elif r < 0.7:
        v = rng.choice([-1, 1]) * 10 ** rng.uniform(-30, 30)
    elif r < 0.8:
        v = rng.choice([float(fi.max), -float(fi.max), float(fi.tiny), -float(fi.tiny), float(fi.smallest_subnormal), 0.0, -0.0])
    else:
        v = rng.randrange(-16, 17) / 4.0
    with np.errstate(over="ignore"):
        v = float(dtype(v))
    if not math.isfinite(v):
        v = float(fi.max) if v > 0 else -float(fi.max)
    return v


def gen_measures(rng, spec, pool):
    """mostly from a small pool (collisions), sometimes fresh, sometimes far outside"""
    nd = measure_dim(spec)
    if pool and rng.random() < 0.7:
        return list(rng.choice(pool))
    m = []
    for lo, hi in spec["ranges"]:
        r = rng.random()
        if r < 0.8:
            m.append(float(DT[spec["dtype"]](rng.uniform(lo, hi))))
        elif r < 0.9:
            m.append(float(rng.choice([lo, hi, (lo + hi) / 2])))
        else:
            m.append(float(DT[spec["dtype"]](rng.choice([-1, 1]) * 10 ** rng.uniform(0, 6))))
    pool.append(m)
    return m


def gen_history(rng, spec, nops, max_batch, obj_gen, tie_rate=0.25, clear_rate=0.08, single_rate=0.25):
    ops = []
    pool = []
    seen_obj = []
    nid = [1]

    def cand():
        i = nid[0]
        nid[0] += 1
        if seen_obj and rng.random() < tie_rate:
            o = rng.choice(seen_obj)
        else:
            o = obj_gen(rng)
        seen_obj.append(o)
        return [i, o, gen_measures(rng, spec, pool)]
    for _ in range(nops):
        r = rng.random()
        cont = rng.choice(["nd", "nd", "nd", "list", "f64", "narrow"])
        if r < clear_rate:
            ops.append(["clear"])
        elif r < clear_rate + single_rate:
            ops.append(["add_single", cand(), cont if cont not in ("f64", "narrow") else "nd"])
        else:
            n = rng.choice([0, 1, 2, 3, 5, 8, max_batch])
            ops.append(["add", [cand() for _ in range(n)], cont if n else "nd"])
    return ops


# ---------------------------------------------------------------------------------------------
# generic case loop with corpus, shrinking and oracle
def load_corpus(prop):
    import json
    import os
    from common import CORPUS
    out = []
    d = os.path.join(CORPUS, prop)
    if os.path.isdir(d):
        for f in sorted(os.listdir(d)):
            if f.endswith(".json"):
                out.append(json.load(open(os.path.join(d, f))))
    return out


def run_cases(rep, prop, cases, compare, oracle, nontrivial, what, broken, theorems, tagger=None, max_viol=3):
    """cases: iterable of dict(spec=..., ops=...). compare(spec, ops) -> None | disagreement.
    oracle(spec, ops) -> None | str (the property fails on the implementation, with reason)."""
    for case in cases:
        spec, ops = case["spec"], case["ops"]
        try:
            d = compare(spec, ops)
        except Exception as e:  # noqa
            import traceback
            d = {"harness_exception": repr(e), "trace": traceback.format_exc()[-1500:]}
        nt = nontrivial(case)
        rep.case(case, nt, sample=case if nt else None)
        rep.count("kind_" + spec["kind"])
        rep.count("dtype_" + spec["dtype"])
        for o in ops:
            rep.count("op_" + o[0])
        try:
            orc = oracle(spec, ops)
        except Exception as e:  # noqa
            orc = None
        if d is None and orc is None:
            continue

        def fails(o2):
            try:
                return (compare(spec, o2) is not None) if d is not None else (oracle(spec, o2) is not None)
            except Exception:  # noqa
                return False
        small = shrink_ops(ops, fails) if "harness_exception" not in (d or {}) else ops
        try:
            d2 = compare(spec, small)
        except Exception as e:  # noqa
            d2 = d
        try:
            orc2 = oracle(spec, small) or orc
        except Exception:  # noqa
            orc2 = orc
        tags = {"kind": "correspondence" if orc2 is None else "property"}
        if tagger:
            tags.update(tagger(spec, small, d2, orc2) or {})
        rep.violation(what + (": " + orc2 if orc2 else " (model/implementation disagreement)"),
                      {"kind": "correspondence", "broken": broken, "case": {"spec": spec, "ops": small},
                       "disagreement": d2, "oracle": orc2, "theorems_at_stake": theorems}, orc2 is not None, tags)
        if len(rep.violations) >= max_viol:
            break


# ---------------------------------------------------------------------------------------------
# step-wise simulation (mode B): the model takes each step from the implementation's observed pre-state
EMPTY_OBS = {"rows": [], "stats": {"num": 0, "cov": Fraction(0), "qd": Fraction(0), "norm": Fraction(0), "max": None, "mean": None},
             "best": None, "len": 0, "empty": True}


def load_op(spec, pre):
    n = len(pre["rows"])
    if isinstance(pre["stats"]["qd"], float):   # overflowed in the implementation's dtype
        sm = Fraction(0)
    else:
        sm = pre["stats"]["qd"] + n * F(odt(spec)(spec["offset"])) if n else Fraction(0)
    rows = [[r[0], r[2], r[3], r[1]] for r in pre["rows"]]
    best = [] if pre["best"] is None else [[pre["best"][0], pre["best"][2], pre["best"][3], pre["best"][1]]]
    mx = [] if pre["stats"]["max"] is None else [pre["stats"]["max"]]
    return [7, rows, sm, mx, best]


def compare_stepwise(driver, spec, ops, ulps=None, check_stats=True, stats_scale=None):
    """Every op is checked against the model started from the implementation's own pre-state.
    Decisions (status), values, objectives, ids, obj_max and untouched thresholds must match exactly; newly computed
    thresholds and the floating-point statistics within `ulps` units in the last place of the op's magnitude."""
    dtype = odt(spec)
    if ulps is None:
        ulps = 32 if dtype == np.float32 else 16
    trace, mops_all, archive, table = run_impl(spec, ops)
    pre = EMPTY_OBS
    k = 0
    for step, (op, ent) in enumerate(zip(ops, trace)):
        mop = mops_all[k:k + ent["n_mops"]]
        k += ent["n_mops"] + 2
        for r in pre["rows"]:
            if isinstance(r[1], tuple):
                return {"step": step, "what": "torn elite", "impl": str(r)}
        mout = driver.call("ARCH", [model_cfg(spec), [load_op(spec, pre)] + mop + [[4], [5]]])
        rets = mout[1:1 + len(mop)]
        o = ent["obs"]
        if op[0] in ("add", "add_single"):
            if "error" in ent["ret"]:
                return {"step": step, "what": "valid call raised", "impl": ent["ret"]}
            if op[0] == "add" and spec["kind"] != "sliding":
                mst, mval = rets[0][0], [uq(v) for v in rets[0][1]]
            else:
                mst, mval = [r[0] for r in rets], [uq(r[1]) for r in rets]
            if mst != ent["ret"]["status"]:
                return {"step": step, "what": "status", "model": mst, "impl": ent["ret"]["status"]}
            vdt = np.dtype(ent["ret"]["value_dtype"]).type
            if len(mval) != len(ent["ret"]["value"]):
                return {"step": step, "what": "feedback length", "model": len(mval), "impl": len(ent["ret"]["value"])}
            for j, (mv, iv) in enumerate(zip(mval, ent["ret"]["value"])):
                if F(fl(mv, vdt)) != iv:
                    return {"step": step, "what": "value[%d]" % j, "model_exact": str(mv), "impl": float(iv)}
        mrows = {r[0]: r for r in decode_model_rows(mout[-2])}
        mstats, mbest, msum, mlen = decode_model_stats(mout[-1])
        irows = {r[0]: r for r in o["rows"]}
        if {c: r[1] for c, r in mrows.items()} != {c: r[1] for c, r in irows.items()}:
            return {"step": step, "what": "contents (cell -> id)", "model": {c: r[1] for c, r in mrows.items()}, "impl": {c: r[1] for c, r in irows.items()}}
        cands = op[1] if op[0] == "add" else [op[1]] if op[0] == "add_single" else []
        scale = max([abs(float(c[1])) for c in cands] + [abs(float(r[3])) for r in pre["rows"]] + [abs(spec.get("tmin") or 0.0), 1e-300])
        touched = set(ent.get("cells", []))
        prer = {r[0]: r for r in pre["rows"]}
        for c, mr in mrows.items():
            ir = irows[c]
            if mr[2] != ir[2]:
                return {"step": step, "what": "stored objective", "cell": c, "model": float(mr[2]), "impl": float(ir[2])}
            if c in prer and prer[c][1] == ir[1] and c not in touched:
                if ir[3] != prer[c][3]:
                    return {"step": step, "what": "threshold of an untouched cell changed", "cell": c, "before": float(prer[c][3]), "impl": float(ir[3])}
            elif not near(mr[3], ir[3], dtype, scale, ulps):
                return {"step": step, "what": "stored threshold", "cell": c, "model": float(mr[3]), "impl": float(ir[3]), "ulps_allowed": ulps}
        if o["len"] != mlen:
            return {"step": step, "what": "len", "model": mlen, "impl": o["len"]}
        if o["stats"]["num"] != mstats["num"]:
            return {"step": step, "what": "num_elites", "model": mstats["num"], "impl": o["stats"]["num"]}
        sscale = sum(abs(r[2]) for r in o["rows"]) + sum(abs(r[2]) for r in pre["rows"]) + abs(F(spec["offset"])) * max(1, len(o["rows"]))
        if stats_scale is not None:
            sscale = max(sscale, stats_scale)
        for key in (("cov", "qd", "norm", "max", "mean") if check_stats and not isinstance(pre["stats"]["qd"], float) else ("max",)):
            mv, iv = mstats[key], o["stats"][key]
            if isinstance(iv, float) or isinstance(mv, float):
                continue  # overflowed to inf in the implementation's dtype: not comparable
            if key == "max":
                ok = mv == iv
            else:
                ok = near(mv, iv, dtype, sscale if key in ("qd", "mean", "norm") else 1, 4 * ulps)
            if not ok:
                return {"step": step, "what": "stats." + key, "model": None if mv is None else float(mv), "impl": None if iv is None else float(iv)}
        ib = o["best"]
        if (mbest is None) != (ib is None) or (mbest is not None and (mbest[:3] != ib[:3] or not near(mbest[3], ib[3], dtype, scale, ulps))):
            return {"step": step, "what": "best_elite", "model": str(mbest), "impl": str(ib)}
        pre = o
    return None


def nextafter(x, up, dtype):
    v = float(np.nextafter(dtype(x), dtype(np.inf if up else -np.inf)))
    return v if math.isfinite(v) else float(dtype(x))


def gen_history_live(rng, spec, nops, max_batch, obj_gen, tie_rate=0.3, clear_rate=0.06, single_rate=0.25):
    """like gen_history, but generated against a live archive so that objectives can be placed exactly at, one ulp above
    and one ulp below the CURRENT threshold of the targeted cell"""
    dtype = DT[spec["dtype"]]
    archive = make_archive(spec)
    ops, pool = [], []
    nid = [1]
    stats = {"at_thr": 0, "above": 0, "below": 0}

    def cand():
        i = nid[0]
        nid[0] += 1
        m = gen_measures(rng, spec, pool)
        o = obj_gen(rng)
        if rng.random() < tie_rate:
            occ, d = archive.retrieve_single(np.array(m, dtype=dtype))
            t = float(d["threshold"]) if occ else (spec.get("tmin") if spec.get("tmin") is not None else None)
            if t is not None and math.isfinite(t):
                r = rng.random()
                if r < 0.5:
                    o = float(dtype(t))
                    stats["at_thr"] += 1
                elif r < 0.75:
                    o = nextafter(t, True, dtype)
                    stats["above"] += 1
                else:
                    o = nextafter(t, False, dtype)
                    stats["below"] += 1
        return [i, o, m]
    for _ in range(nops):
        r = rng.random()
        if r < clear_rate:
            op = ["clear"]
            archive.clear()
        elif r < clear_rate + single_rate:
            op = ["add_single", cand(), "nd"]
            archive.add_single(**single_args(spec, op[1]))
        else:
            n = rng.choice([0, 1, 2, 3, 5, 8, max_batch])
            op = ["add", [cand() for _ in range(n)], "nd"]
            archive.add(**batch_arrays(spec, op[1]))
        ops.append(op)
    return ops, stats


# ---------------------------------------------------------------------------------------------
# the dict form of `dtype`: objective (and threshold) in one float type, solution / measures in the other
def dict_dtype_stream(rep, rng, n, focus):
    """focus 'agree' (C02): add([x]) and add_single(x) give the same feedback and contents, and the stored objective is the submitted one
    rounded to the OBJECTIVE dtype; 'threshold' (C05): the threshold field has the objective's dtype and follows the CMA-MAE rule
    evaluated in that dtype; 'reject' (C11): a measure that is finite in the wider type but overflows the MEASURES dtype is rejected by
    add / add_single and leaves the archive as it was.  A message (and a replayable case) or None."""
    from ribs.archives import CVTArchive, GridArchive
    if focus == "threshold":
        # the same batch once with a float32 objective array and once as a list of the very same (float32-representable) numbers, into a
        # float64 CMA-MAE archive: several candidates for one cell whose float32 running sum is inexact -- the thresholds must not depend
        # on the container the caller used
        for _ in range(max(4, n // 4)):
            lr = rng.choice([0.5, 0.25, 1.0, 0.75])
            vals = rng.choice([[16777216.0, 1.0, 1.0, 1.0], [33554432.0, 3.0, 1.0], [1.0, 16777216.0, 1.0, 1.0, 2.0], [3.0e38, 3.0e38], [8388608.0, 0.5, 0.5, 0.5]])
            vals = [float(np.float32(v)) for v in vals]      # every value a float32 value
            rng.shuffle(vals)
            res = []
            for cont in ("f32", "list", "f64"):
                a = GridArchive(solution_dim=1, dims=[3], ranges=[(0.0, 1.0)], dtype=np.float64, learning_rate=lr, threshold_min=-1.0)
                o = np.array(vals, dtype=np.float32) if cont == "f32" else list(vals) if cont == "list" else np.array(vals, dtype=np.float64)
                info = a.add(np.zeros((len(vals), 1)), o, np.full((len(vals), 1), 0.5))
                res.append(([int(x) for x in info["status"]], [float(x) for x in info["value"]], [float(x) for x in a.data("threshold")], [float(x) for x in a.data("objective")]))
            rep.count("container_independent_batches")
            if res[0] != res[1] or res[1] != res[2]:
                return ("a float64 CMA-MAE archive (learning_rate %r) given the objectives %r in one batch for one cell: as a float32 array -> thresholds %s, "
                        "as a list -> %s, as a float64 array -> %s" % (lr, vals, res[0][2], res[1][2], res[2][2]),
                        {"learning_rate": lr, "threshold_min": -1.0, "objectives": vals, "results": {"float32 array": res[0], "list": res[1], "float64 array": res[2]}})
    for _ in range(n):
        od, md = rng.choice([(np.float64, np.float32), (np.float32, np.float64)])
        lr, tmin = rng.choice([(None, None), (0.5, -4.0), (1.0, -1.0), (0.25, 0.0)])
        kw = {} if lr is None else {"learning_rate": lr, "threshold_min": tmin}
        dt = {"solution": md, "objective": od, "measures": md}

        def mk():
            if rng_kind == "grid":
                return GridArchive(solution_dim=1, dims=[4], ranges=[(0.0, 1.0)], dtype=dt, **kw)
            return CVTArchive(solution_dim=1, cells=4, ranges=[(0.0, 1.0)], dtype=dt, custom_centroids=np.array([[0.1], [0.4], [0.6], [0.9]]), **kw)
        rng_kind = rng.choice(["grid", "cvt"])
        a, b = mk(), mk()
        case = {"objective_dtype": np.dtype(od).name, "measures_dtype": np.dtype(md).name, "kind": rng_kind, "learning_rate": lr, "threshold_min": tmin, "adds": []}
        rep.count("dict_dtype_archives")
        for step in range(rng.randint(2, 6)):
            obj = rng.choice([0.1, 0.3, 1.0 / 3.0, 2.5, 0.1 + 1e-9, 16777217.0, -0.7, 1e-9]) + rng.choice([0.0, 0.0, 1.0])
            mea = rng.choice([0.05, 0.3, 0.55, 0.8, 0.3 + 1e-9])
            case["adds"].append([obj, mea])
            if focus == "reject" and rng.random() < 0.5:
                huge = rng.choice([1e39, -1e39, 3.5e38]) if md == np.float32 else None
                if huge is not None:
                    before = (len(a), [float(x) for x in a.data("objective")], [float(x) for x in a.data("measures").ravel()])
                    for entry in ("add", "add_single"):
                        try:
                            if entry == "add":
                                a.add([[0.0]], [obj], [[huge]])
                            else:
                                a.add_single([0.0], obj, [huge])
                            err = None
                        except Exception as e:  # noqa
                            err = e
                        after = (len(a), [float(x) for x in a.data("objective")], [float(x) for x in a.data("measures").ravel()])
                        if err is None or not isinstance(err, ValueError) or after != before:
                            return ("%s with a measure (%r) that overflows the archive's measures dtype (float32; objective dtype float64) %s" % (
                                entry, huge, "was accepted" if err is None else ("raised %r" % (err,) if not isinstance(err, ValueError) else "raised but changed the archive")),
                                dict(case, bad={"entry": entry, "measure": huge, "objective": obj}))
            ia = a.add([[float(step)]], [obj], [[mea]])
            ib = b.add_single([float(step)], obj, [mea])
            fa = [int(ia["status"][0]), float(ia["value"][0])]
            fb = [int(ib["status"]), float(ib["value"])]
            if focus == "agree":
                v_ok = fa[1] == fb[1] or abs(fa[1] - fb[1]) <= 4 * float(np.spacing(od(max(abs(fa[1]), abs(fb[1]), abs(obj)))))
                if fa[0] != fb[0] or not v_ok or np.asarray(ia["value"]).dtype != np.asarray(ib["value"]).dtype:
                    return ("add([x]) reports %s (%s) and add_single(x) reports %s (%s) for objective %r, measure %r" % (
                        fa, np.asarray(ia["value"]).dtype, fb, np.asarray(ib["value"]).dtype, obj, mea), case)
                da, db = a.data(), b.data()
                # (thresholds: the batch rule and the single-step rule round differently, see C05; a few units in the last place)
                th_ok = da["threshold"].shape == db["threshold"].shape and all(
                    (not np.isfinite(x) and x == y) or abs(float(x) - float(y)) <= 4 * float(np.spacing(od(max(abs(float(x)), abs(float(y))))))
                    for x, y in zip(da["threshold"], db["threshold"]))
                if [list(map(float, da[f].ravel())) for f in ("objective", "measures")] != [list(map(float, db[f].ravel())) for f in ("objective", "measures")] or not th_ok:
                    return ("after the same candidates, the archive filled by add([x]) and the one filled by add_single(x) differ", case)
                if fa[0] == 2 and float(od(obj)) not in [float(x) for x in da["objective"]]:
                    return ("a new elite's stored objective is not the submitted objective %r rounded to the objective dtype %s (stored: %s)" % (
                        obj, np.dtype(od).name, [float(x) for x in da["objective"]]), case)
            if focus == "threshold":
                th = a.data("threshold")
                if th.dtype != od or a.dtypes["threshold"] != od:
                    return ("the threshold field has dtype %s although the objective dtype is %s (measures: %s)" % (th.dtype, np.dtype(od).name, np.dtype(md).name), case)
                if lr == 1.0 and fa[0] != 0:
                    cell = int(a.index_of_single([mea]))
                    d = a.data()
                    k = [int(i) for i in d["index"]].index(cell)
                    if float(d["threshold"][k]) != float(od(obj)):
                        return ("learning_rate 1: the threshold of the cell (%r) is not the accepted objective %r in the objective dtype %s" % (
                            float(d["threshold"][k]), float(od(obj)), np.dtype(od).name), case)
    return None
