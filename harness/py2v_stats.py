"""Fail-closed translator of ArchiveBase._stats_update and of the objective-sum expression of compute_objective_sum
(current source under $VERIF_REPO) into Gallina (coq/Generated/StatsGen.v, rewritten on every run; Refine/StatsRefine.v proves the
result equal to Model/Archive.v's stats_update / sum_delta for all arguments).

Environment of _stats_update(self, new_objective_sum, new_best_index):
  self._objective_sum : Q (state)      len(self) : n (nat, read AFTER the store write)      self.cells : cells (nat)
  self._qd_score_offset : Q            self._stats.obj_max : option Q                        self._best_elite : option B (state)
  `_, new_best_elite = self._store.retrieve([new_best_index])` binds new_best_elite to the stored row at new_best_index (brow : B, with
  objective bobj : Q);  `{k: v[0] for k, v in new_best_elite.items()}` is un-batching (identity on the row);
  np_scalar(e, dtype=...) -> e;  `X is None or e > X` (X optional) -> match X with None => true | Some m => m < e;
  ArchiveStats(num_elites=, coverage=, qd_score=, norm_qd_score=, obj_max=, obj_mean=) -> a 6-tuple in that order.
Anything else raises Unsupported (= broken tie, reported by the check)."""
import ast
import hashlib
import os
from fractions import Fraction

ROOT = os.path.dirname(os.path.dirname(os.path.abspath(__file__)))
REPO = os.environ.get("VERIF_REPO", "/repo")
OUT = os.path.join(ROOT, "coq", "Generated", "StatsGen.v")
SRC1 = "ribs/archives/_archive_base.py"
SRC2 = "ribs/archives/_transforms.py"


class Unsupported(Exception):
    pass


def _fail(node, why):
    raise Unsupported("%s at line %s: %s" % (why, getattr(node, "lineno", "?"), ast.dump(node)[:200]))


def is_self_attr(e, *path):
    """self.a.b ..."""
    names = []
    while isinstance(e, ast.Attribute):
        names.append(e.attr)
        e = e.value
    return isinstance(e, ast.Name) and e.id == "self" and tuple(reversed(names)) == path


class Stats:
    FIELDS = ["num_elites", "coverage", "qd_score", "norm_qd_score", "obj_max", "obj_mean"]

    def __init__(self, fdef):
        a = fdef.args
        if [x.arg for x in a.args] != ["self", "new_objective_sum", "new_best_index"] or a.vararg or a.kwarg or a.kwonlyargs or a.defaults:
            _fail(fdef, "unexpected signature")
        self.env = {"new_objective_sum": ("new_sum", "Q")}
        self.lines = []
        self.stats = None
        body = list(fdef.body)
        if body and isinstance(body[0], ast.Expr) and isinstance(body[0].value, ast.Constant) and isinstance(body[0].value.value, str):
            body = body[1:]
        for st in body:
            self.stmt(st, self.lines)
        if self.stats is None:
            raise Unsupported("_stats_update never assigns self._stats")

    def expr(self, e):
        if isinstance(e, ast.Name):
            if e.id in self.env:
                return self.env[e.id]
            _fail(e, "undefined name")
        if is_self_attr(e, "_objective_sum"):
            return "s_sum", "Q"
        if is_self_attr(e, "_qd_score_offset"):
            return "offset", "Q"
        if is_self_attr(e, "cells"):
            return "(qnat cells)", "Q"
        if is_self_attr(e, "_stats", "obj_max"):
            return "omax", "OQ"
        if isinstance(e, ast.Call):
            f = e.func
            if isinstance(f, ast.Name) and f.id == "len" and len(e.args) == 1 and isinstance(e.args[0], ast.Name) and e.args[0].id == "self":
                return "(qnat n)", "Q"
            if isinstance(f, ast.Name) and f.id == "np_scalar" and len(e.args) == 1 and all(k.arg == "dtype" for k in e.keywords):
                return self.expr(e.args[0])
            _fail(e, "unsupported call")
        if isinstance(e, ast.Subscript) and isinstance(e.value, ast.Name) and isinstance(e.slice, ast.Constant) and e.slice.value == "objective":
            t, ty = self.expr(e.value)
            if ty != "B":
                _fail(e, "['objective'] of something that is not the retrieved row")
            return "bobj", "Q"
        if isinstance(e, ast.Constant):
            v = e.value
            if isinstance(v, bool) or not isinstance(v, (int, float)):
                _fail(e, "literal")
            fr = Fraction(repr(v)) if isinstance(v, float) else Fraction(v)
            return ("%d" % fr.numerator if fr.denominator == 1 else "(%d # %d)" % (fr.numerator, fr.denominator)), "Q"
        if isinstance(e, ast.BinOp):
            l, lt = self.expr(e.left)
            r, rt = self.expr(e.right)
            if lt != "Q" or rt != "Q":
                _fail(e, "arithmetic on a non-number")
            for cls, s in ((ast.Add, "+"), (ast.Sub, "-"), (ast.Mult, "*"), (ast.Div, "/")):
                if isinstance(e.op, cls):
                    return "(%s %s %s)" % (l, s, r), "Q"
            _fail(e, "operator")
        if isinstance(e, ast.DictComp):
            # {k: v[0] for k, v in new_best_elite.items()}
            g = e.generators
            ok = (len(g) == 1 and not g[0].ifs and isinstance(g[0].target, ast.Tuple) and len(g[0].target.elts) == 2
                  and isinstance(g[0].iter, ast.Call) and isinstance(g[0].iter.func, ast.Attribute) and g[0].iter.func.attr == "items"
                  and isinstance(g[0].iter.func.value, ast.Name) and isinstance(e.key, ast.Name) and e.key.id == g[0].target.elts[0].id
                  and isinstance(e.value, ast.Subscript) and isinstance(e.value.value, ast.Name) and e.value.value.id == g[0].target.elts[1].id
                  and isinstance(e.value.slice, ast.Constant) and e.value.slice.value == 0)
            if ok:
                t, ty = self.expr(g[0].iter.func.value)
                if ty == "B":
                    return t, "B"
            _fail(e, "unsupported dict comprehension")
        _fail(e, "unsupported expression")

    def test(self, t):
        # X is None or e > X
        if (isinstance(t, ast.BoolOp) and isinstance(t.op, ast.Or) and len(t.values) == 2):
            a, b = t.values
            if (isinstance(a, ast.Compare) and len(a.ops) == 1 and isinstance(a.ops[0], ast.Is) and isinstance(a.comparators[0], ast.Constant)
                    and a.comparators[0].value is None and isinstance(b, ast.Compare) and len(b.ops) == 1 and isinstance(b.ops[0], ast.Gt)):
                x, xt = self.expr(a.left)
                y, yt = self.expr(b.comparators[0])
                ev, et = self.expr(b.left)
                if xt == "OQ" and y == x and et == "Q":
                    return "(match %s with None => true | Some m => Qltb m %s end)" % (x, ev)
        _fail(t, "unsupported condition")

    def stmt(self, st, out):
        if isinstance(st, ast.Assign) and len(st.targets) == 1:
            tg = st.targets[0]
            # _, new_best_elite = self._store.retrieve([new_best_index])
            if isinstance(tg, ast.Tuple):
                v = st.value
                ok = (len(tg.elts) == 2 and all(isinstance(x, ast.Name) for x in tg.elts) and isinstance(v, ast.Call)
                      and isinstance(v.func, ast.Attribute) and v.func.attr == "retrieve" and is_self_attr(v.func.value, "_store")
                      and len(v.args) == 1 and not v.keywords and isinstance(v.args[0], ast.List) and len(v.args[0].elts) == 1
                      and isinstance(v.args[0].elts[0], ast.Name) and v.args[0].elts[0].id == "new_best_index")
                if not ok:
                    _fail(st, "unsupported tuple assignment")
                self.env[tg.elts[1].id] = ("brow", "B")
                return
            if isinstance(tg, ast.Name):
                t, ty = self.expr(st.value)
                if ty == "B":      # re-binding of the retrieved row (un-batching): no new value
                    self.env[tg.id] = (t, "B")
                    return
                g = "v_" + tg.id
                out.append((g, t))
                self.env[tg.id] = (g, ty)
                return
            if is_self_attr(tg, "_objective_sum"):
                t, ty = self.expr(st.value)
                if ty != "Q":
                    _fail(st, "objective sum of a non-number")
                out.append(("s_sum", t))
                return
            if is_self_attr(tg, "_best_elite"):
                t, ty = self.expr(st.value)
                if ty != "B":
                    _fail(st, "best elite must be the retrieved row")
                out.append(("s_best", "(Some %s)" % t))
                return
            if is_self_attr(tg, "_stats"):
                v = st.value
                if not (isinstance(v, ast.Call) and isinstance(v.func, ast.Name) and v.func.id == "ArchiveStats" and not v.args):
                    _fail(st, "self._stats must be an ArchiveStats(...) with keyword arguments")
                kws = {k.arg: k.value for k in v.keywords}
                if sorted(kws) != sorted(self.FIELDS):
                    _fail(st, "unexpected ArchiveStats fields %s" % sorted(kws))
                parts = []
                for f in self.FIELDS:
                    t, ty = self.expr(kws[f])
                    if f == "obj_max":
                        if ty == "Q":
                            t = "(Some %s)" % t
                        elif ty != "OQ":
                            _fail(st, "obj_max type")
                    elif ty != "Q":
                        _fail(st, "%s is not a number" % f)
                    parts.append(t)
                self.stats = "(" + ", ".join(parts) + ")"
                return
            _fail(st, "unsupported assignment target")
        if isinstance(st, ast.If):
            c = self.test(st.test)
            env0 = dict(self.env)
            a, b = [], []
            for s in st.body:
                self.stmt(s, a)
            env_a = dict(self.env)
            self.env = dict(env0)
            for s in st.orelse:
                self.stmt(s, b)
            env_b = dict(self.env)
            names = []
            for n, _ in a + b:
                if n not in names:
                    names.append(n)
            for n in names:
                if n not in ("s_sum", "s_best") and not (any(x[0] == n for x in a) and any(x[0] == n for x in b)):
                    _fail(st, "variable %s defined on one path only" % n)
            self.env = dict(env0)
            for k in set(env_a) | set(env_b):
                va, vb = env_a.get(k), env_b.get(k)
                if va and vb and va[1] != vb[1]:
                    # obj_max: Q in one branch, option in the other -> lift to option
                    if {va[1], vb[1]} == {"Q", "OQ"}:
                        for lines, v in ((a, va), (b, vb)):
                            if v[1] == "Q":
                                for i, (n, t) in enumerate(lines):
                                    if n == v[0]:
                                        lines[i] = (n, "(Some %s)" % t)
                        self.env[k] = (va[0], "OQ")
                        continue
                    _fail(st, "variable changes type across branches")
                self.env[k] = va or vb

            def block(lines):
                s = ""
                for n, t in lines:
                    s += "let %s := %s in " % (n, t)
                return s + ("(" + ", ".join(names) + ")" if len(names) > 1 else names[0])
            pat = "'(" + ", ".join(names) + ")" if len(names) > 1 else names[0]
            out.append((pat, "(if %s then %s else %s)" % (c, block(a), block(b))))
            return
        _fail(st, "unsupported statement")

    def gallina(self):
        s = ("Definition gen_stats_update (B : Type) (n cells : nat) (offset : Q) (s_sum0 : Q) (omax : option Q) (s_best0 : option B)\n"
             "           (new_sum : Q) (bobj : Q) (brow : B) : Q * (Q * Q * Q * Q * option Q * Q) * option B :=\n"
             "  let s_sum := s_sum0 in\n  let s_best := s_best0 in\n")
        for n, t in self.lines:
            s += "  let %s := %s in\n" % (n, t)
        s += "  (s_sum, %s, s_best).\n" % self.stats
        return s


def sum_expr(fdef):
    """compute_objective_sum: add_info["objective_sum"] = cur_objective_sum + np.sum(new_data["objective"] - cur_objective), with
    cur_objective[~occupied] = 0.0 -- element-wise reading: gen_sum_delta new old_if_occupied_else_0"""
    found = {"zero": False, "expr": None}
    for st in ast.walk(fdef):
        if isinstance(st, ast.Assign) and len(st.targets) == 1:
            tg = st.targets[0]
            if (isinstance(tg, ast.Subscript) and isinstance(tg.value, ast.Name) and tg.value.id == "cur_objective"
                    and isinstance(tg.slice, ast.UnaryOp) and isinstance(tg.slice.op, ast.Invert) and isinstance(tg.slice.operand, ast.Name)
                    and tg.slice.operand.id == "occupied" and isinstance(st.value, ast.Constant) and st.value.value == 0.0):
                found["zero"] = True
            if (isinstance(tg, ast.Subscript) and isinstance(tg.value, ast.Name) and tg.value.id == "add_info" and isinstance(tg.slice, ast.Constant)
                    and tg.slice.value == "objective_sum" and not isinstance(st.value, ast.Name)):
                found["expr"] = st.value
    e = found["expr"]
    ok = (found["zero"] and isinstance(e, ast.BinOp) and isinstance(e.op, ast.Add) and isinstance(e.left, ast.Name) and e.left.id == "cur_objective_sum"
          and isinstance(e.right, ast.Call) and isinstance(e.right.func, ast.Attribute) and e.right.func.attr == "sum" and len(e.right.args) == 1
          and isinstance(e.right.args[0], ast.BinOp) and isinstance(e.right.args[0].op, ast.Sub)
          and isinstance(e.right.args[0].left, ast.Subscript) and isinstance(e.right.args[0].left.value, ast.Name)
          and e.right.args[0].left.value.id == "new_data" and e.right.args[0].left.slice.value == "objective"
          and isinstance(e.right.args[0].right, ast.Name) and e.right.args[0].right.id == "cur_objective")
    if not ok:
        raise Unsupported("compute_objective_sum: objective-sum expression not recognised")
    return ("Definition gen_sum_term (occupied : bool) (new_obj cur_obj : Q) : Q :=\n  new_obj - (if occupied then cur_obj else 0).\n"
            "Definition gen_objective_sum (cur_sum : Q) (terms : list Q) : Q := cur_sum + Qsum terms.\n")


def find(tree, cls, name):
    for n in tree.body:
        if cls is None and isinstance(n, ast.FunctionDef) and n.name == name:
            return n
        if cls and isinstance(n, ast.ClassDef) and n.name == cls:
            ms = [m for m in n.body if isinstance(m, ast.FunctionDef) and m.name == name]
            if len(ms) == 1 and not ms[0].decorator_list:
                return ms[0]
    raise Unsupported("cannot locate %s" % name)


def translate(repo=None):
    repo = repo or REPO
    f1 = find(ast.parse(open(os.path.join(repo, SRC1)).read()), "ArchiveBase", "_stats_update")
    f2 = find(ast.parse(open(os.path.join(repo, SRC2)).read()), None, "compute_objective_sum")
    h = hashlib.sha256((ast.dump(f1) + ast.dump(f2)).encode()).hexdigest()
    text = ("(** GENERATED by harness/py2v_stats.py from the current pyribs source (%s: ArchiveBase._stats_update; %s:\n"
            "    compute_objective_sum) on every run -- do not edit.  Refine/StatsRefine.v proves these equal to Model/Archive.v. *)\n"
            "From Coq Require Import List ZArith QArith Bool.\nFrom PV Require Import Base.QUtil Model.Archive.\nOpen Scope Q_scope.\n\n%s\n%s"
            % (SRC1, SRC2, Stats(f1).gallina(), sum_expr(f2)))
    return text, h


def generate():
    st = {"ok": False, "error": None, "written": False, "sha": None}
    try:
        text, st["sha"] = translate()
        st["ok"] = True
    except Unsupported as e:
        st["error"] = str(e)
        return st
    except Exception as e:  # noqa
        st["error"] = repr(e)
        return st
    try:
        old = open(OUT).read() if os.path.exists(OUT) else None
        if old != text:
            os.makedirs(os.path.dirname(OUT), exist_ok=True)
            tmp = OUT + ".tmp%d" % os.getpid()
            with open(tmp, "w") as f:
                f.write(text)
            os.replace(tmp, OUT)
            st["written"] = True
    except OSError as e:
        st["ok"], st["error"] = False, "cannot write %s: %r" % (OUT, e)
    return st


STATUS = generate()


def report(rep):
    rep.extra["source_fragments"] = {"translator": "harness/py2v_stats.py", "source": [SRC1, SRC2], "ok": STATUS["ok"], "sha256_of_ast": STATUS["sha"],
                                     "refinement": "coq/Refine/StatsRefine.v"}
    if not STATUS["ok"]:
        rep.violation("the translator cannot read the current source of _stats_update / compute_objective_sum any more (fail-closed): %s" % STATUS["error"],
                      {"kind": "translation", "broken": "harness/py2v_stats.py", "error": STATUS["error"]}, False, {"kind": "translation"})


if __name__ == "__main__":
    print(STATUS)
    print(open(OUT).read() if STATUS["ok"] else "")
