"""C14 correspondence: the real ProximityArchive vs the extracted Model/Proximity.v, plus the independent oracle."""
import json
import os
import random

import c14_util as u
import py2v_prox
from common import CORPUS

CONFIG = {
    "source_ties": 'Since round 7 also tied statically: harness/py2v_prox.py translates the decision expressions of ProximityArchive.compute_novelty / add on every run; Refine/ProxRefine.v proves them equal to kk / is_novel / lower / grown_store of Model/Proximity.v for all arguments; harness/kd_scan.py pins the k-D tree call sites.',
    "cone": ["Base/ListUtil.v", "Base/QUtil.v", "Base/FirstArgmax.v", "Model/Store.v", "Proofs/StoreProofs.v", "Model/Archive.v",
             "Proofs/ArchiveProofs.v", "Proofs/C01Proofs.v", "Proofs/C02Proofs.v", "Model/Proximity.v", "Proofs/KnnProofs.v", "Proofs/ProximityProofs.v",
             "Proofs/C14Proofs.v", "Properties/C14.v", "Proofs/C06Proofs.v", "Proofs/ProximityStats.v", "Properties/C06Proximity.v",
             "Model/ProxFacts.v", "Generated/ProxGen.v", "Refine/ProxRefine.v"],
    "extra_property_files": ["Properties/C06Proximity.v", "Refine/ProxRefine.v"],
    "trusted": ["Model/Proximity.v models ProximityArchive over exact rationals on top of Model/Archive.v (ArchiveBase defaults) and "
                "Model/Store.v (resize); the k-D tree is not modelled: each candidate carries its distances to the stored entries of the "
                "pre-call archive (1-D: |x-y| computed exactly by the harness; 2-3-D integer/half-integer lattices: numpy's float64 "
                "sqrt(sum of squares), re-checked by the oracle to be the correctly rounded Euclidean distance) and the index the public "
                "index_of returns, which the model validates to be a stored entry at minimum distance",
                "novelty is compared against the correctly rounded exact mean (1-D stream, bit-exact) or within 8 ulp (lattice stream); "
                "histories whose exact novelty lies within 16 ulp of the threshold without being equal are not judged (counted as borderline)",
                "payload = candidate id encoded redundantly into solution and extra fields + its measures; decoder flags torn rows"],
    "level_text": "Theorems in coq/Properties/C14.v hold for every configuration (k >= 1, any threshold, initial capacity >= 1, with and without "
                  "local competition), every reachable state (any history of add/add_single/clear/bounds reads) and every batch: status 2 iff "
                  "mean distance to ANY valid selection of the min(k,n) nearest pre-call entries >= threshold (always when empty); reported "
                  "novelty is that mean; the local-competition interval is exactly the set of counts valid selections produce; without local "
                  "competition the entries are append-only at indices 0..n-1; growth doubles the capacity minimally and loses/reorders "
                  "nothing; with local competition entry i becomes the first arg-max of the non-novel candidates aimed at it iff strictly "
                  "better; bounds reads return the coordinate-wise min/max of the current measures and RuntimeError when empty, also after "
                  "clear. coq/Properties/C06Proximity.v (statistics of C06 for this archive type): in every reachable state the running objective "
                  "sum, num_elites, qd_score and obj_mean are functions of the stored entries (Proofs/ProximityStats.v). "
                  "The model is tied to ribs/archives/_proximity_archive.py by a differential run on every check.",
    "level_note": "Trusted: Coq kernel; extraction + driver; hand-written model tied by sampling; distance oracle (numpy, re-checked with "
                  "Fractions); harness. No axioms.",
    "technique": "Rocq/Coq proof over an executable Gallina model (invariant over all histories, relational k-NN spec) + "
                 "model-vs-implementation correspondence run + exact-arithmetic oracle on implementation outputs",
    "design_ref": "DESIGN.md section 5, C14",
}

THEOREMS = ["C14_admit_iff", "C14_reported_novelty", "C14_lc_count", "C14_append_only", "C14_growth", "C14_replace_iff", "C14_bounds"]


def run_case(case, driver, res=None):
    """-> ("ok"|"borderline"|"bad", disagreement)"""
    try:
        d = u.compare(case, driver, res)
    except u.Borderline:
        return "borderline", None
    except Exception as e:  # noqa
        import traceback
        return "bad", {"harness_exception": repr(e), "trace": traceback.format_exc()[-1500:]}
    return ("bad", d) if d is not None else ("ok", None)


def report(rep, case, d, driver):
    def fails(c):
        try:
            return u.compare(c, driver) is not None
        except Exception:  # noqa
            return False

    def ofails(c):
        try:
            return u.oracle(c) is not None
        except Exception:  # noqa
            return False
    small = u.shrink(case, fails) if "harness_exception" not in d else case
    try:
        d2 = u.compare(small, driver) or d
    except Exception:  # noqa
        d2 = d
    try:
        orc = u.oracle(small) or u.oracle(case)
        if orc and u.oracle(small) is None:
            small = u.shrink(case, ofails)
            orc = u.oracle(small)
    except Exception as e:  # noqa
        orc = None
        d2 = dict(d2, oracle_exception=repr(e))
    tags = dict(orc[1]) if orc else {"kind": "correspondence"}
    rep.violation("ProximityArchive and the Proximity model disagree on %s" % d2.get("what", "?") + (": " + orc[0] if orc else ""),
                  {"kind": "correspondence", "broken": "Model/Proximity.v vs ribs/archives/_proximity_archive.py", "case": small,
                   "disagreement": u.jsonable(d2), "oracle": orc[0] if orc else None, "theorems_at_stake": THEOREMS},
                  orc is not None, tags)


def big_batch_probe(rep, rng):
    """one add() of several thousand candidates: every one of them is judged against the archive as it was BEFORE the call, however
    many rows the batch has -- rows late in the batch that coincide with rows early in the batch are as novel as those were"""
    import numpy as np
    from ribs.archives import ProximityArchive
    for lc in (False, True):
        a = ProximityArchive(solution_dim=1, measure_dim=2, k_neighbors=2, novelty_threshold=1.0, local_competition=lc, dtype=np.float64)
        a.add(np.zeros((2, 1)), [0.0, 0.0], [[0.0, 0.0], [0.5, 0.0]])
        n = 4096 + rng.randint(200, 900)
        pts = np.array([[10.0 + 3.0 * (i % 70), 10.0 + 3.0 * (i // 70)] for i in range(n)])
        dup = rng.sample(range(4100, n), 20)
        for j, d in enumerate(dup):
            pts[d] = pts[j * 7]                      # a late row repeats an early row of the same batch
        before = a.compute_novelty(pts)
        info = a.add(np.arange(n, dtype=float)[:, None], np.arange(n, dtype=float), pts)
        rep.count("big_batch_probes")
        bad = None
        if not np.array_equal(np.asarray(info["novelty"], dtype=np.float64), np.asarray(before, dtype=np.float64)):
            k = int(np.flatnonzero(np.asarray(info["novelty"]) != np.asarray(before))[0])
            bad = "row %d reports novelty %r, compute_novelty on the pre-call archive gave %r" % (k, float(info["novelty"][k]), float(before[k]))
        elif not np.all(np.asarray(info["status"]) == 2) or len(a) != 2 + n:
            k = int(np.flatnonzero(np.asarray(info["status"]) != 2)[0]) if not np.all(np.asarray(info["status"]) == 2) else -1
            bad = "%d candidates, all farther than the threshold from the two stored entries: status[%d] = %s, the archive holds %d entries (expected %d)" % (
                n, k, None if k < 0 else int(info["status"][k]), len(a), 2 + n)
        if bad:
            rep.violation("ProximityArchive.add of %d candidates in one call (local_competition=%s): %s" % (n, lc, bad),
                          {"kind": "property", "broken": "novelty is judged against the archive before the call", "rows": n, "local_competition": lc,
                           "duplicated_rows": [[int(d), int(j * 7)] for j, d in enumerate(dup)]}, True, {"kind": "big-batch"})
            return


def check(rep, tier, seed, driver):
    import kd_scan
    kd_scan.report(rep)
    py2v_prox.report(rep)
    big_batch_probe(rep, random.Random(seed + 9))
    rng = random.Random(seed)
    n = 600 if tier == "quick" else 2000
    rep.rule = ("random ProximityArchive configurations (k 1..8, thresholds incl. 0, initial_capacity 1..128, float32/float64, with/without "
                "local competition, cKDTree leafsize 1..16) x random histories of add (lists/ndarrays, objective=None), add_single, clear, "
                "lower/upper_bounds reads (often around clears), compute_novelty, index_of, retrieve; stream exact1d: 1-D points on a 2^-3 "
                "lattice incl. duplicates and points exactly at threshold distance (every float operation exact, novelty == threshold "
                "exercised); stream lattice: 2-3-D integer/half-integer points (many equidistant neighbours), distances from numpy. "
                "non-trivial = a batch mixing admitted and rejected candidates on a non-empty archive AND >= 2 capacity doublings AND "
                "(without LC: a clear of a non-empty archive or an admitted duplicate; with LC: a replacement and several competitors for "
                "one neighbour); distinct by hash of (cfg, ops)" 
                "; plus: float64 objectives that are not float32 values (wide container); statistics and best_elite against the contents after every operation")
    cases = []
    cdir = os.path.join(CORPUS, "C14")
    if os.path.isdir(cdir):
        for f in sorted(os.listdir(cdir)):
            if f.endswith(".json"):
                cases.append(json.load(open(os.path.join(cdir, f))))
    rep.count("corpus_cases", len(cases))
    for i in range(n):
        if i % 25 == 24:
            cases.append(u.gen_malformed(rng))
        else:
            cases.append(u.gen_case(rng, tier))
    for case in cases:
        case = {k_: case[k_] for k_ in ("cfg", "ops", "reuse", "relay") if k_ in case}
        try:
            res = u.run_impl(case)
        except Exception as e:  # noqa
            res = None
        verdict, d = run_case(case, driver, res)
        rep.count("stream_" + case["cfg"]["stream"])
        rep.count("verdict_" + verdict)
        nontriv = False
        if verdict == "ok":
            f = u.features(case, res)
            lc = case["cfg"]["lc"]
            rep.count("lc" if lc else "no_lc")
            for key in ("mixed_batch", "replaced", "multi_competitors", "tied_winners", "clear_nonempty", "dup_admitted", "eq_threshold", "lc_tie"):
                if f[key]:
                    rep.count("feat_" + key)
            rep.count("doublings_ge3" if f["doublings"] >= 3 else "doublings_lt3")
            nontriv = f["mixed_batch"] and f["doublings"] >= 2 and (
                (f["replaced"] and f["multi_competitors"]) if lc else (f["clear_nonempty"] or f["dup_admitted"]))
            # the oracle is also run on agreeing cases (cheap): the property must hold on the implementation's outputs
            orc = u.oracle(case, res)
            if orc is not None:
                verdict, d = "bad", {"what": "oracle only", "oracle": orc[0]}
        for o in case["ops"]:
            rep.count("op_" + o[0])
        rep.case(case, nontriv, sample=case if nontriv else None)
        if verdict == "bad":
            report(rep, case, d, driver)
            if len(rep.violations) >= 3:
                break


def replay(rp, driver):
    case = rp["case"]
    d = u.compare(case, driver)
    o = u.oracle(case)
    print("replay C14: disagreement:", json.dumps(u.jsonable(d), default=str)[:1500])
    print("replay C14: oracle:", o)
    return 1 if (d is not None or o is not None) else 0
