"""Fail-closed translator of AdamOpt.step and GradientAscentOpt.step (current source under $VERIF_REPO) into Gallina.

Element-wise reading: every array is one real number, `self._x` attributes are arguments (and, when assigned, outputs),
`np.sqrt` and `**` with a non-literal exponent are the uninterpreted section variables `usqrt` / `upow`.
Supported subset: straight-line `x = e`, `x op= e` (x a local name or `self.attr`), a leading docstring; expressions built from
names, `self.attr`, numeric literals, unary +/-, binary + - * /, `**` (literal exponent 0..4 -> product, otherwise `upow`),
`np.asarray(e)` -> e, `np.sqrt(e)` -> usqrt e.  ANYTHING else raises `Unsupported`: the translation aborts and the tie to
the source counts as broken (the check reports it).  The result is written to coq/Generated/OptGen.v (only when its text
changes, atomically) at import time, i.e. before the Coq gate of ./check runs; coq/Refine/OptRefine.v proves the generated
functions equal to the published rules."""
import ast
import hashlib
import os
from fractions import Fraction

ROOT = os.path.dirname(os.path.dirname(os.path.abspath(__file__)))
REPO = os.environ.get("VERIF_REPO", "/repo")
OUT = os.path.join(ROOT, "coq", "Generated", "OptGen.v")
TARGETS = [("ribs/emitters/opt/_adam_opt.py", "AdamOpt", "step", "adam_step"),
           ("ribs/emitters/opt/_gradient_ascent_opt.py", "GradientAscentOpt", "step", "ga_step")]


class Unsupported(Exception):
    pass


def _fail(node, why):
    raise Unsupported("%s at line %s: %s" % (why, getattr(node, "lineno", "?"), ast.dump(node)[:160]))


class Fn:
    def __init__(self, fdef, gname):
        self.gname = gname
        self.attrs_read, self.attrs_written, self.locals = [], [], set()
        a = fdef.args
        if a.vararg or a.kwarg or a.kwonlyargs or a.defaults or a.posonlyargs or not a.args or a.args[0].arg != "self":
            _fail(fdef, "unsupported signature")
        self.params = [x.arg for x in a.args[1:]]
        self.locals.update(self.params)
        self.lines = []
        body = list(fdef.body)
        if body and isinstance(body[0], ast.Expr) and isinstance(body[0].value, ast.Constant) and isinstance(body[0].value.value, str):
            body = body[1:]
        for st in body:
            self.stmt(st)

    # -- names
    def attr(self, node, write=False):
        if not (isinstance(node.value, ast.Name) and node.value.id == "self"):
            _fail(node, "attribute of something other than self")
        n = "s_" + node.attr.lstrip("_")
        if n not in self.attrs_read and n not in self.attrs_written:
            (self.attrs_written if write else self.attrs_read).append(n)
        if write and n not in self.attrs_written:
            self.attrs_written.append(n)
        return n

    def target(self, t):
        if isinstance(t, ast.Name):
            if t.id in ("usqrt", "upow") or t.id.startswith("s_"):
                _fail(t, "reserved name")
            self.locals.add(t.id)
            return t.id
        if isinstance(t, ast.Attribute):
            return self.attr(t, write=True)
        _fail(t, "unsupported assignment target")

    # -- statements
    def stmt(self, st):
        if isinstance(st, ast.Assign):
            if len(st.targets) != 1:
                _fail(st, "multiple assignment targets")
            e = self.expr(st.value)
            self.lines.append((self.target(st.targets[0]), e))
        elif isinstance(st, ast.AugAssign):
            op = self.binop(st.op, st)
            if isinstance(st.target, ast.Name):
                if st.target.id not in self.locals:
                    _fail(st, "augmented assignment to an undefined name")
                cur = st.target.id
            elif isinstance(st.target, ast.Attribute):
                cur = self.attr(st.target)
            else:
                _fail(st, "unsupported augmented target")
            e = self.expr(st.value)
            tgt = self.target(st.target)
            self.lines.append((tgt, "(%s %s %s)" % (cur, op, e)))
        else:
            _fail(st, "unsupported statement")

    def binop(self, op, node):
        for cls, s in ((ast.Add, "+"), (ast.Sub, "-"), (ast.Mult, "*"), (ast.Div, "/")):
            if isinstance(op, cls):
                return s
        _fail(node, "unsupported operator")

    # -- expressions
    def expr(self, e):
        if isinstance(e, ast.Name):
            if e.id not in self.locals:
                _fail(e, "undefined name")
            return e.id
        if isinstance(e, ast.Attribute):
            return self.attr(e)
        if isinstance(e, ast.Constant):
            v = e.value
            if isinstance(v, bool) or not isinstance(v, (int, float)):
                _fail(e, "unsupported literal")
            fr = Fraction(repr(v)) if isinstance(v, float) else Fraction(v)
            if fr < 0:
                _fail(e, "negative literal")
            return "%d" % fr.numerator if fr.denominator == 1 else "(%d / %d)" % (fr.numerator, fr.denominator)
        if isinstance(e, ast.UnaryOp):
            if isinstance(e.op, ast.USub):
                return "(- %s)" % self.expr(e.operand)
            if isinstance(e.op, ast.UAdd):
                return self.expr(e.operand)
            _fail(e, "unsupported unary operator")
        if isinstance(e, ast.BinOp):
            if isinstance(e.op, ast.Pow):
                base = self.expr(e.left)
                if isinstance(e.right, ast.Constant) and isinstance(e.right.value, int) and not isinstance(e.right.value, bool) and 0 <= e.right.value <= 4:
                    k = e.right.value
                    return "1" if k == 0 else "(" + " * ".join([base] * k) + ")"
                return "(upow %s %s)" % (base, self.expr(e.right))
            return "(%s %s %s)" % (self.expr(e.left), self.binop(e.op, e), self.expr(e.right))
        if isinstance(e, ast.Call):
            f = e.func
            if (isinstance(f, ast.Attribute) and isinstance(f.value, ast.Name) and f.value.id == "np" and not e.keywords and len(e.args) == 1):
                if f.attr == "asarray":
                    return self.expr(e.args[0])
                if f.attr == "sqrt":
                    return "(usqrt %s)" % self.expr(e.args[0])
            _fail(e, "unsupported call")
        _fail(e, "unsupported expression")

    def gallina(self):
        attrs = sorted(set(self.attrs_read) | set(self.attrs_written))
        outs = sorted(self.attrs_written)
        if not outs:
            raise Unsupported("%s assigns no attribute of self" % self.gname)
        ty = " * ".join(["R"] * len(outs))
        s = "Definition %s (%s : R) (%s : R) : %s :=\n" % (self.gname, " ".join(attrs), " ".join(self.params), ty)
        for tgt, e in self.lines:
            s += "  let %s := %s in\n" % (tgt, e)
        s += "  %s.\n" % (outs[0] if len(outs) == 1 else "(" + ", ".join(outs) + ")")
        return s


def find_method(tree, cls, meth):
    for n in tree.body:
        if isinstance(n, ast.ClassDef) and n.name == cls:
            ms = [m for m in n.body if isinstance(m, ast.FunctionDef) and m.name == meth]
            if len(ms) == 1:
                if ms[0].decorator_list:
                    raise Unsupported("%s.%s is decorated" % (cls, meth))
                return ms[0]
    raise Unsupported("cannot locate %s.%s" % (cls, meth))


def translate(repo=None):
    repo = repo or REPO
    defs, h = [], hashlib.sha256()
    for rel, cls, meth, gname in TARGETS:
        src = open(os.path.join(repo, rel)).read()
        fdef = find_method(ast.parse(src), cls, meth)
        h.update(ast.dump(fdef).encode())
        defs.append("(** %s : %s.%s *)\n" % (rel, cls, meth) + Fn(fdef, gname).gallina())
    text = ("(** GENERATED by harness/py2v_c18.py from the current pyribs source on every run -- do not edit.\n"
            "    Element-wise reading of the gradient optimizers' step functions; [usqrt] = np.sqrt and [upow] = ** with a\n"
            "    non-literal exponent are uninterpreted.  Refine/OptRefine.v proves these equal to the published rules. *)\n"
            "From Coq Require Import Reals.\nOpen Scope R_scope.\n\nSection OptGen.\nVariable usqrt : R -> R.\nVariable upow : R -> R -> R.\n\n"
            + "\n".join(defs) + "End OptGen.\n")
    return text, h.hexdigest()


def generate():
    st = {"ok": False, "error": None, "source": [t[0] for t in TARGETS], "written": False, "sha": None}
    try:
        text, st["sha"] = translate()
        st["ok"] = True
    except Unsupported as e:
        st["error"] = str(e)
        return st
    except Exception as e:  # noqa  (unreadable / unparsable source is a broken tie as well)
        st["error"] = repr(e)
        return st
    try:
        old = open(OUT).read() if os.path.exists(OUT) else None
        if old != text:
            os.makedirs(os.path.dirname(OUT), exist_ok=True)
            tmp = OUT + ".tmp%d" % os.getpid()
            with open(tmp, "w") as f:
                f.write(text)
            os.replace(tmp, OUT)
            st["written"] = True
    except OSError as e:
        st["ok"], st["error"] = False, "cannot write %s: %r" % (OUT, e)
    return st


STATUS = generate()

if __name__ == "__main__":
    print(STATUS)
    print(open(OUT).read() if STATUS["ok"] else "")
