"""Helpers of the C20 check: exact geometry on drawn polygons, colormap bin decoding, artist extraction."""
import math
from fractions import Fraction as F

import numpy as np


def fr(x):
    """exact rational of a finite float-like; None for NaN / masked"""
    if x is None or x is np.ma.masked:
        return None
    x = float(x)
    if x != x:
        return None
    return F(x)


def frl(xs):
    return [fr(x) for x in xs]


# ---------------------------------------------------------------------------------------------
# colours
BLANK = (1.0, 1.0, 1.0, 0.0)


def rgba_candidates(cmap, t):
    """RGBA tuples the colormap may return for the value t in [0,1] (exact Fraction); the neighbouring bin is
    admitted only when t*N is within 1e-9 of a bin edge (the implementation computes t in floating point)."""
    n = cmap.N
    x = t * n
    k = int(x) if x >= 0 else -1  # floor for non-negative
    ks = {k}
    if x - k < F(1, 10 ** 9):
        ks.add(k - 1)
    if (k + 1) - x < F(1, 10 ** 9):
        ks.add(k + 1)
    out = []
    for kk in ks:
        kk = min(max(kk, 0), n - 1)
        out.append(tuple(float(c) for c in cmap(int(kk))))
    return out


def rgba_close(a, b, ncomp=4):
    return all(abs(float(x) - float(y)) <= 1e-9 for x, y in zip(a[:ncomp], b[:ncomp]))


def color_ok(cmap, t, rgba, ncomp=4):
    """t: Fraction in [0,1] or None (blank)."""
    if t is None:
        return rgba_close(rgba, BLANK, 4)
    return any(rgba_close(rgba, c, ncomp) for c in rgba_candidates(cmap, t))


# ---------------------------------------------------------------------------------------------
# exact polygon geometry
def clean_poly(verts):
    """drop the closing vertex and consecutive duplicates; vertices as Fractions"""
    out = []
    for v in verts:
        p = (F(float(v[0])), F(float(v[1])))
        if not out or out[-1] != p:
            out.append(p)
    while len(out) > 1 and out[0] == out[-1]:
        out.pop()
    return out


def signed_area2(poly):
    s = F(0)
    n = len(poly)
    for i in range(n):
        x0, y0 = poly[i]
        x1, y1 = poly[(i + 1) % n]
        s += x0 * y1 - x1 * y0
    return s


def crosses(poly, p):
    """cross products (edge x (p - start)) for every edge"""
    n = len(poly)
    out = []
    for i in range(n):
        x0, y0 = poly[i]
        x1, y1 = poly[(i + 1) % n]
        out.append((x1 - x0) * (p[1] - y0) - (y1 - y0) * (p[0] - x0))
    return out


def contains_strict(poly, orient, p):
    return all(c * orient > 0 for c in crosses(poly, p))


def contains_tol(poly, orient, p, tol):
    return all(c * orient >= -tol for c in crosses(poly, p))


def d2(a, b):
    return (a[0] - b[0]) ** 2 + (a[1] - b[1]) ** 2


def check_voronoi(sites, site_t, polys, facecolors, cmap, box, clip, sample_pts):
    """sites: [(F,F)] as drawn; site_t: [F|None] colormap argument per site (None = blank);
    polys: list of vertex arrays; facecolors: (n,4); box = ((x0,x1),(y0,y1)) Fractions.
    Returns None or a message. All tests in exact rational arithmetic on the drawn float coordinates."""
    if len(polys) != len(facecolors):
        return "PolyCollection has %d paths but %d face colours" % (len(polys), len(facecolors))
    owner = {}
    cleaned = []
    for pi, verts in enumerate(polys):
        poly = clean_poly(verts)
        if len(poly) < 3:
            return "polygon %d is degenerate (%d distinct vertices)" % (pi, len(poly))
        a2 = signed_area2(poly)
        if a2 == 0:
            return "polygon %d has zero area" % pi
        orient = 1 if a2 > 0 else -1
        inside = [si for si, s in enumerate(sites) if contains_strict(poly, orient, s)]
        if len(inside) != 1:
            return "polygon %d contains %d centroids %s (must contain exactly its own)" % (pi, len(inside), inside)
        si = inside[0]
        if si in owner:
            return "centroid %d owns two polygons (%d and %d)" % (si, owner[si], pi)
        owner[si] = pi
        s = sites[si]
        for v in poly:
            dv = d2(v, s)
            for sj, o in enumerate(sites):
                if sj != si:
                    do = d2(v, o)
                    # tolerance: the regions are built by Qhull on the centroids plus four auxiliary points 1000 ranges away, so a
                    # vertex carries a position error of the order of 1e-9 x that scale (measured: 2e-10 on a 0.3 x 7.5 box); a
                    # vertex that is farther from its own centroid than from another by more than the corresponding change of the
                    # squared distance is outside the nearest-neighbour region
                    epos = F(1, 10 ** 9) * 1000 * max(box[0][1] - box[0][0], box[1][1] - box[1][0])
                    dso = d2(s, o)
                    tol = epos * epos + 2 * epos * F(math.sqrt(float(dso)) + 1e-300) + F(1, 10 ** 9) * max(dv, do, F(1, 10 ** 30))
                    if dv > do + tol:
                        return ("polygon %d (centroid %d): vertex (%r, %r) is closer to centroid %d — not inside the nearest-"
                                "neighbour region" % (pi, si, float(v[0]), float(v[1]), sj))
        if not color_ok(cmap, site_t[si], facecolors[pi]):
            return "polygon of centroid %d: face colour %s is not %s" % (
                si, [round(float(c), 6) for c in facecolors[pi]],
                "blank" if site_t[si] is None else "cmap(%s)" % float(site_t[si]))
        cleaned.append((poly, orient, a2, si))
    if len(owner) != len(sites):
        return "centroids %s have no polygon" % sorted(set(range(len(sites))) - set(owner))
    (x0, x1), (y0, y1) = box
    if clip:
        total = sum(abs(a2) for _, _, a2, _ in cleaned) / 2
        barea = (x1 - x0) * (y1 - y0)
        if abs(total - barea) > F(1, 10 ** 9) * barea:
            return "clipped polygons cover area %r, the clip box has %r" % (float(total), float(barea))
        for poly, _, _, si in cleaned:
            for v in poly:
                ex = F(1, 10 ** 9) * max(abs(x1 - x0), abs(y1 - y0))
                if not (x0 - ex <= v[0] <= x1 + ex and y0 - ex <= v[1] <= y1 + ex):
                    return "clipped polygon of centroid %d leaves the clip box at (%r, %r)" % (si, float(v[0]), float(v[1]))
    # coverage: a point of the box lies in the polygon of its nearest centroid
    scale = max(abs(x1 - x0), abs(y1 - y0))
    for p in sample_pts:
        ds = sorted((d2(p, s), si) for si, s in enumerate(sites))
        if len(ds) > 1 and ds[1][0] - ds[0][0] <= F(1, 10 ** 6) * scale * scale:
            continue  # too close to a region border to be decided robustly
        si = ds[0][1]
        poly, orient, a2, _ = cleaned[owner[si]]
        if not contains_tol(poly, orient, p, F(1, 10 ** 9) * scale * scale):
            return "point (%r, %r) of the plot is nearest to centroid %d but is not covered by its polygon" % (
                float(p[0]), float(p[1]), si)
    return None


CLIP_SHAPES = {
    # hole-free polygons in unit coordinates of the drawn box (the library draws the exterior ring of every piece only)
    "slot": [(0, 0), (1, 0), (1, 1), (0.5625, 1), (0.5625, 0.1875), (0.4375, 0.1875), (0.4375, 1), (0, 1)],
    "comb": [(0, 0), (1, 0), (1, 1), (0.8125, 1), (0.8125, 0.25), (0.6875, 0.25), (0.6875, 1), (0.3125, 1), (0.3125, 0.25), (0.1875, 0.25), (0.1875, 1), (0, 1)],
    "hslot": [(0, 0), (1, 0), (1, 0.4375), (0.125, 0.4375), (0.125, 0.5625), (1, 0.5625), (1, 1), (0, 1)],
    "ell": [(0, 0), (1, 0), (1, 0.375), (0.375, 0.375), (0.375, 1), (0, 1)],
    "tri": [(0.0625, 0.0625), (0.9375, 0.125), (0.5, 0.9375)],
}


def clip_polygon_coords(spec, box):
    (x0, x1), (y0, y1) = [(float(a), float(b)) for a, b in box]
    return [(x0 + u * (x1 - x0), y0 + v * (y1 - y0)) for u, v in CLIP_SHAPES[spec["poly"]]]


def check_voronoi_poly(sites, site_t, polys, facecolors, cmap, box, spec, sample_pts):
    """the 2-D CVT heat map clipped to a user-supplied (possibly non-convex) polygon: a Voronoi region may be cut into several
    pieces, each drawn piece must lie in the nearest-neighbour region of ONE centroid and carry the colour of that centroid's
    cell; together the pieces cover the clip polygon.  Point-in-polygon tests use shapely (floats) away from borders."""
    import shapely
    if len(polys) != len(facecolors):
        return "PolyCollection has %d paths but %d face colours" % (len(polys), len(facecolors))
    clip = shapely.Polygon(clip_polygon_coords(spec, box))
    (x0, x1), (y0, y1) = box
    scale = max(abs(x1 - x0), abs(y1 - y0))
    fscale = float(scale)
    pieces = []
    total = 0.0
    for pi, verts in enumerate(polys):
        poly = clean_poly(verts)
        if len(poly) == 0:
            pieces.append((None, None))      # a region that does not meet the clip polygon: an empty path, nothing is drawn
            continue
        if len(poly) < 3:
            return "polygon %d is degenerate (%d distinct vertices)" % (pi, len(poly))
        sp = shapely.Polygon([(float(a), float(b)) for a, b in poly])
        if not sp.is_valid or sp.area <= 0:
            return "polygon %d is not a simple polygon with positive area" % pi
        total += sp.area
        if sp.area < 1e-7 * fscale * fscale:
            pieces.append((sp, None))      # a sliver: its owner cannot be decided robustly
            continue
        rp = sp.representative_point()
        p = (F(rp.x), F(rp.y))
        ds = sorted((d2(p, s), si) for si, s in enumerate(sites))
        si = ds[0][1]
        s = sites[si]
        epos = F(1, 10 ** 9) * 1000 * scale
        for v in poly:
            dv = d2(v, s)
            for sj, o in enumerate(sites):
                if sj != si:
                    do = d2(v, o)
                    tol = epos * epos + 2 * epos * F(math.sqrt(float(d2(s, o))) + 1e-300) + F(1, 10 ** 9) * max(dv, do, F(1, 10 ** 30))
                    if dv > do + tol:
                        if len(ds) > 1 and ds[1][0] - ds[0][0] <= F(1, 10 ** 6) * scale * scale:
                            break      # the interior point itself is near a border: undecided
                        return ("polygon %d (interior point nearest to centroid %d): vertex (%r, %r) is closer to centroid %d -- the piece is "
                                "not inside one nearest-neighbour region" % (pi, si, float(v[0]), float(v[1]), sj))
        if len(ds) > 1 and ds[1][0] - ds[0][0] <= F(1, 10 ** 6) * scale * scale:
            pieces.append((sp, None))
            continue
        if not color_ok(cmap, site_t[si], facecolors[pi]):
            return "polygon %d, a piece of the region of centroid %d: face colour %s is not %s" % (
                pi, si, [round(float(c), 6) for c in facecolors[pi]], "blank" if site_t[si] is None else "cmap(%s)" % float(site_t[si]))
        if not clip.buffer(1e-9 * fscale).contains(sp):
            return "polygon %d leaves the clip polygon" % pi
        pieces.append((sp, si))
    if abs(total - clip.area) > 1e-9 * max(clip.area, 1e-300):
        return "the drawn pieces cover area %r, the clip polygon has %r" % (total, clip.area)
    for p in sample_pts:
        pt = shapely.Point(float(p[0]), float(p[1]))
        if not clip.buffer(-1e-6 * fscale).contains(pt):
            continue
        ds = sorted((d2(p, s), si) for si, s in enumerate(sites))
        if len(ds) > 1 and ds[1][0] - ds[0][0] <= F(1, 10 ** 6) * scale * scale:
            continue
        si = ds[0][1]
        hit = [pc for pc in pieces if pc[0] is not None and pc[0].buffer(1e-9 * fscale).contains(pt)]
        if not hit:
            return "point (%r, %r) of the clip polygon is covered by no drawn polygon" % (float(p[0]), float(p[1]))
        if all(h[1] is not None and h[1] != si for h in hit):
            return "point (%r, %r) is nearest to centroid %d but lies in a piece attributed to centroid %s" % (float(p[0]), float(p[1]), si, [h[1] for h in hit])
    return None


# ---------------------------------------------------------------------------------------------
# artists -> plain data
def quadmesh_data(ax):
    from matplotlib.collections import QuadMesh
    qs = [c for c in ax.collections if isinstance(c, QuadMesh)]
    if len(qs) != 1:
        return {"artist_error": "expected 1 QuadMesh, found %d" % len(qs)}
    c = qs[0]
    arr = c.get_array()
    coords = np.asarray(c.get_coordinates())
    ny, nx = coords.shape[0] - 1, coords.shape[1] - 1
    arr = np.ma.masked_invalid(np.ma.asarray(arr)).reshape(ny, nx)
    colors = [[None if arr.mask is not np.ma.nomask and np.ma.getmaskarray(arr)[y, x] else fr(arr[y, x]) for x in range(nx)]
              for y in range(ny)]
    xb = [float(v) for v in coords[0, :, 0]]
    yb = [float(v) for v in coords[:, 0, 1]]
    regular = bool(np.all(coords[:, :, 0] == coords[0:1, :, 0]) and np.all(coords[:, :, 1] == coords[:, 0:1, 1]))
    return {"xb": xb, "yb": yb, "colors": colors, "clim": tuple(float(v) for v in c.get_clim()), "regular": regular,
            "cmap": c.get_cmap().name}


def scatter_data(ax):
    from matplotlib.collections import LineCollection, PathCollection
    ps = [c for c in ax.collections if isinstance(c, PathCollection)]
    if len(ps) != 1:
        return {"artist_error": "expected 1 PathCollection, found %d" % len(ps)}
    c = ps[0]
    off = np.ma.getdata(c.get_offsets())
    arr = c.get_array()
    arr = [] if arr is None else list(np.ma.getdata(arr).reshape(-1))
    segs = []
    for lc in ax.collections:
        if isinstance(lc, LineCollection):
            for s in lc.get_segments():
                segs.append(((float(s[0][0]), float(s[0][1])), (float(s[-1][0]), float(s[-1][1]))))
    return {"offsets": [(float(p[0]), float(p[1])) for p in off], "array": [float(v) for v in arr], "segments": segs,
            "clim": tuple(float(v) for v in c.get_clim()), "cmap": c.get_cmap().name}


def poly_data(ax):
    from matplotlib.collections import PolyCollection
    ps = [c for c in ax.collections if isinstance(c, PolyCollection)]
    if len(ps) != 1:
        return {"artist_error": "expected 1 PolyCollection, found %d" % len(ps)}
    c = ps[0]
    return {"polys": [np.asarray(p.vertices).tolist() for p in c.get_paths()],
            "facecolors": [tuple(float(v) for v in f) for f in c.get_facecolors()]}


def markers_data(ax):
    out = []
    for l in ax.lines:
        out.extend((float(x), float(y)) for x, y in zip(l.get_xdata(), l.get_ydata()))
    return out


def colorbar_clim(fig):
    for a in fig.axes:
        cb = getattr(a, "_colorbar", None)
        if cb is not None:
            lo, hi = cb.mappable.get_clim()
            return (float(lo), float(hi))
    return None
