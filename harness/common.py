"""Shared machinery for all property checks: model driver, sx wire format, PRNG, evidence, replays,
known findings, Coq build / hygiene / assumption capture."""
import fcntl
import hashlib
import json
import os
import random
import re
import subprocess
import sys
import time
from fractions import Fraction

ROOT = os.path.dirname(os.path.dirname(os.path.abspath(__file__)))
COQ = os.path.join(ROOT, "coq")
OCAML = os.path.join(ROOT, "ocaml")
DRIVER = os.path.join(OCAML, "driver")
EVIDENCE = os.path.join(ROOT, "evidence")
REPLAYS = os.path.join(ROOT, "replays")
CORPUS = os.path.join(ROOT, "corpus")
REPO = os.environ.get("VERIF_REPO", "/repo")

ALLOWED_AXIOMS = {
    # axioms declared by the Coq standard library itself (named in DESIGN.md section 7)
    "ClassicalDedekindReals.sig_forall_dec", "ClassicalDedekindReals.sig_not_dec",
    "FunctionalExtensionality.functional_extensionality_dep", "Classical_Prop.classic",
    "Eqdep.Eq_rect_eq.eq_rect_eq", "JMeq.JMeq_eq", "ProofIrrelevance.proof_irrelevance",
    "ClassicalEpsilon.constructive_indefinite_description",
}


# ---------------------------------------------------------------------------------------------
# sx wire format
def sx_dump(o):
    if isinstance(o, bool):
        return "1" if o else "0"
    if isinstance(o, int):
        return str(o)
    if isinstance(o, (list, tuple)):
        return "(" + " ".join(sx_dump(x) for x in o) + ")"
    if isinstance(o, Fraction):
        return "(%d %d)" % (o.numerator, o.denominator)
    raise TypeError("cannot encode %r" % (o,))


_TOK = re.compile(r"\(|\)|[^\s()]+")


def sx_load(s):
    stack = [[]]
    for t in _TOK.findall(s):
        if t == "(":
            stack.append([])
        elif t == ")":
            l = stack.pop()
            stack[-1].append(l)
        else:
            stack[-1].append(int(t, 0))
    assert len(stack) == 1 and len(stack[0]) == 1, s[:200]
    return stack[0][0]


def q(x):
    """exact rational value of a finite float / int / numpy scalar"""
    return Fraction(float(x)) if not isinstance(x, (int, Fraction)) else Fraction(x)


def unq(p):
    return Fraction(p[0], p[1])


class Driver:
    """One persistent process of the extracted model."""

    def __init__(self):
        if not os.path.exists(DRIVER):
            raise RuntimeError("model driver not built; run ./setup.sh")
        self.p = subprocess.Popen([DRIVER], stdin=subprocess.PIPE, stdout=subprocess.PIPE, text=True, bufsize=1)

    def call(self, runner, arg):
        self.p.stdin.write(runner + " " + sx_dump(arg) + "\n")
        self.p.stdin.flush()
        line = self.p.stdout.readline()
        if not line:
            raise RuntimeError("model driver died on runner %s" % runner)
        line = line.strip()
        if line.startswith("!"):
            raise RuntimeError("model driver error: " + line)
        out = sx_load(line)
        if out == [-999]:
            raise RuntimeError("model could not decode its input (harness/model protocol bug): %s" % sx_dump(arg)[:500])
        return out

    def close(self):
        try:
            self.p.stdin.close()
            self.p.wait(timeout=5)
        except Exception:
            self.p.kill()


# ---------------------------------------------------------------------------------------------
ERR_CODES = {"ValueError": 1, "IndexError": 2, "RuntimeError": 3, "KeyError": 4, "TypeError": 5,
             "StopIteration": 6}


def err_code(exc):
    for cls, v in ((ValueError, 1), (IndexError, 2), (RuntimeError, 3), (KeyError, 4), (TypeError, 5), (StopIteration, 6)):
        if isinstance(exc, cls):
            return v
    return 7


def seed_from_env(default=20260926):
    try:
        return int(os.environ.get("VERIF_SEED", default))
    except ValueError:
        return default


def canon_hash(o):
    return hashlib.sha1(json.dumps(o, sort_keys=True, default=str).encode()).hexdigest()


# ---------------------------------------------------------------------------------------------
# Coq side: build, hygiene, assumptions
def _strip_comments(src):
    out = []
    depth = 0
    i = 0
    n = len(src)
    while i < n:
        if src.startswith("(*", i):
            depth += 1
            i += 2
        elif src.startswith("*)", i) and depth > 0:
            depth -= 1
            i += 2
        else:
            if depth == 0:
                out.append(src[i])
            i += 1
    return "".join(out)


_FORBIDDEN = [r"\bAdmitted\b", r"\badmit\b", r"\bAxiom\b", r"\bAxioms\b", r"\bParameter\b", r"\bParameters\b",
              r"\bConjecture\b", r"Admit\s+Obligations", r"Unset\s+Guard\s+Checking", r"bypass_check",
              r"type-in-type", r"impredicative-set", r"Unset\s+Universe\s+Checking", r"Unset\s+Positivity\s+Checking",
              r"\bgive_up\b"]


def hygiene():
    """Returns list of offending (file, line, text). Variable/Hypothesis/Context only inside Sections."""
    bad = []
    for dp, _, fs in os.walk(COQ):
        for f in fs:
            if not f.endswith(".v"):
                continue
            path = os.path.join(dp, f)
            src = _strip_comments(open(path).read())
            depth = 0
            for ln, line in enumerate(src.split("\n"), 1):
                for pat in _FORBIDDEN:
                    if re.search(pat, line):
                        bad.append((os.path.relpath(path, ROOT), ln, line.strip()))
                if re.match(r"\s*Section\b", line):
                    depth += 1
                elif re.match(r"\s*End\b", line) and depth > 0:
                    depth -= 1  # also closes Modules; harmless (only makes the gate stricter for sections)
                if depth == 0 and re.match(r"\s*(Variable|Variables|Hypothesis|Hypotheses|Context)\b", line):
                    bad.append((os.path.relpath(path, ROOT), ln, line.strip()))
            for flag in ("-type-in-type", "-impredicative-set"):
                pass
    cp = open(os.path.join(COQ, "_CoqProject")).read()
    for flag in ("type-in-type", "impredicative-set", "-noinit"):
        if flag in cp:
            bad.append(("coq/_CoqProject", 0, flag))
    return bad


def run(cmd, cwd=None, timeout=1800, env=None):
    t0 = time.time()
    try:
        p = subprocess.run(cmd, cwd=cwd, shell=isinstance(cmd, str), stdout=subprocess.PIPE, stderr=subprocess.STDOUT,
                           text=True, timeout=timeout, env=env)
        return p.returncode, p.stdout, time.time() - t0
    except subprocess.TimeoutExpired as e:
        return 124, (e.stdout or "") + "\nTIMEOUT", time.time() - t0


class BuildLock:
    def __enter__(self):
        self.f = open(os.path.join(ROOT, ".build.lock"), "w")
        fcntl.flock(self.f, fcntl.LOCK_EX)
        return self

    def __exit__(self, *a):
        fcntl.flock(self.f, fcntl.LOCK_UN)
        self.f.close()


def build_all(jobs=16, clean=False, targets=None):
    """Full .vo build of the Coq development (targets=None) or of the given .vo targets and everything they depend on
    (a property's cone + the extraction), then extraction + driver. Returns (ok, log)."""
    with BuildLock():
        log = []
        rc, out, _ = run([sys.executable, os.path.join(ROOT, "tools", "gen_registry.py")])
        log.append(out)
        if rc != 0:
            return False, "\n".join(log)
        if clean:
            run("find . -name '*.vo' -o -name '*.glob' -o -name '*.vok' -o -name '*.vos' -o -name '.*.aux' | xargs rm -f", cwd=COQ)
        rc, out, _ = run("coq_makefile -f _CoqProject -o Makefile.coq", cwd=COQ, timeout=120)
        log.append(out)
        if rc != 0:
            return False, "\n".join(log)
        tg = "" if not targets else " " + " ".join(sorted(set(targets)))
        rc, out, _ = run("timeout 3000 make -f Makefile.coq -j%d%s" % (jobs, tg), cwd=COQ, timeout=3100)
        log.append(out)
        if rc != 0:
            return False, "\n".join(log)
        newest_vo = max([os.path.getmtime(os.path.join(dp, f)) for dp, _, fs in os.walk(COQ) for f in fs if f.endswith(".vo")] or [0])
        srcs = [os.path.join(OCAML, f) for f in ("driver.ml", "runners.ml", "build.sh")]
        need = (not os.path.exists(DRIVER)) or os.path.getmtime(DRIVER) < max([newest_vo] + [os.path.getmtime(s) for s in srcs])
        if need:
            rc, out, _ = run("./build.sh", cwd=OCAML, timeout=1200)
            log.append(out)
            if rc != 0:
                return False, "\n".join(log)
        return True, "\n".join(log)


def property_assumptions(prop, extra_files=()):
    """Recompiles Properties/<prop>.v (always) and parses its Print Assumptions output.
    Returns dict(ok, theorems=[names], assumptions={name: [axioms]}, log)."""
    with BuildLock():
        files = ["Properties/%s.v" % prop] + list(extra_files)
        logs = []
        ok = True
        for f in files:
            rc, out, _ = run("timeout 900 coqc -Q . PV -w -notation-overridden,-deprecated-hint-without-locality,-deprecated-instance-without-locality %s" % f, cwd=COQ, timeout=1000)
            logs.append(out)
            ok = ok and rc == 0
    out = "\n".join(logs)
    src = _strip_comments("\n".join(open(os.path.join(COQ, f)).read() for f in files))
    thms = re.findall(r"^\s*(?:Theorem|Lemma|Example|Corollary)\s+([A-Za-z0-9_']+)", src, re.M)
    printed = re.findall(r"Print\s+Assumptions\s+([A-Za-z0-9_'.]+)\s*\.", src)
    # parse output blocks in order
    blocks = []
    cur = None
    for line in out.split("\n"):
        if line.startswith("Closed under the global context"):
            blocks.append([])
            cur = None
        elif line.startswith("Axioms:"):
            cur = []
            blocks.append(cur)
        elif cur is not None:
            # an axiom entry starts at column 0 with its qualified name; its type may follow on the same line after " : " or on
            # indented continuation lines
            m = re.match(r"^([A-Za-z_][A-Za-z0-9_'.]*)\s*(:|$)", line)
            if m:
                cur.append(m.group(1))
    assum = {}
    if len(blocks) == len(printed):
        for n, b in zip(printed, blocks):
            assum[n] = b
    else:
        ok = False
        out += "\n[harness] Print Assumptions output count mismatch: %d blocks for %d commands" % (len(blocks), len(printed))
    return {"ok": ok, "theorems": thms, "printed": printed, "assumptions": assum, "log": out}


def count_statements(files):
    n = 0
    for f in files:
        p = os.path.join(COQ, f)
        if os.path.exists(p):
            n += len(re.findall(r"^\s*(?:Theorem|Lemma|Example|Corollary|Fact|Proposition)\s+", _strip_comments(open(p).read()), re.M))
    return n


# ---------------------------------------------------------------------------------------------
# known findings
def load_known():
    p = os.path.join(ROOT, "known_findings.json")
    if not os.path.exists(p):
        return []
    return json.load(open(p)).get("findings", [])


class Report:
    """Collects what a check explored and found; writes evidence; prints the verdict lines."""

    def __init__(self, prop, tier, seed):
        self.prop, self.tier, self.seed = prop, tier, seed
        self.t0 = time.time()
        self.evaluations = 0
        self.nontrivial = set()
        self.samples = []
        self.violations = []      # dicts with keys: kind, what, replay(dict), failing_input_found(bool), match(dict of tags)
        self.known_hits = []
        self.hist = {}
        self.notes = []
        self.coq = None
        self.rule = ""
        self.extra = {}
        self.trusted = []
        self.assumptions = []

    def count(self, key, n=1):
        self.hist[key] = self.hist.get(key, 0) + n

    def case(self, canonical, nontrivial, sample=None):
        self.evaluations += 1
        if nontrivial:
            self.nontrivial.add(canon_hash(canonical))
        if sample is not None and len(self.samples) < 3:
            self.samples.append(sample)

    def violation(self, what, replay, failing_input_found, tags=None):
        """tags: dict used to match known findings"""
        tags = tags or {}
        for k in load_known():
            if k.get("state") == "known" and k.get("property") == self.prop:
                m = k.get("match", {})
                if m and all(tags.get(a) == b for a, b in m.items()):
                    if k["id"] not in [h["id"] for h in self.known_hits]:
                        self.known_hits.append({"id": k["id"], "what": k["what"]})
                    return
        self.violations.append({"what": what, "replay": replay, "found": failing_input_found, "tags": tags})

    def finish(self):
        os.makedirs(EVIDENCE, exist_ok=True)
        os.makedirs(REPLAYS, exist_ok=True)
        wall = time.time() - self.t0
        coq = self.coq or {}
        obligations = coq.get("obligations", 0)
        discharged = coq.get("discharged", 0)
        cov = {
            "obligations": obligations, "discharged": discharged,
            "checker_cmd": coq.get("checker_cmd", "coqc (full .vo build via coq_makefile/make) + Print Assumptions per theorem"),
            "trusted_base": self.trusted,
            "evaluations": self.evaluations,
            "distinct_nontrivial": len(self.nontrivial),
            "rule": self.rule,
            "samples": self.samples,
            "disagreements_checked": self.evaluations,
            "histogram": self.hist,
            "theorems": coq.get("theorems", []),
            "axioms_per_theorem": coq.get("assumptions", {}),
            "notes": self.notes,
        }
        cov.update(self.extra)
        ev = {"property_id": self.prop, "tier": self.tier, "seed": self.seed, "level": "proof", "coverage": cov,
              "assumptions": self.assumptions, "wall_s": round(wall, 2), "violations": len(self.violations),
              "known_findings_hit": self.known_hits}
        with open(os.path.join(EVIDENCE, self.prop + ".json"), "w") as f:
            json.dump(ev, f, indent=1, default=str)
        for h in self.known_hits:
            print("KNOWN-FINDING: property=%s %s (%s)" % (self.prop, h["what"], h["id"]))
        rc = 0
        for i, v in enumerate(self.violations[:5]):
            path = os.path.join(REPLAYS, "%s_%s_%d.json" % (self.prop, self.tier, i))
            rep = dict(v["replay"])
            rep.update({"property": self.prop, "what": v["what"], "failing_input_found": v["found"], "seed": self.seed,
                        "tier": self.tier, "tags": v["tags"]})
            with open(path, "w") as f:
                json.dump(rep, f, indent=1, default=str)
            print("VIOLATION property=%s replay=%s%s" % (self.prop, path, "" if v["found"] else " no-failing-input-found"))
            rc = 1
        print("[%s %s] evaluations=%d distinct_nontrivial=%d obligations=%d discharged=%d violations=%d known=%d wall=%.1fs" % (
            self.prop, self.tier, self.evaluations, len(self.nontrivial), obligations, discharged, len(self.violations),
            len(self.known_hits), wall))
        return rc


def coq_gate(rep, prop, cone_files, extra_property_files=()):
    """Build + hygiene + assumptions for a property. Failures become violations (no failing input yet)."""
    # only this property's cone (and the extraction the driver is built from) is rebuilt: a proof obligation that breaks in the cone
    # of another property must not raise an alarm here
    targets = [f[:-2] + ".vo" for f in list(cone_files) + list(extra_property_files) if f.endswith(".v") and os.path.exists(os.path.join(COQ, f))]
    targets += ["Properties/%s.vo" % prop, "Extract/Extract.vo"]
    ok, log = build_all(targets=targets)
    if not ok:
        tail = "\n".join(log.split("\n")[-40:])
        rep.violation("Coq development does not build", {"kind": "proof-obligation", "broken": "make (full .vo build)", "log_tail": tail}, False,
                      {"kind": "build"})
        rep.coq = {"obligations": count_statements(cone_files), "discharged": 0}
        return False
    bad = hygiene()
    if bad:
        rep.violation("hygiene gate: forbidden construct in the development", {"kind": "hygiene", "offending": bad[:20]}, False, {"kind": "hygiene"})
    pa = property_assumptions(prop, extra_property_files)
    n_obl = count_statements(cone_files)
    discharged = n_obl
    if not pa["ok"]:
        rep.violation("Properties/%s.v does not compile" % prop, {"kind": "proof-obligation", "broken": "Properties/%s.v" % prop,
                                                                "log_tail": "\n".join(pa["log"].split("\n")[-40:])}, False, {"kind": "build"})
        discharged = 0
    for name, axs in pa["assumptions"].items():
        foreign = [a for a in axs if a not in ALLOWED_AXIOMS and not a.startswith("PrimFloat.") and not a.startswith("Uint63.") and not a.startswith("PrimInt63.") and not a.startswith("FloatAxioms.")]
        if foreign:
            rep.violation("theorem %s depends on axioms outside the allowed list: %s" % (name, foreign),
                          {"kind": "axioms", "theorem": name, "axioms": axs}, False, {"kind": "axioms"})
            discharged -= 1
    rep.coq = {"obligations": n_obl, "discharged": max(discharged, 0), "theorems": pa["printed"], "assumptions": pa["assumptions"],
               "checker_cmd": "cd coq && coq_makefile -f _CoqProject -o Makefile.coq && make -f Makefile.coq -j16 && coqc -Q . PV Properties/%s.v (Print Assumptions captured)" % prop}
    return pa["ok"]


def coqchk_property(rep, prop, extra_property_files=(), budget=900):
    """thorough tier: re-check the compiled property file (and everything it depends on) with the independent checker and record
    the axioms it reports; anything outside the allowed list, or a checker failure, is a violation (no failing input)."""
    mods = ["PV.Properties.%s" % prop] + ["PV." + f[:-2].replace("/", ".") for f in extra_property_files]
    with BuildLock():
        rc, out, wall = run("timeout %d coqchk -silent -o -Q . PV %s" % (budget, " ".join(mods)), cwd=COQ, timeout=budget + 60)
    axioms, on = [], False
    for line in out.split("\n"):
        if line.startswith("* Axioms:"):
            on = True
            rest = line[len("* Axioms:"):].strip()
            if rest and rest != "<none>":
                axioms.append(rest)
            continue
        if on:
            if line.startswith("* ") or not line.strip():
                if line.startswith("* "):
                    on = False
                continue
            axioms.append(line.strip())
    unsafe = [l for l in out.split("\n") if ("type-in-type" in l or "unsafe" in l or "positivity is assumed" in l) and "<none>" not in l]
    rep.extra["coqchk"] = {"cmd": "coqchk -silent -o -Q . PV " + " ".join(mods), "exit": rc, "wall_s": round(wall, 1), "axioms": axioms,
                           "unsafe_flags": unsafe}
    if rc == 124:
        # the independent re-check did not finish within its budget: recorded, neither a pass of coqchk nor a violation (the
        # theorems were accepted by coqc's kernel in the gate above)
        rep.extra["coqchk"]["exit"] = "timeout after %d s" % budget
        rep.notes.append("coqchk did not finish within %d s; the kernel check by coqc stands, the independent re-check is incomplete" % budget)
        return True
    if rc != 0:
        rep.violation("coqchk rejects the compiled development of %s" % prop, {"kind": "proof-obligation", "broken": "coqchk " + " ".join(mods),
                                                                             "log_tail": "\n".join(out.split("\n")[-30:])}, False, {"kind": "coqchk"})
        return False
    foreign = [a for a in axioms if not any(a.endswith(x) or x.endswith(a) or a.split(".")[-1] == x.split(".")[-1] for x in ALLOWED_AXIOMS)
               and not any(a.startswith(pfx) or ("." + pfx) in a for pfx in ("PrimFloat.", "Uint63.", "PrimInt63.", "FloatAxioms.", "Coq.Floats", "Coq.Numbers.Cyclic.Int63"))]
    if foreign or unsafe:
        rep.violation("coqchk reports axioms / unsafe flags outside the allowed list: %s %s" % (foreign, unsafe),
                      {"kind": "axioms", "axioms": axioms, "unsafe": unsafe}, False, {"kind": "axioms"})
        return False
    return True


def setup_python_env():
    """make sure `import ribs` resolves to REPO's working tree"""
    if REPO not in sys.path:
        sys.path.insert(0, REPO)
    os.environ.setdefault("OMP_NUM_THREADS", "1")
    os.environ.setdefault("OPENBLAS_NUM_THREADS", "1")
    os.environ.setdefault("MKL_NUM_THREADS", "1")
    os.environ.setdefault("MPLBACKEND", "Agg")
    import ribs  # noqa
    assert os.path.realpath(os.path.dirname(os.path.dirname(ribs.__file__))) == os.path.realpath(REPO), ribs.__file__
