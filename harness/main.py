"""CLI of the verification machinery."""
import argparse
import importlib
import json
import os
import sys
import traceback

import warnings
warnings.filterwarnings("ignore")
import common


def main():
    ap = argparse.ArgumentParser()
    ap.add_argument("target")
    ap.add_argument("path", nargs="?")
    ap.add_argument("--tier", default=os.environ.get("VERIF_TIER", "quick"), choices=["quick", "thorough"])
    ap.add_argument("--no-build", action="store_true", help="developer aid: skip the Coq gate")
    a = ap.parse_args()
    seed = common.seed_from_env()
    if a.target == "replay":
        rp = json.load(open(a.path))
        prop = rp["property"]
        common.setup_python_env()
        mod = importlib.import_module(prop.lower())
        drv = common.Driver()
        if hasattr(mod, "replay"):
            rc = mod.replay(rp, drv)
        else:
            # generic replay: every check is deterministic given (source tree, seed, tier), so re-running the check with the replay's
            # seed and tier regenerates the same cases (corpus first) and reports the same violation while it persists
            print("replay: re-running the %s %s check with seed %s (deterministic regeneration of the reported case)" % (prop, rp.get("tier", "quick"), rp.get("seed")))
            rep = common.Report(prop, rp.get("tier", "quick"), int(rp.get("seed", seed)))
            rep.coq = {"obligations": common.count_statements(mod.CONFIG["cone"]), "discharged": 0}
            try:
                mod.check(rep, rp.get("tier", "quick"), int(rp.get("seed", seed)), drv)
            except Exception as e:  # noqa
                traceback.print_exc()
                rep.violation("harness crashed: %r" % (e,), {"kind": "harness-crash"}, False, {"kind": "crash"})
            same = [v for v in rep.violations if v["tags"] == rp.get("tags") or v["what"] == rp.get("what")]
            for v in rep.violations[:5]:
                print("  reproduced: %s" % v["what"][:300])
            print("replay: %d violation(s), %d matching the replayed one" % (len(rep.violations), len(same)))
            rc = 1 if rep.violations else 0
        drv.close()
        sys.exit(rc)
    prop = a.target
    if not os.path.exists(os.path.join(os.path.dirname(os.path.abspath(__file__)), prop.lower() + ".py")):
        print("unknown property", prop)
        sys.exit(2)
    common.setup_python_env()
    mod = importlib.import_module(prop.lower())
    cfg = mod.CONFIG
    rep = common.Report(prop, a.tier, seed)
    rep.trusted = list(common_trusted()) + cfg.get("trusted", [])
    rep.assumptions = cfg.get("assumptions", [])
    ok = True
    if not a.no_build:
        ok = common.coq_gate(rep, prop, cfg["cone"], cfg.get("extra_property_files", ()))
        if ok and a.tier == "thorough":
            common.coqchk_property(rep, prop, cfg.get("extra_property_files", ()), cfg.get("coqchk_budget", 900))
    else:
        rep.coq = {"obligations": common.count_statements(cfg["cone"]), "discharged": 0}
    drv = None
    try:
        common.setup_python_env()
        if os.path.exists(common.DRIVER):
            drv = common.Driver()
        mod.check(rep, a.tier, seed, drv)
    except Exception as e:  # a crash of the harness itself must not pass silently
        traceback.print_exc()
        rep.violation("harness crashed: %r" % (e,), {"kind": "harness-crash", "trace": traceback.format_exc()}, False, {"kind": "crash"})
    finally:
        if drv:
            drv.close()
    sys.exit(rep.finish())


def common_trusted():
    return [
        "Coq 8.16.1 kernel and vm_compute (no native_compute); coqchk in the thorough tier",
        "extraction with ExtrOcamlBasic only (no Extract Constant/Inductive of our own), OCaml 4.13.1, ocaml/driver.ml (sx parser/printer)",
        "harness generators/canonicalisers (harness/*.py); CPython 3.12 + numpy as installed",
        "the hand-written model is tied to the code by the correspondence run only (sampled)",
    ]


if __name__ == "__main__":
    main()
