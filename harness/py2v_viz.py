"""Fail-closed translator of the polygon / face-colour bookkeeping of cvt_archive_heatmap (2-D branch; current source under $VERIF_REPO)
into a program of Model/VizPoly.v's statement language (coq/Generated/VizPolyGen.v, rewritten on every run); Refine/VizPolyRefine.v
proves it equal to Model/VizPoly.v's [model_body], for which Proofs/VizPolyProofs.v shows that polygons and colours stay aligned.

Read from the source: the loop `for region, objective in zip(vor.regions, region_obj)`; its skip guard; every statement of its body
(only the forms listed in `stmt` below are accepted, every expression is matched exactly); the initialisation of the four lists; the
mask assignment `facecolors[facecolor_cmap_mask] = cmap(normalized_objs)` with normalized_objs computed from facecolor_objs; the
PolyCollection call receiving `vertices` and `facecolors=facecolors`; and that the four lists are mentioned NOWHERE else in the
function.  Anything else raises Unsupported (= broken tie)."""
import ast
import hashlib
import os

ROOT = os.path.dirname(os.path.dirname(os.path.abspath(__file__)))
REPO = os.environ.get("VERIF_REPO", "/repo")
OUT = os.path.join(ROOT, "coq", "Generated", "VizPolyGen.v")
SRC = "ribs/visualize/_cvt_archive_heatmap.py"
LISTS = ("vertices", "facecolors", "facecolor_cmap_mask", "facecolor_objs")


class Unsupported(Exception):
    pass


def _fail(node, why):
    raise Unsupported("%s at line %s: %s" % (why, getattr(node, "lineno", "?"), ast.unparse(node)[:160] if node is not None else ""))


def src(e):
    return ast.unparse(e)


class Tr:
    def __init__(self):
        self.sites = set()      # ids of the Name nodes (of the four lists) that were accounted for

    def use(self, call_or_name):
        for n in ast.walk(call_or_name):
            if isinstance(n, ast.Name) and n.id in LISTS:
                self.sites.add(id(n))

    def append(self, st, geoms_var):
        """<list>.append(<expr>) as an act"""
        c = st.value
        if not (isinstance(c, ast.Call) and isinstance(c.func, ast.Attribute) and c.func.attr == "append" and isinstance(c.func.value, ast.Name)
                and c.func.value.id in LISTS and len(c.args) == 1 and not c.keywords):
            _fail(st, "unsupported expression statement in the region loop")
        lst, arg = c.func.value.id, src(c.args[0])
        self.use(c.func.value)
        if any(isinstance(n, ast.Name) and n.id in LISTS for n in ast.walk(c.args[0])):
            _fail(st, "one of the parallel lists is read inside an append")
        if lst == "vertices":
            ok = ("%s.exterior.coords" % geoms_var) if geoms_var else None
            if arg in ("intersection.exterior.coords", "vor.vertices[region]") and geoms_var is None or (ok and arg == ok):
                return "SAct AVert"
            _fail(st, "vertices.append of something other than one polygon of this region")
        if lst == "facecolors":
            if arg == "np.array([1.0, 1.0, 1.0, 0.0])":
                return "SAct AFaceBlank"
            if arg == "np.empty(4)":
                return "SAct AFaceEmpty"
            _fail(st, "facecolors.append of an unknown colour")
        if lst == "facecolor_cmap_mask":
            if arg in ("True", "False"):
                return "SAct (AMask %s)" % arg.lower()
            _fail(st, "facecolor_cmap_mask.append of a non-constant")
        if arg == "objective":
            return "SAct AObj"
        _fail(st, "facecolor_objs.append of something other than the region's objective")

    def block(self, stmts, geoms_var=None, in_splits=False):
        out = []
        for st in stmts:
            if isinstance(st, ast.Expr) and isinstance(st.value, ast.Constant) and isinstance(st.value.value, str):
                continue
            if isinstance(st, ast.Expr):
                out.append(self.append(st, geoms_var))
            elif isinstance(st, ast.Assign) and len(st.targets) == 1 and isinstance(st.targets[0], ast.Name):
                t, v = st.targets[0].id, src(st.value)
                if t == "n_splits" and v == "1":
                    out.append("SSetSplits COne")
                elif t == "n_splits" and v == "len(intersection.geoms)":
                    out.append("SSetSplits CGeoms")
                elif (t, v) in (("polygon", "shapely.Polygon(vor.vertices[region])"), ("intersection", "polygon.intersection(clip)")):
                    pass        # pure: builds the clipped geometry of this region (external; what it looks like is the harness's geometric check)
                else:
                    _fail(st, "unsupported assignment in the region loop")
            elif isinstance(st, ast.If):
                c = src(st.test)
                kind = {"clip": "SIfClip", "isinstance(intersection, shapely.MultiPolygon)": "SIfMulti", "objective is None": "SIfNone"}.get(c)
                if kind is None:
                    _fail(st, "unsupported condition in the region loop")
                out.append("(%s %s %s)" % (kind, self.seq(self.block(st.body, geoms_var, in_splits)), self.seq(self.block(st.orelse, geoms_var, in_splits))))
            elif isinstance(st, ast.For) and not st.orelse and isinstance(st.target, ast.Name):
                it = src(st.iter)
                if it == "intersection.geoms" and geoms_var is None and not in_splits:
                    out.append("(SForGeoms %s)" % self.seq(self.block(st.body, st.target.id, in_splits)))
                elif it == "range(n_splits)" and not in_splits and geoms_var is None:
                    out.append("(SForSplits %s)" % self.seq(self.block(st.body, None, True)))
                else:
                    _fail(st, "unsupported loop in the region loop")
            else:
                _fail(st, "unsupported statement in the region loop")
        return out

    @staticmethod
    def seq(items):
        if not items:
            return "SNop"
        if len(items) == 1:
            return items[0] if items[0].startswith("(") else "(%s)" % items[0]
        return "(SSeq %s %s)" % (items[0] if items[0].startswith("(") else "(%s)" % items[0], Tr.seq(items[1:]))


def translate(repo=None):
    repo = repo or REPO
    tree = ast.parse(open(os.path.join(repo, SRC)).read())
    fns = [n for n in tree.body if isinstance(n, ast.FunctionDef) and n.name == "cvt_archive_heatmap"]
    if len(fns) != 1:
        raise Unsupported("cannot locate cvt_archive_heatmap")
    fn = fns[0]
    loops = [n for n in ast.walk(fn) if isinstance(n, ast.For) and src(n.iter) == "zip(vor.regions, region_obj)"]
    if len(loops) != 1:
        raise Unsupported("expected exactly one loop over zip(vor.regions, region_obj), found %d" % len(loops))
    loop = loops[0]
    if src(loop.target) != "(region, objective)" or loop.orelse:
        _fail(loop, "unexpected loop header")
    body = [s for s in loop.body if not (isinstance(s, ast.Expr) and isinstance(s.value, ast.Constant))]
    g = body[0] if body else None
    if not (isinstance(g, ast.If) and src(g.test) == "-1 in region or len(region) == 0" and len(g.body) == 1 and isinstance(g.body[0], ast.Continue) and not g.orelse):
        _fail(g or loop, "the loop does not start with the skip guard `if -1 in region or len(region) == 0: continue`")
    for n in ast.walk(loop):
        if isinstance(n, (ast.Continue, ast.Break, ast.Return, ast.Try, ast.With, ast.While)) and n is not g.body[0]:
            _fail(n, "control transfer inside the region loop")
    tr = Tr()
    prog = Tr.seq(tr.block(body[1:]))
    # the statements of the enclosing block: initialisation before the loop, the mask assignment and PolyCollection after it
    parent = None
    for n in ast.walk(fn):
        for fld in ("body", "orelse"):
            if loop in getattr(n, fld, []) if isinstance(getattr(n, fld, None), list) else False:
                parent = getattr(n, fld)
    if parent is None:
        raise Unsupported("cannot find the block containing the region loop")
    k = parent.index(loop)
    inits = {}
    for st in parent[:k]:
        if isinstance(st, ast.Assign) and len(st.targets) == 1 and isinstance(st.targets[0], ast.Name) and st.targets[0].id in LISTS:
            if src(st.value) != "[]":
                _fail(st, "a parallel list does not start empty")
            inits[st.targets[0].id] = inits.get(st.targets[0].id, 0) + 1
            tr.use(st.targets[0])
    if inits != {n: 1 for n in LISTS}:
        raise Unsupported("the four parallel lists are not each initialised exactly once with [] before the loop: %r" % inits)
    want_after = {
        "normalized_objs = np.clip((np.asarray(facecolor_objs, dtype=np.float64) - min_obj) / (max_obj - min_obj), 0.0, 1.0)": 0,
        "facecolors = np.asarray(facecolors)": 0,
        "facecolors[facecolor_cmap_mask] = cmap(normalized_objs)": 0,
    }
    order = []
    poly = 0
    for st in parent[k + 1:]:
        s = src(st)
        if s in want_after:
            want_after[s] += 1
            order.append(s)
            tr.use(st)
        elif isinstance(st, ast.Expr) and isinstance(st.value, ast.Call) and src(st.value.func) == "ax.add_collection":
            inner = st.value.args[0] if len(st.value.args) == 1 else None
            if not (isinstance(inner, ast.Call) and src(inner.func) == "matplotlib.collections.PolyCollection" and len(inner.args) == 1
                    and src(inner.args[0]) == "vertices" and [kw.arg for kw in inner.keywords if kw.value and src(kw.value) == "facecolors"] == ["facecolors"]):
                _fail(st, "PolyCollection does not receive (vertices, facecolors=facecolors)")
            if order != list(want_after):
                _fail(st, "PolyCollection is built before the colours are filled in")
            poly += 1
            tr.use(st)
    if any(v != 1 for v in want_after.values()) or order != list(want_after) or poly != 1:
        raise Unsupported("the statements after the loop (normalise, asarray, mask assignment, one PolyCollection) are not the expected ones: %r" % want_after)
    # nothing else in the function touches the four lists
    for n in ast.walk(fn):
        if isinstance(n, ast.Name) and n.id in LISTS and id(n) not in tr.sites:
            _fail(n, "the parallel list %r is used at a place the model does not know" % n.id)
    text = ("(** GENERATED by harness/py2v_viz.py from the current pyribs source (%s: cvt_archive_heatmap, 2-D branch) on every run -- do not edit.\n"
            "    The body of the loop over the Voronoi regions (after its skip guard) as a program of Model/VizPoly.v; Refine/VizPolyRefine.v\n"
            "    ties it to [model_body]. *)\nFrom PV Require Import Model.VizPoly.\n\nDefinition gen_body : stmt :=\n  %s.\n" % (SRC, prog))
    return text, hashlib.sha256(ast.dump(loop).encode()).hexdigest()


def generate():
    st = {"ok": False, "error": None, "written": False, "sha": None}
    try:
        text, st["sha"] = translate()
        st["ok"] = True
    except Unsupported as e:
        st["error"] = str(e)
        return st
    except Exception as e:  # noqa
        st["error"] = repr(e)
        return st
    try:
        old = open(OUT).read() if os.path.exists(OUT) else None
        if old != text:
            os.makedirs(os.path.dirname(OUT), exist_ok=True)
            tmp = OUT + ".tmp%d" % os.getpid()
            with open(tmp, "w") as f:
                f.write(text)
            os.replace(tmp, OUT)
            st["written"] = True
    except OSError as e:
        st["ok"], st["error"] = False, "cannot write %s: %r" % (OUT, e)
    return st


STATUS = generate()


def report(rep):
    rep.extra["source_fragments_viz"] = {"translator": "harness/py2v_viz.py", "source": [SRC], "ok": STATUS["ok"], "sha256_of_ast": STATUS["sha"],
                                         "refinement": "coq/Refine/VizPolyRefine.v"}
    if not STATUS["ok"]:
        rep.violation("the polygon/colour bookkeeping translator cannot read the current source of cvt_archive_heatmap any more (fail-closed): %s" % STATUS["error"],
                      {"kind": "translation", "broken": "harness/py2v_viz.py", "error": STATUS["error"]}, False, {"kind": "translation"})


if __name__ == "__main__":
    print(STATUS)
    print(open(OUT).read() if STATUS["ok"] else "")
