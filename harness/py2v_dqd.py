"""Fail-closed translator of the arithmetic and the phase order of GradientArborescenceEmitter.{tell_dqd, ask, tell} (current source under
$VERIF_REPO) into Gallina (coq/Generated/DqdGen.v, rewritten on every run); Refine/DqdRefine.v proves the expressions equal to the
definitions of Model/DQD.v (normalise, branch, the gradient step, the "no parents: stay" guard) and the order of the collaborator calls
of tell equal to the action log gae_tell produces.

Translated (per coordinate, names -> variables): the normalisation denominator `norm + self._epsilon`, the quotient `jacobian / norms`,
`self._grad_opt.theta + np.sum(...)`, `new_mean - self._grad_opt.theta`, the guard `num_parents > 0`.  Matched exactly and recorded as
phases: opt.tell, the guarded step, the restart test `check_stop(...) or _check_restart(new_sols)`, and the restart block (sample_elites(1),
grad_opt.reset(sample), opt.reset(zeros), ranker.reset, restarts += 1).  Anything else raises Unsupported (= broken tie)."""
import ast
import hashlib
import os

ROOT = os.path.dirname(os.path.dirname(os.path.abspath(__file__)))
REPO = os.environ.get("VERIF_REPO", "/repo")
OUT = os.path.join(ROOT, "coq", "Generated", "DqdGen.v")
SRC = "ribs/emitters/_gradient_arborescence_emitter.py"


class Unsupported(Exception):
    pass


def _fail(node, why):
    raise Unsupported("%s at line %s: %s" % (why, getattr(node, "lineno", "?"), ast.unparse(node)[:160] if node is not None else ""))


def src(e):
    return ast.unparse(e)


def q_expr(e, atoms):
    s = src(e)
    if s in atoms:
        return atoms[s]
    if isinstance(e, ast.BinOp):
        op = {ast.Add: "+", ast.Sub: "-", ast.Div: "/", ast.Mult: "*"}.get(type(e.op))
        if op:
            return "(%s %s %s)" % (q_expr(e.left, atoms), op, q_expr(e.right, atoms))
    _fail(e, "unsupported arithmetic expression")


def assigns(fn, name):
    return [n for n in ast.walk(fn) if isinstance(n, ast.Assign) and len(n.targets) == 1 and src(n.targets[0]) == name]


def one(fn, name):
    a = assigns(fn, name)
    if len(a) != 1:
        raise Unsupported("expected exactly one assignment to %s in %s, found %d" % (name, fn.name, len(a)))
    return a[0].value


def translate(repo=None):
    repo = repo or REPO
    tree = ast.parse(open(os.path.join(repo, SRC)).read())
    cls = [n for n in tree.body if isinstance(n, ast.ClassDef) and n.name == "GradientArborescenceEmitter"]
    if len(cls) != 1:
        raise Unsupported("cannot locate class GradientArborescenceEmitter")
    fns = {n.name: n for n in cls[0].body if isinstance(n, ast.FunctionDef)}
    for need in ("ask_dqd", "tell_dqd", "ask", "tell"):
        if need not in fns:
            raise Unsupported("cannot locate GradientArborescenceEmitter.%s" % need)
    # ---- ask_dqd: the solution point itself
    rets = [n for n in ast.walk(fns["ask_dqd"]) if isinstance(n, ast.Return)]
    if len(rets) != 1 or src(rets[0].value) != "np.copy(self._grad_opt.theta[None])":
        raise Unsupported("ask_dqd does not return a copy of the gradient optimizer's theta")
    # ---- tell_dqd: normalisation
    td = fns["tell_dqd"]
    norms = one(td, "norms")
    if not (isinstance(norms, ast.BinOp) and src(norms.left) == "np.linalg.norm(jacobian, axis=2, keepdims=True)"):
        _fail(norms, "the normalisation denominator is not built from np.linalg.norm(jacobian, axis=2, keepdims=True)")
    den = q_expr(norms, {"np.linalg.norm(jacobian, axis=2, keepdims=True)": "norm", "self._epsilon": "eps"})
    jac_forms = [src(a.value) for a in assigns(td, "jacobian")]
    quot = [a.value for a in assigns(td, "jacobian") if isinstance(a.value, ast.BinOp)]
    if sorted(f for f in jac_forms if not f.startswith("jacobian /")) != ["np.copy(jacobian)"] or len(quot) != 1:
        raise Unsupported("tell_dqd does not store (jacobian / norms | a copy of jacobian): %r" % jac_forms)
    quotient = q_expr(quot[0], {"jacobian": "g", "norms": "den"})
    # the gradients are installed only after the arguments have been validated (a tell_dqd that raises installs nothing)
    val = [n.lineno for n in ast.walk(td) if isinstance(n, ast.Call) and src(n.func) == "validate_batch"]
    sto = [n.lineno for n in ast.walk(td) if isinstance(n, ast.Assign) and src(n.targets[0]) == "self._jacobian_batch"]
    if len(val) != 1 or len(sto) != 1 or not val[0] < sto[0] or td.body[-1].lineno != sto[0]:
        raise Unsupported("tell_dqd does not validate its arguments first and install the gradients as its LAST statement")
    tests = [n for n in ast.walk(td) if isinstance(n, ast.If) and src(n.test) == "self._normalize_grads"]
    if len(tests) != 1 or len(assigns(td, "self._jacobian_batch")) != 1 or src(one(td, "self._jacobian_batch")) != "jacobian":
        raise Unsupported("tell_dqd does not branch once on self._normalize_grads and store the result as the Jacobian")
    # ---- ask: theta + sum_j coeff_j * grad_j
    ak = fns["ask"]
    if src(one(ak, "grad_coeffs")) != "self._opt.ask()[:, :, None]":
        raise Unsupported("ask does not take its coefficients from self._opt.ask()")
    sols = one(ak, "sols")
    branch = q_expr(sols, {"self._grad_opt.theta": "th", "np.sum(self._jacobian_batch * grad_coeffs, axis=1)": "s"})
    guards = [n for n in ast.walk(ak) if isinstance(n, ast.If) and src(n.test) == "self._jacobian_batch is None"]
    if len(guards) != 1 or not any(isinstance(x, ast.Raise) for x in guards[0].body):
        raise Unsupported("ask does not refuse to run before tell_dqd supplied gradients")
    # ---- tell: phases in order
    tl = fns["tell"]
    step = q_expr(one(tl, "gradient_step"), {"new_mean": "mean", "self._grad_opt.theta": "th"})
    if src(one(tl, "new_mean")) != "np.sum(parents * np.expand_dims(weights, axis=1), axis=0)":
        raise Unsupported("new_mean is not the weighted sum of the parents")
    par = sorted(src(a.value) for a in assigns(tl, "parents"))
    if par != sorted(["data['solution'][indices]", "parents[:num_parents]"]):
        raise Unsupported("the parents are not the first num_parents solutions in ranking order: %r" % par)
    phases = []
    moves = None
    body = tl.body
    for st in body:
        s = src(st)
        if s == "self._opt.tell(indices, ranking_values, num_parents)":
            phases.append("PhOptTell")
        elif isinstance(st, ast.If) and any(src(x) == "self._grad_opt.step(gradient_step)" for x in ast.walk(st) if isinstance(x, ast.Expr)):
            t = st.test
            if not (isinstance(t, ast.Compare) and len(t.ops) == 1 and src(t.left) == "num_parents" and src(t.comparators[0]) == "0" and not st.orelse):
                _fail(st, "the gradient step is not guarded by a comparison of num_parents with 0")
            moves = {ast.Gt: "(Nat.ltb 0 np)", ast.GtE: "(Nat.leb 0 np)", ast.NotEq: "(negb (Nat.eqb np 0))"}.get(type(t.ops[0]))
            if moves is None:
                _fail(st, "unsupported guard of the gradient step")
            phases.append("PhStepIfParents")
        elif isinstance(st, ast.If) and src(st.test) == "self._opt.check_stop(ranking_values[indices]) or self._check_restart(new_sols)":
            inner = [src(x) for x in st.body]
            want = ["new_coeff = self.archive.sample_elites(1)['solution'][0]", "self._grad_opt.reset(new_coeff)",
                    "self._opt.reset(np.zeros(self._num_coefficients))", "self._ranker.reset(self, self.archive)", "self._restarts += 1"]
            if inner != want or st.orelse:
                raise Unsupported("the restart block is not (sample one elite, reset the gradient optimizer to it, reset the ES to zeros, reset the ranker, count): %r" % inner)
            phases.append("PhRestartIfStopOrRule")
        elif any(isinstance(x, ast.Call) and src(x.func) in ("self._grad_opt.step", "self._grad_opt.reset", "self._opt.tell", "self._opt.reset",
                                                                "self.archive.sample_elites", "self._ranker.reset") for x in ast.walk(st)):
            _fail(st, "a collaborator is called at a place the model does not know")
    if "PhStepIfParents" not in phases:
        raise Unsupported("no guarded gradient step found in tell")
    if phases != ["PhOptTell", "PhStepIfParents", "PhRestartIfStopOrRule"]:
        raise Unsupported("the phases of tell are not (opt.tell, guarded step, restart test): %r" % phases)
    if len([n for n in ast.walk(tl) if isinstance(n, ast.Call) and src(n.func) == "self._grad_opt.step"]) != 1:
        raise Unsupported("grad_opt.step is not called exactly once in tell")
    text = ("(** GENERATED by harness/py2v_dqd.py from the current pyribs source (%s: tell_dqd, ask, tell) on every run -- do not edit.\n"
            "    Refine/DqdRefine.v ties these to Model/DQD.v. *)\nFrom Coq Require Import List Arith Bool QArith.\n"
            "From PV Require Import Model.DqdPhases.\nImport ListNotations.\nOpen Scope Q_scope.\n\n"
            "Definition gen_norm_denominator (norm eps : Q) : Q := %s.\n"
            "Definition gen_normalised (g den : Q) : Q := %s.\n"
            "Definition gen_branch_coord (th s : Q) : Q := %s.\n"
            "Definition gen_step_coord (mean th : Q) : Q := %s.\n"
            "Definition gen_moves (np : nat) : bool := %s.\n"
            "Definition gen_tell_phases : list gae_phase := [%s].\n" % (SRC, den, quotient, branch, step, moves, "; ".join(phases)))
    return text, hashlib.sha256((ast.dump(td) + ast.dump(ak) + ast.dump(tl)).encode()).hexdigest()


def generate():
    st = {"ok": False, "error": None, "written": False, "sha": None}
    try:
        text, st["sha"] = translate()
        st["ok"] = True
    except Unsupported as e:
        st["error"] = str(e)
        return st
    except Exception as e:  # noqa
        st["error"] = repr(e)
        return st
    try:
        old = open(OUT).read() if os.path.exists(OUT) else None
        if old != text:
            os.makedirs(os.path.dirname(OUT), exist_ok=True)
            tmp = OUT + ".tmp%d" % os.getpid()
            with open(tmp, "w") as f:
                f.write(text)
            os.replace(tmp, OUT)
            st["written"] = True
    except OSError as e:
        st["ok"], st["error"] = False, "cannot write %s: %r" % (OUT, e)
    return st


STATUS = generate()


def report(rep):
    rep.extra["source_fragments_dqd"] = {"translator": "harness/py2v_dqd.py", "source": [SRC], "ok": STATUS["ok"], "sha256_of_ast": STATUS["sha"],
                                         "refinement": "coq/Refine/DqdRefine.v"}
    if not STATUS["ok"]:
        rep.violation("the GradientArborescenceEmitter translator cannot read the current source of tell_dqd / ask / tell any more (fail-closed): %s" % STATUS["error"],
                      {"kind": "translation", "broken": "harness/py2v_dqd.py", "error": STATUS["error"]}, False, {"kind": "translation"})


if __name__ == "__main__":
    print(STATUS)
    print(open(OUT).read() if STATUS["ok"] else "")
