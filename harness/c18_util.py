"""Helpers for the C18 check.

* `shadow_*`: numpy transcriptions of the update formulas of coq/Model/OptReal.v (one tell step, applied to the REAL
  pre-tell state, so rounding never accumulates over a history).  Hand transcription = trusted.
* `draw_*` / `transform_*`: the random-generator call and the draw -> solution transform of every native strategy, written
  with numpy's own operations, used to reproduce the stream and recompute `solutions[i]` from draw / noise rows.
* `adam_published` / `ga_published`: the published ascent rules (Kingma & Ba 2014, section 2, efficient form; sign flipped
  for ascent; optional L2 on the descent gradient), element-wise in float64.
"""
import math

import numpy as np

EPS64 = float(np.finfo(np.float64).eps)
EPS32 = float(np.finfo(np.float32).eps)


def log_weights(mu):
    """w_i proportional to ln(mu + 1/2) - ln(i), i = 1..mu, normalised (the property's own formula)"""
    w = np.log(mu + 0.5) - np.log(np.arange(1, mu + 1))
    return w / np.sum(w)


def mueff_of(w):
    return np.sum(w) ** 2 / np.sum(w ** 2)


# ---------------------------------------------------------------------------------------------------------------
# strategy parameters (Model/OptReal.v: cma_params / sep_params)
def cma_params(n, mu):
    w = log_weights(mu)
    mueff = mueff_of(w)
    cc = (4 + mueff / n) / (n + 4 + 2 * mueff / n)
    cs = (mueff + 2) / (n + mueff + 5)
    c1 = 2 / ((n + 1.3) ** 2 + mueff)
    cmu = min(1 - c1, 2 * (mueff - 2 + 1 / mueff) / ((n + 2) ** 2 + mueff))
    return w, mueff, cc, cs, c1, cmu


def sep_params(n, mu):
    w = log_weights(mu)
    mueff = mueff_of(w)
    cc_sep = (1 + 1 / n + mueff / n) / (n ** 0.5 + 1 / n + 2 * mueff / n)
    cs = (mueff + 2) / (n + mueff + 5)
    c1 = 2 / ((n + 1.3) ** 2 + mueff)
    c1_sep = c1 * (1.0 / (n + 2.0 * np.sqrt(n) + float(mueff) / n))
    cmu_sep = min(1 - c1_sep, (0 + mueff + 1.0 / mueff - 2) / (n + 4 * np.sqrt(n) + mueff / 2.0))
    return w, mueff, cc_sep, cs, c1_sep, cmu_sep


def _cma_like_tell(pre, sols, ranking, mu, batch_size, params, diagonal):
    """pre: dict(mean, sigma, ps, pc, cov, invsqrt, evals).  Returns the expected post state + hsig margin."""
    n = len(pre["mean"])
    out = dict(pre)
    out["evals"] = pre["evals"] + len(ranking)
    out["margin"] = 1.0
    if mu == 0:
        return out
    parents = sols[ranking][:mu]
    w, mueff, cc, cs, c1, cmu = params(n, mu)
    damps = 1 + 2 * max(0, np.sqrt((mueff - 1) / (n + 1)) - 1) + cs
    old = pre["mean"]
    mean = np.sum(parents * w[:, None], axis=0)
    y = mean - old
    z = pre["invsqrt"] * y if diagonal else pre["invsqrt"] @ y
    ps = (1 - cs) * pre["ps"] + (np.sqrt(cs * (2 - cs) * mueff) / pre["sigma"]) * z
    left = np.sum(np.square(ps)) / n / (1 - (1 - cs) ** (2 * out["evals"] / batch_size))
    right = 2 + 4.0 / (n + 1)
    hsig = 1 if left < right else 0
    out["margin"] = abs(left - right) / right
    pc = (1 - cc) * pre["pc"] + hsig * np.sqrt(cc * (2 - cc) * mueff) * y
    ys = parents - old[None]
    wys = ys * w[:, None]
    c1a = c1 * (1 - (1 - hsig ** 2) * cc * (2 - cc))
    alpha = 1 - c1a - cmu * np.sum(w)
    if diagonal:
        rank_mu = np.sum(wys * ys, axis=0)
        cov = pre["cov"] * alpha + (c1 * pc ** 2) * c1 + rank_mu * cmu / (pre["sigma"] ** 2)
    else:
        rank_mu = np.einsum("ki,kj", wys, ys)
        cov = pre["cov"] * alpha + (c1 * np.outer(pc, pc)) * c1 + rank_mu * cmu / (pre["sigma"] ** 2)
    cn = cs / damps
    sigma = pre["sigma"] * np.exp(min(1, cn * (np.sum(np.square(ps)) / n - 1) / 2))
    out.update(mean=mean, ps=ps, pc=pc, cov=cov, sigma=sigma, alpha=alpha, beta=c1 * c1, gamma=cmu / pre["sigma"] ** 2)
    return out


def shadow_tell_cma(pre, sols, ranking, mu, batch_size):
    return _cma_like_tell(pre, sols, ranking, mu, batch_size, cma_params, False)


def shadow_tell_sep(pre, sols, ranking, mu, batch_size):
    return _cma_like_tell(pre, sols, ranking, mu, batch_size, sep_params, True)


def lm_consts(n, batch, n_vectors):
    csigma = 2 * batch / n
    cd = 1 / (1.5 ** np.arange(n_vectors) * n)
    cc = batch / (4.0 ** np.arange(n_vectors) * n)
    return csigma, cd, cc


def shadow_tell_lm(pre, sols, zs, ranking, mu, batch, n_vectors):
    """pre: dict(mean, sigma, ps, m, gens); zs = the recorded z rows (dtype of the optimizer)"""
    n = len(pre["mean"])
    csigma, _, cc = lm_consts(n, batch, n_vectors)
    out = dict(pre)
    out["gens"] = pre["gens"] + 1
    if mu == 0:
        return out
    w = log_weights(mu)
    mueff = mueff_of(w)
    parents = sols[ranking][:mu]
    zp = zs[ranking][:mu]
    z_mean = np.sum(w[:, None] * zp, axis=0)
    mean = np.sum(w[:, None] * parents, axis=0)
    ps = (1 - csigma) * pre["ps"] + np.sqrt(mueff * csigma * (2 - csigma)) * z_mean
    m = (1 - cc[:, None]) * pre["m"] + np.sqrt(mueff * cc[:, None] * (2 - cc[:, None])) * z_mean[None]
    sigma = pre["sigma"] * np.exp(csigma / 2 * (np.sum(ps ** 2) / n - 1))
    out.update(mean=mean, ps=ps, m=m, sigma=sigma)
    return out


# ---------------------------------------------------------------------------------------------------------------
# draws and transforms (ask)
def draw_rows(strategy, rng, k, dim, dt, sigma):
    if strategy in ("cma", "sep"):
        return rng.normal(0.0, sigma, (k, dim)).astype(dt)
    if strategy == "lm":
        return rng.standard_normal((k, dim))
    if strategy in ("openai", "openai_mirror"):
        return rng.standard_normal((k, dim), dtype=dt)
    raise ValueError(strategy)


def transform_rows(strategy, pub, rows):
    """draw rows -> solutions of the current distribution; `pub` = public attributes of the optimizer"""
    if strategy == "cma":
        tm = pub["eigenbasis"] * np.sqrt(pub["eigenvalues"])
        return (tm @ rows.T).T + pub["mean"][None]
    if strategy == "sep":
        return np.sqrt(pub["eigenvalues"])[None] * rows + pub["mean"][None]
    if strategy == "lm":
        d = rows
        for j in range(min(pub["gens"], pub["n_vectors"])):
            d = (1 - pub["cd"][j]) * d + pub["cd"][j] * pub["m"][j][None] * (pub["m"][j][:, None].T @ d.T).T
        return pub["mean"][None] + pub["sigma"] * d
    if strategy in ("openai", "openai_mirror"):
        return pub["theta"][None] + pub["sigma0"] * rows
    raise ValueError(strategy)


def oob_rows(new, lb, ub):
    return np.any(np.logical_or(new < np.expand_dims(lb, axis=0), new > np.expand_dims(ub, axis=0)), axis=1)


def near_bound(new, lb, ub, ulps=16):
    """True when some coordinate is within a few ulp of a finite bound (the in/out decision of a recomputation that is
    only ulp-accurate would be ambiguous there)"""
    eps = EPS32 if new.dtype == np.float32 else EPS64
    new = new.astype(np.float64)
    for b in (np.asarray(lb, dtype=np.float64), np.asarray(ub, dtype=np.float64)):
        bb = np.broadcast_to(b, new.shape)
        fin = np.isfinite(bb)
        if np.any(fin & (np.abs(new - np.where(fin, bb, 0.0)) <= ulps * eps * np.maximum(np.abs(np.where(fin, bb, 0.0)), 1e-300))):
            return True
    return False


def ulp_close(a, b, ulps, scale=None):
    """|a-b| <= ulps * eps(dtype of a) * scale, element-wise (scale defaults to max(|a|,|b|) per element)"""
    eps = EPS32 if a.dtype == np.float32 else EPS64
    a64, b64 = a.astype(np.float64), b.astype(np.float64)
    if a64.shape != b64.shape:
        return False
    sc = np.maximum(np.abs(a64), np.abs(b64)) if scale is None else scale
    return bool(np.all(np.abs(a64 - b64) <= ulps * eps * sc + 1e-300))


def rel_close(a, b, rtol, atol_scale=None):
    a = np.asarray(a, dtype=np.float64)
    b = np.asarray(b, dtype=np.float64)
    if a.shape != b.shape:
        return False
    if not (np.all(np.isfinite(a)) and np.all(np.isfinite(b))):
        return bool(np.array_equal(a, b))
    sc = max(float(np.max(np.abs(b))) if b.size else 0.0, 1e-300) if atol_scale is None else atol_scale
    return bool(np.all(np.abs(a - b) <= rtol * np.abs(b) + rtol * sc))


# ---------------------------------------------------------------------------------------------------------------
# published gradient-ascent rules (float64, element-wise)
def adam_published(theta, m, v, t, g, lr, beta1, beta2, epsilon, l2_coeff):
    """One Adam ASCENT step.  d = l2*theta - g is the descent gradient of -f + l2/2 |theta|^2;
    m' = b1 m + (1-b1) d ; v' = b2 v + (1-b2) d^2 ; alpha_t = lr sqrt(1-b2^t)/(1-b1^t) ; theta' = theta - alpha_t m'/(sqrt v' + eps)"""
    theta = np.asarray(theta, dtype=np.float64)
    g = np.asarray(g, dtype=np.float64)
    d = l2_coeff * theta - g
    t = t + 1
    m = beta1 * m + (1 - beta1) * d
    v = beta2 * v + (1 - beta2) * d * d
    alpha_t = lr * math.sqrt(1 - beta2 ** t) / (1 - beta1 ** t)
    theta = theta - alpha_t * m / (np.sqrt(v) + epsilon)
    return theta, m, v, t


def ga_published(theta, g, lr):
    return np.asarray(theta, dtype=np.float64) + lr * np.asarray(g, dtype=np.float64)
