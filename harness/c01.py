"""C01 correspondence: elitist archives (Grid, CVT kd-tree/brute/chunked, Sliding between remaps) vs Model/Archive.v."""
import random

import numpy as np

import arch_util as au

CONFIG = {
    "cone": ["Base/ListUtil.v", "Base/QUtil.v", "Base/FirstArgmax.v", "Model/Store.v", "Proofs/StoreProofs.v", "Model/Archive.v",
             "Proofs/ArchiveProofs.v", "Proofs/C01Proofs.v", "Properties/C01.v"],
    "trusted": ["Model/Archive.v models ArchiveBase.add/add_single/clear + _transforms.py over exact rationals; a candidate's cell is "
                "what the implementation's public index_of returns (C03 verifies index_of); payload = candidate id encoded redundantly "
                "into solution and every extra field, decoder flags torn rows",
                "SlidingBoundariesArchive.add is taken as its documented loop of add_single"],
    "level_text": "Theorem C01_contents: for every elitist configuration, every history of add/add_single/clear (any batch sizes, any "
                  "collisions and ties) and every cell, the model's content is option_map elite_of (first_argmax (routed h i)) — one "
                  "candidate's objective and whole payload, highest objective, earliest on ties; corollaries: occupied iff routed, "
                  "objectives never decrease / cells never empty except by clear, batching invariance, len = #distinct routed cells. "
                  "The model is tied to the code by a whole-history differential run against GridArchive, CVTArchive (k-D tree, brute "
                  "force, chunked) and SlidingBoundariesArchive (between remaps), float32/float64, all extra-field layouts, wild floats.",
    "level_note": "Trusted: Coq kernel; extraction + driver; hand-written model tied by sampling; harness. No axioms.",
    "technique": "Rocq/Coq refinement proof (history induction, first-arg-max spec) + model-vs-implementation correspondence run",
    "design_ref": "DESIGN.md section 5, C01",
}


def oracle(spec, ops):
    """C01 stated directly on the implementation: after every op, data() must equal, per cell, the first arg-max of the
    candidates routed there since the last clear (cells from the public index_of); and single-stepping the same
    submissions yields the same final contents."""
    trace, mops, archive, table = au.run_impl(spec, ops)
    routed = {}
    dtype = au.odt(spec)
    for step, (op, ent) in enumerate(zip(ops, trace)):
        if "error" in ent.get("ret", {}):
            return "step %d: valid %s raised %s" % (step, op[0], ent["ret"]["msg"])
        if op[0] == "clear":
            routed = {}
        else:
            cands = op[1] if op[0] == "add" else [op[1]]
            for cell, c in zip(ent["cells"], cands):
                routed.setdefault(cell, []).append(c)
        exp = {}
        for cell, l in routed.items():
            best = None
            for c in l:
                if best is None or float(dtype(c[1])) > float(dtype(best[1])):
                    best = c
            exp[cell] = (best[0], au.F(dtype(best[1])))
        got = {}
        for r in ent["obs"]["rows"]:
            if isinstance(r[1], tuple):
                return "step %d: torn elite in cell %d: %s" % (step, r[0], r[1])
            got[r[0]] = (r[1], r[2])
        if got != exp:
            bad = sorted(set(got.items()) ^ set(exp.items()))[:4]
            return "step %d (%s): contents differ from first-arg-max of routed candidates; differing (cell,(id,obj)): %s" % (step, op[0], bad)
        if ent["obs"]["len"] != len(exp):
            return "step %d: len %d but %d cells were routed to" % (step, ent["obs"]["len"], len(exp))
    # single-stepping
    single = []
    for op in ops:
        if op[0] == "add":
            # same numeric container as the batch: index_of of a far measure may legitimately differ between a float32 array and the
            # float64 array of the same numbers (distance ties in float32)
            single.extend(["add_single", c, op[2] if len(op) > 2 else "nd"] for c in op[1])
        else:
            single.append(op)
    t2, _, _, _ = au.run_impl(spec, single)
    if trace and t2:
        a = sorted((r[0], r[1], r[2]) for r in trace[-1]["obs"]["rows"])
        b = sorted((r[0], r[1], r[2]) for r in t2[-1]["obs"]["rows"])
        if a != b:
            return "single-stepping the batches changes the final contents: %s vs %s" % (a[:4], b[:4])
    return None


def nontrivial(case):
    """some cell gets >= 3 candidates over >= 2 calls incl. an exact objective tie, and the history contains a clear"""
    ops = case["ops"]
    if not any(o[0] == "clear" for o in ops):
        return False
    per = {}
    for k, o in enumerate(ops):
        cands = o[1] if o[0] == "add" else [o[1]] if o[0] == "add_single" else []
        for c in cands:
            per.setdefault(tuple(c[2]), []).append((k, c[1]))
    for l in per.values():
        if len(l) >= 3 and len({k for k, _ in l}) >= 2 and len({o for _, o in l}) < len(l):
            return True
    return False


def large_archive_stream(rep, rng, n):
    """archives with far more than 2^16 cells (implementations that switch algorithm for large index spaces): a cell holds the
    highest-objective candidate routed to it, the earliest one on ties; judged directly on the implementation (no model: the
    store would be 90 000 cells long)"""
    from ribs.archives import GridArchive
    for _ in range(n):
        dt = rng.choice([np.float64, np.float32])
        cma = rng.random() < 0.4
        kw = {"learning_rate": rng.choice([0.5, 1.0, 0.25]), "threshold_min": -8.0} if cma else {}
        a = GridArchive(solution_dim=1, dims=[300, 300], ranges=[(0, 1), (0, 1)], dtype=dt, **kw)
        pts = [[rng.choice([0.999, 0.75, 0.9, 0.3]) + rng.random() * 1e-4, rng.choice([0.999, 0.8, 0.31]) + rng.random() * 1e-4] for _ in range(4)]
        best = {}
        nid = 1
        for call in range(rng.randint(1, 3)):
            nb = rng.choice([2, 3, 6, 12])
            meas, objs, ids = [], [], []
            for _ in range(nb):
                meas.append(rng.choice(pts))
                objs.append(rng.choice([3.0, 3.0, 1.5, -2.0, 4.25]))
                ids.append(nid)
                nid += 1
            single = rng.random() < 0.3 and not cma
            cells = [int(x) for x in a.index_of(np.array(meas, dtype=dt))]
            pre = {int(i): float(t) for i, t in zip(a.data("index"), a.data("threshold"))}
            if single:
                for m, o, i in zip(meas, objs, ids):
                    a.add_single(np.array([i], dtype=dt), o, np.array(m, dtype=dt))
            else:
                a.add(np.array(ids, dtype=dt)[:, None], np.array(objs, dtype=dt), np.array(meas, dtype=dt))
            if not cma:
                for c, o, i in zip(cells, objs, ids):
                    if c not in best or o > best[c][0]:
                        best[c] = (o, i)
            else:
                # CMA-MAE: per call and cell, the winner among the candidates above the cell's pre-call threshold (sequentially for add_single)
                if single:
                    continue     # thresholds move between the single calls; only batch calls are judged here
                per = {}
                for c, o, i in zip(cells, objs, ids):
                    if o > pre.get(c, -8.0) and (c not in per or o > per[c][0]):
                        per[c] = (o, i)
                best.update(per)
        rep.count("large_archive_cases")
        d = a.data()
        got = {int(c): (float(o), int(round(float(s[0])))) for c, o, s in zip(d["index"], d["objective"], d["solution"])}
        if any(c >= 65536 for c in best):
            rep.count("large_archive_cases_beyond_2^16")
        bad = {c: (got.get(c), best[c]) for c in best if got.get(c) != best[c]} if (not cma or best) else {}
        if cma:
            bad = {c: v for c, v in bad.items() if c in best}
        if bad:
            c = sorted(bad)[0]
            rep.violation("GridArchive with 90000 cells: cell %d holds (objective, id) %s but the highest-objective candidate routed to it, earliest on ties, is %s" %
                          (c, bad[c][0], bad[c][1]),
                          {"kind": "property", "broken": "C01_contents (a cell holds the highest-objective candidate routed to it, the earliest one on ties)",
                           "case": {"dims": [300, 300], "dtype": np.dtype(dt).name, "cma": cma, "cells": {str(k): [list(map(str, v[0] or ())), list(v[1])] for k, v in bad.items()}}},
                          True, {"kind": "large-archive-winner"})
            return


def check(rep, tier, seed, driver):
    rng = random.Random(seed)
    # the number of clears is part of "every history": a cell filled once and then cleared several hundred times stays empty
    from ribs.archives import GridArchive as _GA
    _a = _GA(solution_dim=1, dims=[4], ranges=[(0.0, 1.0)])
    _a.add_single([0.0], 1000.0, [0.1])
    for _k in range(1, 601):
        _a.clear()
        _o, _d = _a.retrieve_single([0.1])
        if bool(_o) or len(_a) != 0 or _a.stats.num_elites != 0:
            rep.violation("GridArchive: one elite, then %d clear() calls: retrieve_single of its measures reports occupied=%s (objective %s), len %d" % (
                _k, bool(_o), float(_d["objective"]), len(_a)), {"kind": "property", "broken": "a cell is occupied exactly when a candidate was routed there since the last clear",
                                                                   "clears": _k}, True, {"kind": "clear-recurs"})
            break
    n = 350 if tier == "quick" else 1500
    rep.rule = ("random elitist archives (GridArchive 1-4 dims, CVTArchive kd-tree/brute/chunked with custom incl. duplicated centroids, "
                "SlidingBoundariesArchive without remap; float32/float64; 5 extra-field layouts; ndarray/list/float64 containers) x random "
                "histories of add/add_single/clear, measures drawn mostly from a small pool (collisions), objectives wild floats incl. "
                "+-max/denormals with 25% exact ties; non-trivial = some measure point receives >=3 candidates over >=2 calls with an exact "
                "tie AND the history contains a clear; distinct by hash of (spec, ops)")
    cases = au.load_corpus("C01")
    rep.count("corpus_cases", len(cases))
    for _ in range(n):
        spec = au.gen_spec(rng, max_cells=64 if tier == "quick" else 4096)
        if spec["kind"] != "sliding" and rng.random() < 0.15:
            # the dict form of `dtype`: the objective (and the threshold that goes with it) in the other float type than solution / measures
            spec["odtype"] = "d" if spec["dtype"] == "f" else "f"
            rep.count("dict_dtype_cases")
        dtype = au.odt(spec)
        ops = au.gen_history(rng, spec, rng.randint(2, 16 if tier == "quick" else 60), 12, lambda r: au.wild_float(r, dtype))
        cases.append({"spec": spec, "ops": ops})
    au.run_cases(rep, "C01", cases,
                 compare=lambda spec, ops: au.compare_history(driver, spec, ops, exact_values=True, stats_mode="none"),
                 oracle=oracle, nontrivial=nontrivial,
                 what="elitist archive contents", broken="Model/Archive.v vs ribs/archives/_archive_base.py + _transforms.py + _array_store.py",
                 theorems=["C01_contents", "C01_batching_invariance", "C01_len"])
    large_archive_stream(rep, rng, 25 if tier == "quick" else 300)
