"""Helpers of the C03 check: exact/float utilities, the evaluator of the bit-exact PrimFloat model (generated `cases_*.v`
files run through `coqc` / `vm_compute`), archive factories for the five streams, generic greedy shrinking."""
import concurrent.futures
import math
import os
import re
import shutil
import subprocess
import tempfile
from fractions import Fraction

import numpy as np

from common import COQ

DT = {"f": np.float32, "d": np.float64}
FMAX = {"f": float(np.finfo(np.float32).max), "d": float(np.finfo(np.float64).max)}
# relative rounding budget of a short chain of float operations (generous: 16 .. 32 roundings)
RELERR = {"f": Fraction(1, 2 ** 20), "d": Fraction(1, 2 ** 48)}


def Q(x):
    """exact rational value of a finite float"""
    return Fraction(float(x))


def cast(x, dt):
    """value of python float x after conversion to dtype dt, as a python float (may be +-inf for float32)"""
    with np.errstate(over="ignore"):
        return float(DT[dt](x))


def step(x, k, dt):
    """x moved by k units in the last place in dtype dt (k may be negative)"""
    t = DT[dt]
    v = t(x)
    tgt = t(math.inf) if k > 0 else t(-math.inf)
    for _ in range(abs(k)):
        v = np.nextafter(v, tgt)
    v = float(v)
    if not math.isfinite(v):
        v = math.copysign(FMAX[dt], v)
    return v


def mant_exp(x):
    """finite float -> (m, e) with x = m * 2^e, |m| < 2^53"""
    x = float(x)
    if x == 0:
        return 0, 0
    m, e = math.frexp(x)
    return int(m * 2 ** 53), e - 53


def rnd(fr, dt):
    """correctly rounded value (python float) of an exact rational in dtype dt; double rounding through binary64 is
    innocuous for the sum of two float32 values"""
    try:
        v = float(fr)
    except OverflowError:
        v = math.inf if fr > 0 else -math.inf
    return cast(v, dt) if dt == "f" else v


# ---------------------------------------------------------------------------------------------
# bit-exact model: Model/GridFloat.v evaluated inside Coq
_RES = re.compile(r"=\s*(-?\d+)\s*::\s*(-?\d+)\s*::\s*nil")
PER_FILE = 500


def gridfloat_available():
    return os.path.exists(os.path.join(COQ, "Model", "GridFloat.vo"))


def _run_file(path):
    try:
        p = subprocess.run(["timeout", "300", "coqc", "-Q", COQ, "PV", path], stdout=subprocess.PIPE, stderr=subprocess.STDOUT,
                           text=True, timeout=330, cwd=os.path.dirname(path))
        return p.returncode, p.stdout
    except subprocess.TimeoutExpired:
        return 124, "TIMEOUT"


def gridfloat_eval(cases, jobs=8):
    """cases: list of (mode, d, lo, hi, eps, m) with python floats (exactly the values the archive holds / receives).
    Returns a list of (index of the clip-then-cast code, index of the cast-then-clip code), one pair per case,
    computed by `Eval vm_compute` of GridFloat.run_case; raises RuntimeError when Coq fails or times out (a timeout is a
    failed obligation, never a pass)."""
    if not cases:
        return []
    tmp = tempfile.mkdtemp(prefix="c03cases_")
    try:
        files = []
        for k in range(0, len(cases), PER_FILE):
            lines = ["From Coq Require Import List ZArith.", "From PV Require Import Model.GridFloat.", "Open Scope Z_scope."]
            for (mode, d, lo, hi, eps, m) in cases[k:k + PER_FILE]:
                args = [mode, d, *mant_exp(lo), *mant_exp(hi), *mant_exp(eps), *mant_exp(m)]
                lines.append("Eval vm_compute in (run_case %s)." % " ".join("(%d)" % a for a in args))
            path = os.path.join(tmp, "cases_%d.v" % (k // PER_FILE))
            with open(path, "w") as f:
                f.write("\n".join(lines) + "\n")
            files.append(path)
        with concurrent.futures.ThreadPoolExecutor(max_workers=jobs) as ex:
            outs = list(ex.map(_run_file, files))
        res = []
        for (rc, out), path, k in zip(outs, files, range(0, len(cases), PER_FILE)):
            got = [(int(a), int(b)) for a, b in _RES.findall(out)]
            want = len(cases[k:k + PER_FILE])
            if rc != 0 or len(got) != want:
                raise RuntimeError("bit-exact model evaluation failed (rc=%s, %d of %d results): %s" % (rc, len(got), want, out[-600:]))
            res.extend(got)
        return res
    finally:
        shutil.rmtree(tmp, ignore_errors=True)


# ---------------------------------------------------------------------------------------------
# archives
def marr(rows, mdtype, ncol):
    """the measures container handed to the implementation"""
    if mdtype == "list":
        return [list(map(float, r)) for r in rows]
    with np.errstate(over="ignore"):
        return np.array(rows, dtype=DT[mdtype]).reshape(len(rows), ncol)


def arith(dtype, mdtype):
    """precision the implementation's arithmetic on measures runs in"""
    return "f" if (dtype == "f" and mdtype == "f") else "d"


def make_grid(spec):
    from ribs.archives import GridArchive
    return GridArchive(solution_dim=1, dims=spec["dims"], ranges=[tuple(r) for r in spec["ranges"]], epsilon=spec["eps"],
                       dtype=DT[spec["dtype"]])


def grid_params(a):
    """(dims, lower, upper, eps) the archive actually holds, as python numbers, read through the public API"""
    return ([int(x) for x in a.dims], [float(x) for x in a.lower_bounds], [float(x) for x in a.upper_bounds], float(a.epsilon))


def make_cvt(spec, strategy, centroids=None):
    """strategy: 'kd' | 'brute' | 'chunk'"""
    from ribs.archives import CVTArchive
    kw = dict(solution_dim=1, cells=spec["cells"], ranges=[tuple(r) for r in spec["ranges"]], dtype=DT[spec["dtype"]], seed=spec.get("seed", 1))
    if centroids is not None:
        kw["custom_centroids"] = np.array(centroids, dtype=np.float64)
    elif spec["method"] == "custom":
        kw["custom_centroids"] = np.array(spec["centroids"], dtype=np.float64)
    else:
        kw["centroid_method"] = spec["method"]
        if spec["method"] == "kmeans":
            kw["samples"] = spec.get("samples", 400)
    if strategy == "kd":
        kw["use_kd_tree"] = True
    else:
        kw["use_kd_tree"] = False
        if strategy == "chunk":
            kw["chunk_size"] = spec["chunk"]
    return CVTArchive(**kw)


def make_sliding(spec):
    from ribs.archives import SlidingBoundariesArchive
    a = SlidingBoundariesArchive(solution_dim=1, dims=spec["dims"], ranges=[tuple(r) for r in spec["ranges"]], epsilon=spec["eps"],
                                 dtype=DT[spec["dtype"]], remap_frequency=spec["remap"], buffer_capacity=spec["buffer"], seed=1)
    return a


def make_prox(spec):
    from ribs.archives import ProximityArchive
    return ProximityArchive(solution_dim=1, measure_dim=spec["mdim"], k_neighbors=spec["k"], novelty_threshold=spec["thr"],
                            initial_capacity=spec.get("cap", 4), dtype=DT[spec["dtype"]], seed=1,
                            local_competition=bool(spec.get("lc", False)))


# ---------------------------------------------------------------------------------------------
def dist2(m, c):
    return sum(((a - b) * (a - b) for a, b in zip(m, c)), Fraction(0))


def greedy_shrink(case, reductions, fails, budget=300):
    """repeatedly replace `case` by the first reduction on which `fails` still holds"""
    n = 0
    progress = True
    while progress and n < budget:
        progress = False
        for cand in reductions(case):
            n += 1
            if n >= budget:
                break
            try:
                ok = fails(cand)
            except Exception:  # noqa
                ok = False
            if ok:
                case = cand
                progress = True
                break
    return case
