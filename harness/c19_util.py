"""Helpers of the C19 check: exact-arithmetic bookkeeping (which float operations of the implementation are exact, proved with
fractions.Fraction), rounding bounds for the operations that are not, and the case generators."""
import math
from fractions import Fraction

import numpy as np

U = Fraction(1, 2 ** 52)          # 2 * unit roundoff of binary64
U32 = Fraction(1, 2 ** 23)        # 2 * unit roundoff of binary32
STOCK = ["imp", "2imp", "rd", "2rd", "obj", "2obj", "nov", "density"]


def fr(x):
    return Fraction(float(x))


def frl(a):
    a = np.asarray(a)
    if a.ndim == 0:
        return fr(a)
    return [frl(x) for x in a]


def is_f64(q):
    """q (a Fraction) is a binary64 number"""
    try:
        return Fraction(float(q)) == q
    except OverflowError:
        return False


def is_f32(q):
    try:
        with np.errstate(over="ignore"):
            return Fraction(float(np.float32(float(q)))) == q
    except OverflowError:
        return False


def rep(q, dtype):
    return is_f32(q) if np.dtype(dtype) == np.float32 else is_f64(q)


def sum_exact(terms, bits=53):
    """sufficient: every term is a multiple of 2^-G and sum |t| < 2^(bits-G), so every partial sum in ANY order of
    evaluation is representable with `bits` significant bits"""
    g = 0
    tot = Fraction(0)
    for t in terms:
        d = t.denominator
        if d & (d - 1):
            return False
        g = max(g, d.bit_length() - 1)
        tot += abs(t)
    return tot * 2 ** g < 2 ** bits


def exact_sqrt(q):
    """exact rational square root of a Fraction, or None"""
    if q < 0:
        return None
    a, b = math.isqrt(q.numerator), math.isqrt(q.denominator)
    if a * a == q.numerator and b * b == q.denominator:
        return Fraction(a, b)
    return None


def norm_info(J_row, m_float, eps):
    """J_row: list of Fractions; m_float: numpy's norm of that row (a float); eps: Fraction.
    Returns (ok, exact, quotients): ok = numpy's norm is (up to rounding) the Euclidean norm; exact = every float operation of
    `row / (norm + eps)` is exact; quotients = the exact values row[k] / (m + eps) (None when the divisor is 0)."""
    ss = sum(x * x for x in J_row)
    m = fr(m_float)
    r = exact_sqrt(ss)
    exact = r is not None and r == m
    ok = exact or abs(m * m - ss) <= (len(J_row) + 4) * U * ss
    s = m + eps
    if s == 0:
        return ok, False, None
    qs = [x / s for x in J_row]
    exact = exact and is_f64(s) and all(is_f64(x) for x in qs)
    return ok, exact, qs


def recomb_weights(k):
    """ln(k + 1/2) - ln(i), i = 1..k, normalised (computed with math.log, not with numpy)"""
    if k <= 0:
        return []
    w = [math.log(k + 0.5) - math.log(i) for i in range(1, k + 1)]
    s = math.fsum(w)
    return [x / s for x in w]


def rank_of(rows):
    """rank of a list of Fraction vectors (Gaussian elimination over Q)"""
    m = [list(r) for r in rows if any(r)]
    rk = 0
    ncol = len(m[0]) if m else 0
    for c in range(ncol):
        piv = None
        for i in range(rk, len(m)):
            if m[i][c] != 0:
                piv = i
                break
        if piv is None:
            continue
        m[rk], m[piv] = m[piv], m[rk]
        for i in range(len(m)):
            if i != rk and m[i][c] != 0:
                f = m[i][c] / m[rk][c]
                m[i] = [a - f * b for a, b in zip(m[i], m[rk])]
        rk += 1
    return rk


def show(x):
    """Fractions -> JSON-able (floats when exact, else 'n/d')"""
    if isinstance(x, Fraction):
        return float(x) if is_f64(x) else "%d/%d" % (x.numerator, x.denominator)
    if isinstance(x, (list, tuple)):
        return [show(y) for y in x]
    if isinstance(x, dict):
        return {k: show(v) for k, v in x.items()}
    if isinstance(x, (np.integer,)):
        return int(x)
    if isinstance(x, (np.floating,)):
        return float(x)
    return x


# ---------------------------------------------------------------------------------------------------------------
# generators
def dy(rng, lo=-8, hi=8, k=3):
    return rng.randint(lo * 2 ** k, hi * 2 ** k) / 2 ** k


PYTH2 = [(3, 4, 5), (5, 12, 13), (8, 15, 17), (20, 21, 29), (7, 24, 25), (9, 12, 15), (6, 8, 10)]
PYTH3 = [(1, 2, 2, 3), (2, 3, 6, 7), (4, 4, 7, 9), (2, 6, 9, 11), (1, 4, 8, 9), (2, 10, 11, 15)]


def _dyadic(q):
    d = q.denominator
    return d & (d - 1) == 0 and d <= 2 ** 12


def gen_grad_row(rng, n, norm, eps, earlier):
    """one gradient (a row of a Jacobian).  In the exact stream with normalisation the Euclidean norm m is rational and
    m + eps is a power of two, so that row / (m + eps) is exact; zero rows, axis rows, Pythagorean rows, multiples of earlier rows
    (rank deficiency) and arbitrary dyadic rows (inexact under normalisation -> compared with a rounding bound)."""
    r = rng.random()
    if r < 0.18 and (not norm or eps != 0):
        return [0.0] * n
    if r < 0.30 and earlier:
        base = rng.choice(earlier)
        f = rng.choice([1.0, -1.0, 1.0, -1.0, 0.0]) if norm else rng.choice([1.0, -1.0, 2.0, 0.5, -0.25, 0.0])
        if f != 0.0 or not norm or eps != 0:
            return [f * x for x in base]
    if r < 0.40:
        v = [dy(rng, -4, 4, 2) for _ in range(n)]
        if norm and eps == 0 and not any(v):
            v[0] = 1.0
        return v
    e = Fraction(eps)
    if norm:
        targets = [Fraction(2) ** a - e for a in range(-2, 7) if Fraction(2) ** a - e > 0]
    else:
        targets = [Fraction(rng.randint(1, 64), 4)]
    for _ in range(20):
        m = rng.choice(targets)
        shape = rng.random()
        v = [Fraction(0)] * n
        if shape < 0.45 or n == 1:
            v[rng.randrange(n)] = m * rng.choice([1, -1])
        elif shape < 0.8 or n == 2:
            a, b, c = rng.choice(PYTH2)
            i, j = rng.sample(range(n), 2)
            v[i], v[j] = m * a / c * rng.choice([1, -1]), m * b / c * rng.choice([1, -1])
        else:
            a, b, c, d = rng.choice(PYTH3)
            i, j, k = rng.sample(range(n), 3)
            v[i], v[j], v[k] = m * a / d * rng.choice([1, -1]), m * b / d, m * c / d * rng.choice([1, -1])
        if all(_dyadic(x) for x in v):
            return [float(x) for x in v]
    v = [0.0] * n
    v[0] = float(targets[0])
    return v


def gen_jac(rng, n, mdim, norm, eps, wild):
    if wild:
        rows = []
        for _ in range(mdim + 1):
            r = rng.random()
            if r < 0.12:
                rows.append([0.0] * n)
            elif r < 0.25 and rows:
                f = rng.uniform(-2, 2)
                rows.append([f * x for x in rng.choice(rows)])
            else:
                rows.append([rng.gauss(0, 1) * 10 ** rng.choice([-3, 0, 0, 0, 2]) for _ in range(n)])
        return rows
    rows = []
    for _ in range(mdim + 1):
        rows.append(gen_grad_row(rng, n, norm, eps, rows))
    return rows


def gen_coeffs(rng, B, k, wild):
    if wild:
        return [[rng.gauss(0, 1) for _ in range(k)] for _ in range(B)]
    out = []
    for _ in range(B):
        r = rng.random()
        if r < 0.1:
            out.append([0.0] * k)
        elif r < 0.25:
            row = [0.0] * k
            row[rng.randrange(k)] = rng.choice([1.0, -1.0, 2.0, -0.5])
            out.append(row)
        else:
            out.append([dy(rng, -4, 4, 2) for _ in range(k)])
    return out


def gen_rule(rng):
    r = rng.random()
    if r < 0.3:
        return "basic"
    if r < 0.55:
        return "no_improvement"
    return rng.choice([1, 2, 2, 3, 3, 4, 5, 7, -2, -3])


def gen_elite(rng, n, mdim, wild=False):
    sol = [rng.gauss(0, 3) for _ in range(n)] if wild else [dy(rng) for _ in range(n)]
    return [sol, dy(rng), [dy(rng, -1, 1, 4) for _ in range(mdim)]]


def gen_status(rng, B):
    cls = rng.choice(["all", "some", "some", "one", "none", "none"])
    if cls == "all":
        return [rng.choice([1, 2]) for _ in range(B)]
    if cls == "none":
        return [0] * B
    if cls == "one":
        st = [0] * B
        st[rng.randrange(B)] = rng.choice([1, 2])
        return st
    return [rng.choice([0, 0, 1, 2]) for _ in range(B)]


def gen_tell(rng, n, mdim, B, wild, last_ok=True):
    perm = list(range(B))
    rng.shuffle(perm)
    vals2d = rng.random() < 0.4
    return {"op": "tell",
            "sols": "last" if (last_ok and rng.random() < 0.7) else "synth",
            "synth": [[rng.gauss(0, 3) if wild else dy(rng) for _ in range(n)] for _ in range(B)],
            "feedback": "real" if rng.random() < 0.2 else "synthetic",
            "status": gen_status(rng, B),
            "stop": rng.random() < rng.choice([0.0, 0.0, 0.15, 0.4]),
            "objective": [dy(rng) for _ in range(B)],
            "measures": [[dy(rng, -1, 1, 4) for _ in range(mdim)] for _ in range(B)],
            "value": [dy(rng) for _ in range(B)],
            "novelty": [dy(rng, 0, 4) for _ in range(B)],
            "rank": [perm, [[dy(rng), dy(rng)] for _ in range(B)] if vals2d else [dy(rng) for _ in range(B)]],
            "theta_after": [dy(rng) for _ in range(n)],
            "extra_elites": [gen_elite(rng, n, mdim, wild) for _ in range(rng.choice([0, 0, 0, 1, 2]))]}


def gen_gae(rng, tier, wild=False):
    mdim = rng.choice([1, 1, 2, 2, 3])
    n = rng.choice([1, 2, 2, 3, 3, 4, 5])
    B = rng.choice([1, 2, 2, 3, 3, 4, 5, 6])
    norm = rng.random() < 0.55
    if wild:
        eps = rng.choice([1e-8, 1e-8, 1e-3, 0.5])
        lr = rng.choice([0.05, 0.1, 0.3, 1.0, rng.uniform(0.01, 1.0)])
        dtype = "float64"
    else:
        eps = rng.choice([1.0, 1.0, 3.0, 3.0, 0.5, 2.0, 4.0, 0.0])
        lr = rng.choice([0.25, 0.5, 0.5, 0.75, 1.0, 1.0, 0.125, 2.0])
        dtype = "float32" if rng.random() < 0.15 else "float64"
    mode = rng.choice(["ga"] * 6 + ["ga_str", "scripted", "scripted", "adam"])
    n_init = rng.choice([0, 1, 1, 2, 5]) if rng.random() < 0.2 else rng.choice([1, 2, 5])
    ops = []
    if rng.random() < 0.35:
        for _ in range(rng.choice([1, 1, 2])):
            k = rng.choice(["ask", "tell", "ask_dqd"])
            if k == "ask":
                ops.append({"op": "ask", "coeffs": gen_coeffs(rng, B, mdim + 1, wild)})
            elif k == "tell":
                ops.append(gen_tell(rng, n, mdim, B, wild, last_ok=False))
            else:
                ops.append({"op": "ask_dqd"})
    ncyc = rng.randint(1, 5) if tier == "quick" else rng.randint(1, 9)
    for c in range(ncyc):
        if rng.random() < 0.9:
            ops.append({"op": "ask_dqd"})
        if c == 0 or rng.random() < 0.9:
            ops.append({"op": "tell_dqd", "jac": gen_jac(rng, n, mdim, norm, eps, wild)})
        for _ in range(rng.choice([1, 1, 1, 2])):
            ops.append({"op": "ask", "coeffs": gen_coeffs(rng, B, mdim + 1, wild)})
        for _ in range(rng.choice([0, 1, 1, 1, 1, 1, 1, 2])):
            ops.append(gen_tell(rng, n, mdim, B, wild))
    return {"emitter": "GAE", "stream": "wild" if wild else "exact", "n": n, "mdim": mdim, "batch": B,
            "sel": rng.choice(["mu", "filter", "filter"]), "rule": gen_rule(rng), "norm": norm, "eps": eps, "dtype": dtype,
            "grad_opt": {"mode": mode, "lr": lr}, "ranker": rng.choice(STOCK + ["scripted"] * 6),
            "x0": [rng.gauss(0, 3) for _ in range(n)] if wild else [dy(rng) for _ in range(n)],
            "init_elites": [gen_elite(rng, n, mdim, wild) for _ in range(n_init)], "aseed": rng.randint(0, 99), "ops": ops}


def gen_goe(rng, tier, wild=False):
    mdim = rng.choice([1, 1, 2, 2, 3])
    n = rng.choice([1, 2, 2, 3, 3, 4])
    B = rng.choice([1, 2, 3, 3, 4, 5])
    norm = rng.random() < 0.5
    mg = rng.random() < 0.65
    operator = rng.choice(["isotropic", "isotropic", "isolinedd"])
    if wild:
        eps = rng.choice([1e-8, 1e-8, 1e-3])
        sigma, sigma_g, line_sigma = rng.choice([0.0, 0.1, 0.5]), rng.choice([0.05, 0.3, 1.0]), rng.choice([0.0, 0.2])
        dtype = "float64"
        rngmode = rng.randint(0, 10 ** 6)
    else:
        eps = rng.choice([1.0, 1.0, 3.0, 0.5, 2.0, 0.0])
        sigma, sigma_g, line_sigma = rng.choice([0.0, 0.5, 1.0]), rng.choice([0.25, 0.5, 1.0, 2.0]), rng.choice([0.0, 0.5])
        dtype = "float32" if rng.random() < 0.15 else "float64"
        rngmode = "spy"
    r = rng.random()
    if r < 0.55:
        bounds = None
    elif r < 0.8:
        bounds = [-64.0, 64.0]
    else:
        bounds = rng.choice([[-4.0, 4.0], [-1.0, 2.5], [0.0, 8.0]])
    use_init = rng.random() < 0.35
    n_init = rng.choice([0, 0, 1, 2, 4])
    ops = []
    if rng.random() < 0.3:
        ops.append({"op": "ask", "coeffs": gen_coeffs(rng, B, mdim + 1, False)})
    ncyc = rng.randint(1, 4) if tier == "quick" else rng.randint(1, 7)
    for c in range(ncyc):
        ops.append({"op": "ask_dqd",
                    "pre_add": [gen_elite(rng, n, mdim, wild) for _ in range(rng.choice([0, 0, 1, 2]))] if c > 0 or rng.random() < 0.2 else [],
                    "noise": [[dy(rng, -2, 2, 2) if rng.random() < 0.7 else 0.0 for _ in range(n)] for _ in range(B)],
                    "line": [[dy(rng, -2, 2, 1)] for _ in range(B)]})
        if rng.random() < 0.95:
            ops.append({"op": "tell_dqd", "jac": [gen_jac(rng, n, mdim, norm, eps, wild) for _ in range(B)]})
        for _ in range(rng.choice([1, 1, 1, 2])):
            ops.append({"op": "ask", "coeffs": gen_coeffs(rng, B, mdim + 1, False)})
        if rng.random() < 0.5:
            ops.append({"op": "tell"})
    return {"emitter": "GOE", "stream": "wild" if wild else "exact", "n": n, "mdim": mdim, "batch": B, "mg": mg, "norm": norm,
            "eps": eps, "sigma": sigma, "sigma_g": sigma_g, "line_sigma": line_sigma, "operator": operator, "bounds": bounds,
            "dtype": dtype, "init": [[dy(rng) for _ in range(n)] for _ in range(rng.choice([1, 2, 3]))] if use_init else None,
            "x0": [dy(rng) for _ in range(n)], "rng": rngmode,
            "init_elites": [gen_elite(rng, n, mdim, wild) for _ in range(n_init)], "aseed": rng.randint(0, 99), "ops": ops}
