"""C03 correspondence: index_of / index_of_single / grid<->int index conversion of GridArchive, CVTArchive (k-D tree, brute force,
chunked), SlidingBoundariesArchive and ProximityArchive against the exact models (Model/Grid.v, CVT.v, SlidingIndex.v,
Base/MixedRadix.v through the extracted runner), the bit-exact PrimFloat model (Model/GridFloat.v evaluated inside Coq) and
the property's own statement evaluated with exact rational arithmetic on the implementation's outputs."""
import py2v_grid
import math
import random
from fractions import Fraction

import numpy as np

import c03_util as u
from c03_util import Q, DT, FMAX, RELERR
from common import unq

CONFIG = {
    "cone": ["Base/MixedRadix.v", "Model/Grid.v", "Model/GridFloat.v", "Model/CVT.v", "Model/SlidingIndex.v", "Proofs/GridProofs.v",
             "Proofs/CVTProofs.v", "Proofs/SlidingIndexProofs.v", "Generated/GridGen.v", "Refine/GridRefine.v", "Properties/C03.v", "Model/RunC03.v",
             "Model/GridRound.v", "Proofs/GridRoundProofs.v", "Generated/GridGenR.v", "Refine/GridRoundRefine.v", "Properties/C03Float.v"],
    "extra_property_files": ["Refine/GridRefine.v", "Refine/GridRoundRefine.v", "Properties/C03Float.v"],
    "trusted": ["harness/py2v_grid.py: fail-closed translator of the index arithmetic of GridArchive.index_of (raw expression, clip bounds, clip-then-cast order) "
                "and of the clip expression / searchsorted side / max(0, .-1) of SlidingBoundariesArchive.index_of into Generated/GridGen.v on every run; "
                "Refine/GridRefine.v proves them equal to the models for all arguments; the same raw expression is also emitted over R with one rounding per "
                "operation (Generated/GridGenR.v) and proved equal to Model/GridRound.v in Refine/GridRoundRefine.v",
                "Model/GridRound.v reads floating-point arithmetic as 'exact operation followed by a monotone rounding' (Flocq's generic round; no "
                "overflow, no NaN): infinities produced by overflow are outside it (np.clip sends them to the edge cell) and are covered per instance by GridFloat.v",
                "Model/Grid.v is the exact-rational reading of GridArchive.index_of with a non-wrapping integer cast (= the repaired "
                "clip-then-cast code, C03_grid_clip_first_eq); float rounding is outside it: the exact stream compares only inputs "
                "farther from every cell edge than a rounding margin, near-edge inputs are decided by monotonicity, by the "
                "either-adjacent-cell clause and bit-exactly by Model/GridFloat.v (PrimFloat, evaluated by vm_compute, not extracted)",
                "scipy cKDTree is external: every answer it gives is checked to be in range and a minimiser of the exactly computed "
                "squared distance (relative 2^-48)",
                "numpy promotion order of GridArchive.index_of (float32 archive: subtraction in binary32, the rest in binary64) is "
                "written into GridFloat.v by hand and tied by the bit-exact stream"],
    "level_text": "Theorems in coq/Properties/C03.v: for every grid dimension (any d >= 1, lo < hi, eps >= 0) and EVERY rational "
                  "coordinate the index is in range, monotone, d-1 above the range and 0 below it for every magnitude, equals the "
                  "[lower,upper) interval map of the coordinate shifted by eps/d (in-cell, boundary-above, adjacent-cell corollaries), and "
                  "the clip-then-cast code equals it while the cast-then-clip code (pre-fix) is refuted by a witness; ravel/unravel are "
                  "inverse bijections for every dims list; index_of_single = index_of at every batch position; CVT brute force returns a "
                  "minimiser (first on ties) for every centroid list, chunking is invisible, any two minimisers are equidistant; the "
                  "sliding index satisfies its searchsorted specification, is in range and monotone for every sorted boundary list. "
                  "coq/Properties/C03Float.v: the grid index in ROUNDED arithmetic (one rounding per operation, any radix / format / rounding "
                  "direction, the four operations possibly in different formats) is in range and monotone for every real coordinate, 0 at or below "
                  "the lower bound, and d-1 at or above the upper bound for binary64 round-to-nearest-even under explicit accuracy conditions (d <= 2^51). Tied to "
                  "ribs/archives by differential runs against all four archive types on every run.",
    "level_note": "Trusted: Coq kernel and vm_compute; extraction + OCaml driver; the hand-written models (sampled tie only); the harness; "
                  "scipy's cKDTree is checked per answer, not modelled. Float rounding near cell edges is covered per instance "
                  "(bit-exact model on generated inputs), not universally. No axioms beyond Coq's primitive-float/int63 primitives in GridFloat.v "
                  "(Properties/C03.v is closed under the global context); Properties/C03Float.v uses Coq's real numbers and Flocq and therefore depends on the "
                  "standard library's sig_forall_dec, functional_extensionality_dep (and classic where Flocq's relative-error lemmas need it).",
    "technique": "Rocq/Coq proof over executable Gallina models (exact Q + bit-exact PrimFloat) + model-vs-implementation correspondence run",
    "design_ref": "DESIGN.md section 5, C03",
}

INT32_LIMIT = 2 ** 31
THEOREMS = {
    "grid": ["C03_grid_range", "C03_grid_monotone", "C03_grid_edge_high", "C03_grid_edge_low", "C03_grid_shift", "C03_grid_in_cell",
             "C03_grid_in_cell_or_next", "C03_grid_boundary_above", "C03_grid_clip_first_eq", "C03_grid_index_cells", "C03_grid_single_is_batch"],
    "gridmono": ["C03_grid_monotone", "C03_grid_index_monotone", "C03_grid_edge_high", "C03_grid_edge_low", "C03_float_grid_monotone",
                 "C03_float_grid_range", "C03_float_grid_edge_low", "C03_float_grid_edge_high_binary64"],
    "gridbnd": ["C03_grid_boundary_above"],
    "gridfloat": ["Model/GridFloat.v idx_f_clip_first (bit-exact correspondence)", "C03_grid_clip_first_eq"],
    "biject": ["C03_grid_int_grid_inverse", "C03_unravel_ravel", "C03_ravel_unravel"],
    "cvt": ["C03_cvt_is_minimiser", "C03_cvt_chunked_eq", "C03_cvt_tie_any", "C03_cvt_first_wins"],
    "sliding": ["C03_sb_idx_spec", "C03_sb_idx_cell", "C03_sb_range", "C03_sb_monotone", "C03_sb_index_range"],
    "prox": ["C03_cvt_is_minimiser", "C03_cvt_tie_any"],
}


def fail(kind, what, **kw):
    d = {"kind": kind, "what": what}
    d.update(kw)
    return d


# =============================================================================================
# GridArchive
def grid_raw(d, lo, hi, eps, m):
    return (d * (m - lo) + eps) / (hi - lo)


def clip_trunc(r, d):
    t = math.floor(r) if r >= 0 else math.ceil(r)
    return min(max(t, 0), d - 1)


def grid_margin(d, lo, hi, eps, m, prec):
    return RELERR[prec] * (abs(d * (m - lo)) + eps) / (hi - lo) + Fraction(1, 2 ** 900)


def grid_candidates(d, lo, hi, eps, m, prec):
    """cells the float computation may legitimately return: the exact cell, or both neighbours of an edge the raw value is
    closer to than the rounding margin"""
    r = grid_raw(d, lo, hi, eps, m)
    mg = grid_margin(d, lo, hi, eps, m, prec)
    return {clip_trunc(r - mg, d), clip_trunc(r, d), clip_trunc(r + mg, d)}, r


def grid_cells_of(a, idx):
    return [[int(x) for x in row] for row in a.int_to_grid_index(idx)]


def grid_oracle(spec, params, mrow, cells):
    """the property's statement on the implementation's output, in measure space: cell c of a dimension must satisfy
    b_c <= m + eps/d (c > 0) and m + eps/d < b_{c+1} (c < d-1), up to rounding; m >= hi -> d-1; m <= lo -> 0"""
    dims, lo, hi, eps = params
    prec = spec["dtype"]   # a float32 archive rounds interval_size = upper - lower in binary32 whatever the measures' dtype
    for i, (d, l, h, m, c) in enumerate(zip(dims, lo, hi, mrow, cells)):
        l, h, m, e = Q(l), Q(h), Q(m), Q(eps)
        w = h - l
        if not 0 <= c < d:
            return "dimension %d: cell %d outside [0, %d)" % (i, c, d)
        if m >= h and c != d - 1:
            return "dimension %d: coordinate %r >= upper bound %r but cell %d != last cell %d" % (i, float(m), float(h), c, d - 1)
        if m <= l and e * 2 <= w and c != 0:
            return "dimension %d: coordinate %r <= lower bound %r but cell %d != 0" % (i, float(m), float(l), c)
        tol = RELERR[prec] * (abs(m - l) + e / d + w / d) + Fraction(1, 2 ** 900)
        x = m + e / d
        if c > 0 and x + tol < l + c * w / d:
            return "dimension %d: coordinate %r lies below cell %d = [%r, %r)" % (i, float(m), c, float(l + c * w / d), float(l + (c + 1) * w / d))
        if c < d - 1 and x - tol >= l + (c + 1) * w / d:
            return "dimension %d: coordinate %r lies above cell %d = [%r, %r)" % (i, float(m), c, float(l + c * w / d), float(l + (c + 1) * w / d))
    return None


def run_grid(case, driver):
    """exact stream. Returns (failures, info)"""
    spec, rows = case["spec"], case["measures"]
    info = {"ambiguous": 0, "far": 0, "near": 0, "cells": set()}
    a = u.make_grid(spec)
    params = u.grid_params(a)
    dims, lo, hi, eps = params
    nd = len(dims)
    prec = spec["dtype"]   # a float32 archive rounds interval_size = upper - lower in binary32 whatever the measures' dtype
    M = u.marr(rows, spec["mdtype"], nd)
    vals = [[float(x) for x in r] for r in np.asarray(M, dtype=np.float64).reshape(len(rows), nd)]
    fails = []
    try:
        with np.errstate(all="ignore"):
            idx = [int(x) for x in a.index_of(M)]
            cells = grid_cells_of(a, idx) if idx else []
    except Exception as e:  # noqa
        # which row?
        bad = None
        for k in range(len(rows)):
            try:
                with np.errstate(all="ignore"):
                    a.index_of(u.marr([rows[k]], spec["mdtype"], nd))
            except Exception:  # noqa
                bad = k
                break
        over = bad is not None and any(abs(grid_raw(d, Q(l), Q(h), Q(eps), Q(m))) >= INT32_LIMIT for d, l, h, m in zip(dims, lo, hi, vals[bad]))
        return [fail("grid-int32-overflow" if over else "grid-raises", "index_of raised %r on finite measures" % (e,), k=bad)], info
    singles = []
    for k in range(len(rows)):
        try:
            with np.errstate(all="ignore"):
                singles.append(int(a.index_of_single(M[k])))
        except Exception as e:  # noqa
            singles.append("raised %r" % (e,))
    out = driver.call("C03", [0, Q(eps), [[d, Q(l), Q(h)] for d, l, h in zip(dims, lo, hi)], [[Q(x) for x in r] for r in vals]])
    total = int(np.prod(dims))
    for k, (mrow, o) in enumerate(zip(vals, out)):
        m_idx, m_cells, m_single, m_old = o
        info["cells"].add(idx[k])
        cand = []
        amb = False
        for d, l, h, m in zip(dims, lo, hi, mrow):
            cs, r = grid_candidates(d, Q(l), Q(h), Q(eps), Q(m), prec)
            cand.append(cs)
            amb = amb or len(cs) > 1
            if abs(r) >= INT32_LIMIT:
                info["far"] += 1
            if r - math.floor(r) < Fraction(1, 2 ** 30) or math.ceil(r) - r < Fraction(1, 2 ** 30):
                info["near"] += 1
        info["ambiguous"] += amb
        if not 0 <= idx[k] < total:
            fails.append(fail("grid-index-out-of-range", "index %d outside [0, %d)" % (idx[k], total), k=k))
            continue
        bad_dims = [i for i in range(nd) if cells[k][i] not in cand[i]]
        if bad_dims:
            raws = [grid_raw(dims[i], Q(lo[i]), Q(hi[i]), Q(eps), Q(mrow[i])) for i in bad_dims]
            wrapped = all(r >= INT32_LIMIT - 1 and cells[k][i] == 0 for r, i in zip(raws, bad_dims))
            kind = "grid-int32-overflow" if wrapped or (idx[k] == m_old and m_old != m_idx) else "grid-index-mismatch"
            fails.append(fail(kind, "index_of(%r) = %d (grid %r), model %d (grid %r)" % (mrow, idx[k], cells[k], m_idx, m_cells), k=k,
                              dims=bad_dims, impl=[idx[k], cells[k]], model=[m_idx, m_cells], model_cast_then_clip=m_old))
        elif not amb and (idx[k] != m_idx or m_single != m_idx):
            fails.append(fail("grid-ravel-mismatch", "grid cells agree but integer index %d != model %d" % (idx[k], m_idx), k=k,
                              impl=[idx[k], cells[k]], model=[m_idx, m_cells]))
        if singles[k] != idx[k]:
            fails.append(fail("single-vs-batch", "index_of_single(%r) = %r but index_of(batch)[%d] = %d" % (mrow, singles[k], k, idx[k]), k=k,
                              impl=[singles[k], idx[k]], model=[m_single, m_idx]))
    return fails, info


def reduce_grid(case):
    spec, rows = case["spec"], case["measures"]
    nd = len(spec["dims"])
    if len(rows) > 1:
        for k in range(len(rows)):
            yield {**case, "measures": [rows[k]]}
    if nd > 1:
        for i in range(nd):
            s2 = {**spec, "dims": [spec["dims"][i]], "ranges": [spec["ranges"][i]]}
            yield {**case, "spec": s2, "measures": [[r[i]] for r in rows]}
    for key, val in (("mdtype", "d"), ("dtype", "d"), ("eps", 1e-6)):
        if spec[key] != val:
            yield {**case, "spec": {**spec, key: val}}
    for i in range(nd):
        if spec["ranges"][i] != [0.0, 1.0]:
            r2 = list(spec["ranges"])
            r2[i] = [0.0, 1.0]
            yield {**case, "spec": {**spec, "ranges": r2}}
        if spec["dims"][i] != 10:
            d2 = list(spec["dims"])
            d2[i] = 10
            yield {**case, "spec": {**spec, "dims": d2}}
    if len(rows) == 1:
        for i in range(nd):
            v = rows[0][i]
            for nv in simpler_values(v):
                r2 = list(rows[0])
                r2[i] = nv
                yield {**case, "measures": [r2]}


def simpler_values(v):
    out = []
    if v != 0 and math.isfinite(v):
        e = math.floor(math.log10(abs(v)))
        for ee in range(min(e, 9), e):
            if ee >= 0:
                out.append(math.copysign(10.0 ** ee, v))
        out.append(math.copysign(10.0 ** e, v))
        out.append(float("%.2g" % v))
    return [x for x in out if x != v and abs(x) < abs(v)]


# --- monotone sweeps + edge clauses + boundary clause on one archive -------------------------------------------------
def sweep_values(rng, d, lo, hi, eps, dtype, mdtype):
    w = hi - lo
    vdt = "f" if mdtype == "f" else "d"
    vals = {lo, hi, u.step(lo, -1, vdt), u.step(hi, 1, vdt), u.step(hi, -1, vdt), 0.0}
    js = range(d + 1) if d <= 12 else sorted(set([0, 1, d - 1, d] + [rng.randrange(d + 1) for _ in range(8)]))
    for j in js:
        b = lo + j * w / d
        for k in range(-4, 5):
            vals.add(u.step(b, k, vdt))
            if dtype == "f" and vdt == "d":
                vals.add(u.step(u.cast(b, "f"), k, "f"))
        if eps:
            vals.add(b - eps / d)
            vals.add(u.step(b - eps / d, rng.choice([-1, 1]), vdt))
    for _ in range(8):
        vals.add(rng.uniform(lo, hi))
    for mag in (1e9, 3e9, 1e12, 1e18, 1e30, 1e38, 1e100, 1e300, FMAX["d"], 5e-324, 1e-310, 1e-45):
        for s in (1, -1):
            vals.add(hi + s * mag if mag < 1e30 and rng.random() < 0.5 else s * mag)
    out = set()
    for v in vals:
        v = u.cast(v, vdt)
        if math.isfinite(v):
            out.add(v)
        else:
            out.add(math.copysign(FMAX[vdt], v))
    return sorted(out)


def run_gridmono(case, driver=None):
    """case: spec, dim, base (one full measure vector), values (sorted coordinates for dimension dim)"""
    spec, i, base, values = case["spec"], case["dim"], case["base"], case["values"]
    a = u.make_grid(spec)
    dims, lo, hi, eps = u.grid_params(a)
    nd = len(dims)
    rows = []
    for v in values:
        r = list(base)
        r[i] = v
        rows.append(r)
    M = u.marr(rows, spec["mdtype"], nd)
    try:
        with np.errstate(all="ignore"):
            cells = grid_cells_of(a, a.index_of(M))
    except Exception as e:  # noqa
        return [fail("grid-raises", "index_of raised %r on a sweep of finite measures" % (e,))], {}
    d, l, h, e_ = dims[i], Q(lo[i]), Q(hi[i]), Q(eps)
    raws = [grid_raw(d, l, h, e_, Q(v)) for v in values]
    fails = []
    for k in range(len(values)):
        c = cells[k][i]
        over = raws[k] >= INT32_LIMIT - 1
        if Q(values[k]) >= h and c != d - 1:
            fails.append(fail("grid-int32-overflow" if over else "grid-edge", "coordinate %r >= upper bound %r maps to cell %d, not the last cell %d"
                              % (values[k], hi[i], c, d - 1), pair=[k, k]))
        if Q(values[k]) <= l and 2 * e_ <= h - l and c != 0:
            fails.append(fail("grid-edge", "coordinate %r <= lower bound %r maps to cell %d, not 0" % (values[k], lo[i], c), pair=[k, k]))
        if k and cells[k - 1][i] > c:
            fails.append(fail("grid-int32-overflow" if over else "grid-nonmonotone",
                              "not monotone in dimension %d: %r -> cell %d but %r -> cell %d" % (i, values[k - 1], cells[k - 1][i], values[k], c),
                              pair=[k - 1, k]))
        if any(cells[k][j] != cells[0][j] for j in range(nd) if j != i):
            fails.append(fail("grid-dims-coupled", "changing coordinate %d changed the cell of another dimension: %r vs %r" % (i, cells[0], cells[k]),
                              pair=[0, k]))
    return fails, {"n": len(values)}


def reduce_gridmono(case):
    vals = case["values"]
    n = len(vals)
    if n > 2:
        for k in range(n - 1):
            yield {**case, "values": vals[k:k + 2]}
        for k in range(n):
            yield {**case, "values": [vals[k]]}
    spec = case["spec"]
    if len(spec["dims"]) > 1:
        i = case["dim"]
        yield {**case, "spec": {**spec, "dims": [spec["dims"][i]], "ranges": [spec["ranges"][i]]}, "dim": 0, "base": [case["base"][i]]}
    for key, val in (("mdtype", "d"), ("dtype", "d"), ("eps", 1e-6)):
        if spec[key] != val:
            yield {**case, "spec": {**spec, key: val}}
    if len(vals) <= 2:
        for k, v in enumerate(vals):
            for nv in simpler_values(v):
                v2 = list(vals)
                v2[k] = nv
                if v2 == sorted(v2):
                    yield {**case, "values": v2}


def moderate(d, lo, hi, eps, dtype):
    """configurations on which 'a coordinate equal to a reported boundary belongs to the cell above it' is within what epsilon and
    rounding resolve: epsilon dominates the accumulated rounding of boundary and index computation and is well below a cell width"""
    w = hi - lo
    bits = 48 if dtype == "d" else 19
    return eps >= d * max(abs(lo), abs(hi), w) * 2.0 ** -bits and eps * 4 * d <= w


def run_gridbnd(case, driver=None):
    """every reported boundary b_j (j < d) of every dimension maps to cell j (moderate configurations, see `moderate`)"""
    spec = case["spec"]
    a = u.make_grid(spec)
    dims, lo, hi, eps = u.grid_params(a)
    nd = len(dims)
    base = case["base"]
    fails, n = [], 0
    for i in range(nd):
        if not moderate(dims[i], lo[i], hi[i], eps, spec["dtype"]):
            continue
        b = [float(x) for x in a.boundaries[i]]
        if len(b) != dims[i] + 1 or b[0] != lo[i] or b[-1] != hi[i] or any(b[j] >= b[j + 1] for j in range(dims[i])):
            fails.append(fail("grid-boundaries", "boundaries[%d] is not an increasing list of dims+1 values from lower to upper bound" % i, dim=i))
            continue
        js = case.get("js", {}).get(str(i)) or list(range(dims[i]))
        rows = []
        for j in js:
            r = list(base)
            r[i] = b[j]
            rows.append(r)
        M = u.marr(rows, "f" if spec["dtype"] == "f" else "d", nd)
        with np.errstate(all="ignore"):
            cells = grid_cells_of(a, a.index_of(M))
        n += len(js)
        for j, c in zip(js, cells):
            if c[i] != j:
                fails.append(fail("grid-boundary-below", "boundaries[%d][%d] = %r maps to cell %d, not to the cell above the boundary (%d)" % (i, j, b[j], c[i], j),
                                  dim=i, j=j))
    return fails, {"n": n}


def reduce_gridbnd(case):
    spec = case["spec"]
    nd = len(spec["dims"])
    if nd > 1:
        for i in range(nd):
            yield {"stream": "gridbnd", "spec": {**spec, "dims": [spec["dims"][i]], "ranges": [spec["ranges"][i]]}, "base": [case["base"][i]]}
    for i in range(nd):
        js = case.get("js", {}).get(str(i)) or list(range(spec["dims"][i]))
        if len(js) > 1:
            for j in js:
                yield {**case, "js": {**case.get("js", {}), str(i): [j]}}


# --- bit-exact ---------------------------------------------------------------------------------------------------------
def gridfloat_inputs(rng, a, spec, n):
    dims, lo, hi, eps = u.grid_params(a)
    vdt = "f" if spec["mdtype"] == "f" else "d"
    rows = []
    for _ in range(n):
        r = []
        for i, d in enumerate(dims):
            b = [float(x) for x in a.boundaries[i]]
            t = rng.random()
            if t < 0.62:
                v = u.step(rng.choice(b), rng.randint(-4, 4), vdt)
            elif t < 0.70 and eps:
                v = u.step(rng.choice(b) - eps / d, rng.randint(-2, 2), vdt)
            elif t < 0.78:
                v = rng.choice([u.step(lo[i], -1, vdt), hi[i], lo[i] - 5e-324, lo[i] - abs(lo[i]) * 1e-16 - 1e-300])
            elif t < 0.88:
                v = rng.choice([1, -1]) * rng.choice([FMAX[vdt], FMAX["d"], 1e9, 3e10, 1e300, 5e-324, 1e-45])
            else:
                v = rng.uniform(lo[i] - (hi[i] - lo[i]), hi[i] + (hi[i] - lo[i]))
            v = u.cast(v, vdt)
            if not math.isfinite(v):
                v = math.copysign(FMAX[vdt], v)
            r.append(v)
        rows.append(r)
    return rows


def gridfloat_collect(case):
    """-> (impl cells per row, list of model cases (mode, d, lo, hi, eps, m) in row-major order)"""
    spec, rows = case["spec"], case["measures"]
    a = u.make_grid(spec)
    dims, lo, hi, eps = u.grid_params(a)
    nd = len(dims)
    M = u.marr(rows, spec["mdtype"], nd)
    with np.errstate(all="ignore"):
        cells = grid_cells_of(a, a.index_of(M))
    mode = 0 if spec["dtype"] == "d" else (1 if spec["mdtype"] == "f" else 2)
    mc = [(mode, dims[i], lo[i], hi[i], eps, float(r[i])) for r in rows for i in range(nd)]
    return cells, mc


def gridfloat_compare(case, cells, res):
    """res: model results for this case's cases, row-major"""
    nd = len(case["spec"]["dims"])
    fails = []
    for k, row in enumerate(case["measures"]):
        if "expect" in case:
            # boundary clause decided per instance by kernel computation on the bit-exact model: reported boundary j -> cell j
            i, j = case["expect"][k]
            if res[k * nd + i][0] != j:
                fails.append(fail("grid-boundary-below-model", "dimension %d: the bit-exact model maps the reported boundary[%d] = %r to cell %d, not %d "
                                  "(configuration classified as moderate)" % (i, j, row[i], res[k * nd + i][0], j), k=k, dims=[i], model=res[k * nd + i][0]))
        for i in range(nd):
            new, old = res[k * nd + i]
            c = cells[k][i]
            if c != new:
                kind = "grid-int32-overflow" if (c == old and old != new) else "grid-float-mismatch"
                fails.append(fail(kind, "dimension %d: index_of(%r) gives cell %d; bit-exact model (clip, then cast) %d; cast-then-clip order %d"
                                  % (i, row[i], c, new, old), k=k, dims=[i], impl=c, model=new, model_cast_then_clip=old))
    return fails


def run_gridfloat(case, driver=None):
    try:
        cells, mc = gridfloat_collect(case)
    except Exception as e:  # noqa
        return [fail("grid-raises", "index_of raised %r on finite measures" % (e,))], {}
    return gridfloat_compare(case, cells, u.gridfloat_eval(mc, jobs=2)), {"n": len(mc)}


def reduce_gridfloat(case):
    if "expect" in case:
        if len(case["measures"]) > 1:
            for k in range(len(case["measures"])):
                yield {**case, "measures": [case["measures"][k]], "expect": [case["expect"][k]]}
        return
    for c in reduce_grid(case):
        if c["measures"] != case["measures"] or len(c["spec"]["dims"]) != len(case["spec"]["dims"]):
            yield c


# --- bijection -----------------------------------------------------------------------------------------------------------
def run_biject(case, driver):
    spec = case["spec"]
    dims = spec["dims"]
    total = int(np.prod(dims))
    a = u.make_grid({"dims": dims, "ranges": [[0.0, 1.0]] * len(dims), "eps": 1e-6, "dtype": "d"}) if spec.get("kind", "grid") == "grid" else \
        u.make_sliding({"dims": dims, "ranges": [[0.0, 1.0]] * len(dims), "eps": 1e-6, "dtype": "d", "remap": 100, "buffer": 10})
    ints = list(range(total)) if case["ints"] == "all" else case["ints"]
    fails = []
    g = a.int_to_grid_index(np.array(ints, dtype=np.int64))
    grids = [[int(x) for x in r] for r in g]
    back = [int(x) for x in a.grid_to_int_index(g)]
    m_unravel, _ = driver.call("C03", [3, dims, ints, []])
    _, m_ravel = driver.call("C03", [3, dims, [], grids])
    for k, i in enumerate(ints):
        if len(grids[k]) != len(dims) or any(not 0 <= c < d for c, d in zip(grids[k], dims)):
            fails.append(fail("biject-range", "int_to_grid_index(%d) = %r outside the grid %r" % (i, grids[k], dims), k=k))
        elif grids[k] != m_unravel[k]:
            fails.append(fail("biject-unravel", "int_to_grid_index(%d) = %r, model (C order) %r" % (i, grids[k], m_unravel[k]), k=k,
                              impl=grids[k], model=m_unravel[k]))
        if back[k] != i:
            fails.append(fail("biject-roundtrip", "grid_to_int_index(int_to_grid_index(%d)) = %d" % (i, back[k]), k=k, impl=back[k], model=i))
        elif m_ravel[k] != back[k]:
            fails.append(fail("biject-ravel", "grid_to_int_index(%r) = %d, model %d" % (grids[k], back[k], m_ravel[k]), k=k, impl=back[k], model=m_ravel[k]))
    if case["ints"] == "all":
        if len({tuple(r) for r in grids}) != total:
            fails.append(fail("biject-not-injective", "int_to_grid_index is not injective over the %d cells" % total))
        # the other direction over the whole grid: every grid tuple in C order -> 0..total-1
        allg = np.array(list(np.ndindex(*dims)), dtype=np.int64).reshape(total, len(dims))
        fwd = [int(x) for x in a.grid_to_int_index(allg)]
        # the grid tuples in the narrowest integer type that holds every coordinate (uint8 / int8 / int16 ...) and as plain lists: the
        # flattened index may need more bits than a coordinate does
        if fwd == list(range(total)):
            for ndt in (np.uint8, np.int8, np.int16, np.uint16, np.int32):
                if max(dims) - 1 <= np.iinfo(ndt).max:
                    alt = [int(x) for x in a.grid_to_int_index(allg.astype(ndt))]
                    if alt != fwd:
                        k = next(k for k in range(total) if alt[k] != fwd[k])
                        fails.append(fail("biject-ravel", "grid_to_int_index(%r as %s) = %d, expected %d" % ([int(x) for x in allg[k]], np.dtype(ndt).name, alt[k], k),
                                          k=k, impl=alt[k], model=k))
                        break
            if not fails and [int(x) for x in a.grid_to_int_index(allg.tolist())] != fwd:
                fails.append(fail("biject-ravel", "grid_to_int_index of a list of tuples differs from the int64 array", k=0))
        if fwd != list(range(total)):
            k = next(k for k in range(total) if fwd[k] != k)
            fails.append(fail("biject-ravel", "grid_to_int_index(%r) = %d, expected %d" % ([int(x) for x in allg[k]], fwd[k], k), k=k, impl=fwd[k], model=k))
    return fails, {"n": len(ints)}


def reduce_biject(case):
    dims = case["spec"]["dims"]
    ints = list(range(int(np.prod(dims)))) if case["ints"] == "all" else case["ints"]
    if len(ints) > 1:
        for i in ints[:200]:
            yield {**case, "ints": [i]}


# =============================================================================================
# CVT / Proximity: exact minimiser checks on integer-scaled coordinates
def scale_all(*arrays):
    """finite floats -> integers by one common power of two (exact)"""
    emin = 0
    mes = []
    for arr in arrays:
        rows = []
        for r in arr:
            row = []
            for x in r:
                m, e = u.mant_exp(x)
                if m:
                    emin = min(emin, e)
                row.append((m, e))
            rows.append(row)
        mes.append(rows)
    return [[[m << (e - emin) if m else 0 for m, e in row] for row in rows] for rows in mes], emin


def idist2(a, b):
    return sum((x - y) * (x - y) for x, y in zip(a, b))


def nearest_check(label, ret, dists, n, emin, nd, prec, total_name="cells"):
    """ret: returned index; dists: exact scaled squared distances to the n candidates. -> None | failure"""
    thr = (2 ** 1022 if prec == "d" else 2 ** 126)
    unit = Fraction(2) ** (2 * emin)
    dmin = min(dists)
    jmin = dists.index(dmin)
    overflow = lambda x: x * unit >= thr  # noqa
    if not 0 <= ret < n:
        kind = "cvt-distance-overflow" if overflow(dmin) else "cvt-index-out-of-range"
        return fail(kind, "%s: returned index %d outside [0, %s=%d)%s" % (label, ret, total_name, n,
                    " (squared distance to every candidate overflows the float type)" if overflow(dmin) else ""), impl=ret, model=jmin)
    bits = 48 if prec == "d" else 19
    dr = dists[ret]
    if dr * 2 ** bits <= dmin * (2 ** bits + 1):
        return None
    tiny = nd * Fraction(2) ** (-1022 if prec == "d" else -126)
    if dr * unit <= dmin * unit * (1 + Fraction(1, 2 ** bits)) + tiny:
        return None
    kind = "cvt-distance-overflow" if (overflow(dr) and overflow(dmin)) else "cvt-not-nearest"
    return fail(kind, "%s: returned candidate %d at squared distance %s but candidate %d is at %s" % (
        label, ret, fmt_big(dr * unit), jmin, fmt_big(dmin * unit)), impl=ret, model=jmin)


def fmt_big(fr):
    try:
        return repr(float(fr))
    except OverflowError:
        return "~2^%d" % (fr.numerator.bit_length() - fr.denominator.bit_length())


def run_cvt(case, driver):
    spec, queries = case["spec"], case["queries"]
    nd = len(spec["ranges"])
    info = {"ties": 0, "near_ties": 0, "overflow": 0, "distinct": set(), "model_rows": 0}
    archives = {}
    for strat in ("kd", "brute", "chunk"):
        archives[strat] = u.make_cvt(spec, strat)
    M = u.marr(queries, spec["mdtype"], nd)
    qvals = [[float(x) for x in r] for r in np.asarray(M, dtype=np.float64).reshape(len(queries), nd)]
    fails = []
    results = {}
    cents = {}
    for strat, a in archives.items():
        c = np.asarray(a.centroids)
        if c.shape != (spec["cells"], nd):
            fails.append(fail("cvt-centroids-shape", "%s archive reports centroids of shape %r" % (strat, c.shape)))
            return fails, info
        cents[strat] = c
        try:
            with np.errstate(all="ignore"):
                results[strat] = [int(x) for x in a.index_of(M)]
        except Exception as e:  # noqa
            fails.append(fail("cvt-raises", "%s: index_of raised %r on finite measures" % (strat, e)))
            return fails, info
        if len(results[strat]) != len(queries):
            fails.append(fail("cvt-batch-length", "%s: index_of returned %d indices for %d measures" % (strat, len(results[strat]), len(queries))))
            return fails, info
        for k in range(len(queries)):
            try:
                with np.errstate(all="ignore"):
                    s = int(a.index_of_single(M[k]))
            except Exception as e:  # noqa
                s = "raised %r" % (e,)
            if s != results[strat][k]:
                fails.append(fail("single-vs-batch", "%s: index_of_single(%r) = %r but index_of(batch)[%d] = %d" % (strat, qvals[k], s, k, results[strat][k]),
                                  k=k, impl=[s, results[strat][k]]))
    same = all(cents[s].dtype == cents["kd"].dtype and np.array_equal(cents[s], cents["kd"]) for s in cents)
    exact_cache = {}
    for strat in archives:
        key = "all" if same else strat
        if key not in exact_cache:
            clist = [[float(x) for x in r] for r in cents[strat]]
            (ic, iq), emin = scale_all(clist, qvals)
            exact_cache[key] = (ic, iq, emin, [[idist2(qr, cr) for cr in ic] for qr in iq])
        ic, iq, emin, D = exact_cache[key]
        cprec = "f" if cents[strat].dtype == np.float32 else "d"
        prec = "d" if strat == "kd" else ("f" if (cprec == "f" and spec["mdtype"] == "f") else "d")
        for k in range(len(queries)):
            f = nearest_check("%s search, measures %r" % (strat, qvals[k]), results[strat][k], D[k], len(ic), emin, nd, prec)
            if f:
                f.update(k=k, strategy=strat)
                fails.append(f)
    if same:
        for k in range(len(queries)):
            if results["brute"][k] != results["chunk"][k]:
                fails.append(fail("cvt-chunk-differs", "chunked search (chunk_size=%r) returns %d, unchunked brute force %d for measures %r"
                                  % (spec["chunk"], results["chunk"][k], results["brute"][k], qvals[k]), k=k, strategy="chunk",
                                  impl=results["chunk"][k], model=results["brute"][k]))
    # statistics + extracted model where it decides
    ic, iq, emin, D = exact_cache["all" if same else "kd"]
    unit = Fraction(2) ** (2 * emin)
    decided = []
    for k in range(len(queries)):
        dmin = min(D[k])
        mins = [j for j, x in enumerate(D[k]) if x == dmin]
        rest = [x for x in D[k] if x != dmin]
        gap_ok = (not rest) or min(rest) * 2 ** 16 > dmin * (2 ** 16 + 1)
        if len(mins) > 1:
            info["ties"] += 1
        if not gap_ok:
            info["near_ties"] += 1
        if dmin * unit >= 2 ** 1022:
            info["overflow"] += 1
        info["distinct"].add(results["kd"][k])
        dup = all(ic[j] == ic[mins[0]] for j in mins)
        if gap_ok and dmin * unit < 2 ** 120 and (dmin == 0 or dmin * unit > Fraction(1, 2 ** 120)):
            decided.append((k, mins, dup or case.get("exact", False)))
    moderate_q = lambda r: all(x == 0 or 2.0 ** -40 <= abs(x) <= 2.0 ** 40 for x in r)  # noqa
    clist = [[float(x) for x in r] for r in cents["kd"]]
    decided = [t for t in decided if moderate_q(qvals[t[0]])]
    decided = decided[:max(1, 1800 // (len(clist) * nd))]
    if same and decided and all(moderate_q(r) for r in clist):
        (ic2, iq2), _ = scale_all(clist, [qvals[k] for k, _, _ in decided])
        out = driver.call("C03", [1, [[Fraction(x) for x in r] for r in ic2], [spec["chunk"]], [[Fraction(x) for x in r] for r in iq2]])
        info["model_rows"] = len(decided)
        for (k, mins, first), (mi, mj, md), q2 in zip(decided, out, iq2):
            if mi != mj or mi != mins[0] or unq(md) != idist2(q2, ic2[mins[0]]):
                fails.append(fail("model-self-check", "extracted CVT model: argmin %d, chunked %d, python exact %d" % (mi, mj, mins[0]), k=k))
                continue
            for strat in archives:
                r = results[strat][k]
                if r not in mins:
                    fails.append(fail("cvt-not-nearest", "%s search returns %d for measures %r; model argmin_first %d (exact minimisers %r, no near-tie)"
                                      % (strat, r, qvals[k], mi, mins), k=k, strategy=strat, impl=r, model=mi))
                elif strat != "kd" and first and r != mi:
                    fails.append(fail("cvt-brute-not-first", "%s search returns %d for measures %r but np.argmin semantics (first of the exactly tied "
                                      "minimisers %r) gives %d" % (strat, r, qvals[k], mins, mi), k=k, strategy=strat, impl=r, model=mi))
    return fails, info


def reduce_cvt(case):
    spec, qs = case["spec"], case["queries"]
    if len(qs) > 1:
        for k in range(len(qs)):
            yield {**case, "queries": [qs[k]]}
        return
    if spec["method"] != "custom":
        try:
            a = u.make_cvt(spec, "brute")
            yield {**case, "spec": {**spec, "method": "custom", "centroids": [[float(x) for x in r] for r in a.centroids]}}
        except Exception:  # noqa
            pass
        return
    cs = spec["centroids"]
    if len(cs) > 1:
        h = len(cs) // 2
        for sub in (cs[:h], cs[h:]):
            yield {**case, "spec": {**spec, "centroids": sub, "cells": len(sub)}}
        if len(cs) <= 12:
            for j in range(len(cs)):
                sub = cs[:j] + cs[j + 1:]
                yield {**case, "spec": {**spec, "centroids": sub, "cells": len(sub)}}
    for key, val in (("mdtype", "d"), ("dtype", "d")):
        if spec[key] != val:
            yield {**case, "spec": {**spec, key: val}}
    nd = len(spec["ranges"])
    if nd > 1:
        for i in range(nd):
            keep = [j for j in range(nd) if j != i]
            yield {**case, "spec": {**spec, "ranges": [spec["ranges"][j] for j in keep], "centroids": [[c[j] for j in keep] for c in cs]},
                   "queries": [[q[j] for j in keep] for q in qs]}
    for i in range(nd):
        for nv in simpler_values(qs[0][i]) + ([0.0] if qs[0][i] != 0 else []):
            q2 = list(qs[0])
            q2[i] = nv
            yield {**case, "queries": [q2]}


# =============================================================================================
# SlidingBoundariesArchive
def sliding_build(case):
    spec = case["spec"]
    a = u.make_sliding(spec)
    nd = len(spec["dims"])
    for k, (obj, m) in enumerate(case["adds"]):
        with np.errstate(all="ignore"):
            a.add_single(np.array([float(k)], dtype=DT[spec["dtype"]]), float(obj), np.array(m, dtype=DT[spec["dtype"]]).reshape(nd))
    return a


def run_sliding(case, driver):
    spec, queries = case["spec"], case["queries"]
    nd = len(spec["dims"])
    a = sliding_build(case)
    dims = [int(x) for x in a.dims]
    eps = float(a.epsilon)
    lo = [float(x) for x in a.lower_bounds]
    hi = [float(x) for x in a.upper_bounds]
    bnd = [[float(x) for x in b] for b in a.boundaries]
    info = {"dup_boundaries": sum(len(b) - len(set(b)) for b in bnd), "remaps": len(case["adds"]) // spec["remap"], "cells": set()}
    fails = []
    for i in range(nd):
        if len(bnd[i]) != dims[i] + 1 or any(math.isnan(x) for x in bnd[i]) or any(bnd[i][j] > bnd[i][j + 1] for j in range(dims[i])):
            fails.append(fail("sliding-boundaries", "boundaries[%d] = %r is not a sorted list of dims+1 finite values" % (i, bnd[i]), dim=i))
    if fails:
        return fails, info
    prec = u.arith(spec["dtype"], spec["mdtype"])
    M = u.marr(queries, spec["mdtype"], nd)
    qvals = [[float(x) for x in r] for r in np.asarray(M, dtype=np.float64).reshape(len(queries), nd)]
    try:
        with np.errstate(all="ignore"):
            idx = [int(x) for x in a.index_of(M)]
            cells = [[int(x) for x in r] for r in a.int_to_grid_index(np.array(idx))]
    except Exception as e:  # noqa
        return [fail("sliding-raises", "index_of raised %r on finite measures" % (e,))], info
    hi_e = [u.rnd(Q(h) - Q(eps), spec["dtype"]) for h in hi]
    xs = [[u.rnd(Q(v) + Q(eps), prec) for v in r] for r in qvals]
    finite = [k for k in range(len(queries)) if all(math.isfinite(x) for x in xs[k])]
    out = driver.call("C03", [2, [[d, [Q(x) for x in b], Q(l), Q(h)] for d, b, l, h in zip(dims, bnd, lo, hi_e)], [[Q(x) for x in xs[k]] for k in finite]])
    total = int(np.prod(dims))
    for k, (m_idx, m_cells) in zip(finite, out):
        info["cells"].add(idx[k])
        if not 0 <= idx[k] < total:
            fails.append(fail("sliding-index-out-of-range", "index %d outside [0, %d)" % (idx[k], total), k=k))
        elif idx[k] != m_idx or cells[k] != m_cells:
            fails.append(fail("sliding-index-mismatch", "index_of(%r) = %d (grid %r), model %d (grid %r)" % (qvals[k], idx[k], cells[k], m_idx, m_cells),
                              k=k, impl=[idx[k], cells[k]], model=[m_idx, m_cells]))
        try:
            with np.errstate(all="ignore"):
                s = int(a.index_of_single(M[k]))
        except Exception as e:  # noqa
            s = "raised %r" % (e,)
        if s != idx[k]:
            fails.append(fail("single-vs-batch", "index_of_single(%r) = %r but index_of(batch)[%d] = %d" % (qvals[k], s, k, idx[k]), k=k, impl=[s, idx[k]]))
    return fails, info


def sliding_oracle(case, k):
    """the specification (C03_sb_idx_spec) evaluated on the implementation's answer, without the extracted model"""
    spec = case["spec"]
    nd = len(spec["dims"])
    a = sliding_build(case)
    prec = u.arith(spec["dtype"], spec["mdtype"])
    M = u.marr([case["queries"][k]], spec["mdtype"], nd)
    q = [float(x) for x in np.asarray(M, dtype=np.float64).reshape(nd)]
    with np.errstate(all="ignore"):
        idx = a.index_of(M)
        cells = [int(x) for x in a.int_to_grid_index(idx)[0]]
    eps = float(a.epsilon)
    for i in range(nd):
        d = int(a.dims[i])
        b = [Q(x) for x in a.boundaries[i]]
        lo, hi_e = Q(a.lower_bounds[i]), Q(u.rnd(Q(a.upper_bounds[i]) - Q(eps), spec["dtype"]))
        x = Q(u.rnd(Q(q[i]) + Q(eps), prec))
        xc = min(max(x, lo), hi_e)
        c = cells[i]
        if not 0 <= c < d:
            return "dimension %d: cell %d outside [0, %d)" % (i, c, d)
        if not (c == 0 or b[c] < xc):
            return "dimension %d: cell %d although its lower boundary %r is not below the clipped coordinate %r" % (i, c, float(b[c]), float(xc))
        if not (c == d - 1 or xc <= b[c + 1]):
            return "dimension %d: cell %d although the clipped coordinate %r is above its upper boundary %r" % (i, c, float(xc), float(b[c + 1]))
    return None


def reduce_sliding(case):
    qs, adds, spec = case["queries"], case["adds"], case["spec"]
    if len(qs) > 1:
        for k in range(len(qs)):
            yield {**case, "queries": [qs[k]]}
        return
    n = len(adds)
    if n:
        yield {**case, "adds": []}
        for cut in (n // 2, n - spec["remap"], n - 1):
            if 0 < cut < n:
                yield {**case, "adds": adds[:cut]}
    for key, val in (("mdtype", "d"), ("dtype", "d")):
        if spec[key] != val:
            yield {**case, "spec": {**spec, key: val}}


# =============================================================================================
# ProximityArchive
def run_prox(case, driver):
    spec, queries = case["spec"], case["queries"]
    nd = spec["mdim"]
    a = u.make_prox(spec)
    info = {"stored": 0, "ties": 0, "overflow": 0}
    M = u.marr(queries, spec["mdtype"], nd)
    fails = []
    if not case["adds"]:
        try:
            a.index_of(M)
            fails.append(fail("prox-empty", "index_of on an empty ProximityArchive did not raise"))
        except RuntimeError:
            pass
        except Exception as e:  # noqa
            fails.append(fail("prox-empty", "index_of on an empty ProximityArchive raised %r, not RuntimeError" % (e,)))
        return fails, info
    sid = 0
    for batch in case["adds"]:
        n = len(batch)
        with np.errstate(all="ignore"):
            # with local competition later candidates carry higher objectives, so non-novel ones REPLACE (and move) their nearest entry
            objs = np.arange(sid, sid + n, dtype=np.float64) if spec.get("lc") else np.zeros(n)
            a.add(np.arange(sid, sid + n, dtype=DT[spec["dtype"]]).reshape(n, 1), objs, np.array(batch, dtype=DT[spec["dtype"]]).reshape(n, nd))
        sid += n
    data = a.data(["measures", "index"])
    stored = {int(i): [float(x) for x in m] for i, m in zip(data["index"], data["measures"])}
    info["stored"] = len(stored)
    if not stored:
        return fails, info
    order = sorted(stored)
    qvals = [[float(x) for x in r] for r in np.asarray(M, dtype=np.float64).reshape(len(queries), nd)]
    try:
        with np.errstate(all="ignore"):
            res = [int(x) for x in a.index_of(M)]
    except Exception as e:  # noqa
        return [fail("prox-raises", "index_of raised %r on finite measures" % (e,))], info
    (ic, iq), emin = scale_all([stored[i] for i in order], qvals)
    unit = Fraction(2) ** (2 * emin)
    for k in range(len(queries)):
        D = [idist2(iq[k], c) for c in ic]
        dmin = min(D)
        if D.count(dmin) > 1:
            info["ties"] += 1
        if dmin * unit >= 2 ** 1022:
            info["overflow"] += 1
        pos = order.index(res[k]) if res[k] in stored else len(order)
        f = nearest_check("ProximityArchive, measures %r" % (qvals[k],), pos, D, len(order), emin, nd, "d", total_name="stored entries")
        if f:
            if res[k] not in stored:
                f["what"] = "ProximityArchive.index_of(%r) = %d is not the index of a stored entry (occupied: %d entries)%s" % (
                    qvals[k], res[k], len(order), " (squared distance overflows float64)" if f["kind"] == "cvt-distance-overflow" else "")
            f.update(k=k, impl=res[k], model=order[D.index(dmin)], archive="ProximityArchive")
            if f["kind"] != "cvt-distance-overflow":
                f["kind"] = "prox-" + f["kind"][4:]
            fails.append(f)
        try:
            with np.errstate(all="ignore"):
                s = int(a.index_of_single(M[k]))
        except Exception as e:  # noqa
            s = "raised %r" % (e,)
        if s != res[k]:
            fails.append(fail("single-vs-batch", "index_of_single(%r) = %r but index_of(batch)[%d] = %d" % (qvals[k], s, k, res[k]), k=k, impl=[s, res[k]]))
    return fails, info


def reduce_prox(case):
    qs, adds = case["queries"], case["adds"]
    if len(qs) > 1:
        for k in range(len(qs)):
            yield {**case, "queries": [qs[k]]}
        return
    flat = [m for b in adds for m in b]
    if len(adds) > 1:
        yield {**case, "adds": [flat]}
    if len(flat) > 1:
        h = len(flat) // 2
        yield {**case, "adds": [flat[:h]]}
        yield {**case, "adds": [flat[h:]]}
        if len(flat) <= 10:
            for j in range(len(flat)):
                yield {**case, "adds": [flat[:j] + flat[j + 1:]]}
    for key, val in (("mdtype", "d"), ("dtype", "d")):
        if case["spec"][key] != val:
            yield {**case, "spec": {**case["spec"], key: val}}
    for i in range(len(qs[0])):
        for nv in simpler_values(qs[0][i]):
            q2 = list(qs[0])
            q2[i] = nv
            yield {**case, "queries": [q2]}


# =============================================================================================
RUN = {"grid": run_grid, "gridmono": run_gridmono, "gridbnd": run_gridbnd, "gridfloat": run_gridfloat, "biject": run_biject,
       "cvt": run_cvt, "sliding": run_sliding, "prox": run_prox}
REDUCE = {"grid": reduce_grid, "gridmono": reduce_gridmono, "gridbnd": reduce_gridbnd, "gridfloat": reduce_gridfloat, "biject": reduce_biject,
          "cvt": reduce_cvt, "sliding": reduce_sliding, "prox": reduce_prox}
BROKEN = {"grid": "Model/Grid.v vs ribs/archives/_grid_archive.py:GridArchive.index_of", "gridmono": "C03_grid_monotone / edge clauses on GridArchive.index_of",
          "gridbnd": "boundary-above clause on GridArchive.boundaries", "gridfloat": "Model/GridFloat.v (bit-exact) vs GridArchive.index_of",
          "biject": "Base/MixedRadix.v vs GridArchive.grid_to_int_index / int_to_grid_index",
          "cvt": "Model/CVT.v + exact minimiser check vs ribs/archives/_cvt_archive.py:CVTArchive.index_of",
          "sliding": "Model/SlidingIndex.v vs ribs/archives/_sliding_boundaries_archive.py:SlidingBoundariesArchive.index_of",
          "prox": "exact minimiser check vs ribs/archives/_proximity_archive.py:ProximityArchive.index_of"}
# failures of these kinds are found by the property's own statement evaluated on the implementation's output (not by a model diff)
DIRECT = {"grid-int32-overflow", "grid-edge", "grid-nonmonotone", "grid-dims-coupled", "grid-boundary-below", "grid-index-out-of-range",
          "biject-range", "biject-roundtrip", "biject-not-injective", "cvt-distance-overflow", "cvt-index-out-of-range", "cvt-not-nearest",
          "cvt-chunk-differs", "single-vs-batch", "sliding-index-out-of-range", "prox-index-out-of-range", "prox-not-nearest", "prox-empty",
          "impl-raises", "grid-raises", "cvt-raises", "sliding-raises", "prox-raises", "cvt-batch-length", "sliding-boundaries", "grid-boundaries"}


def run_case(case, driver):
    return RUN[case["stream"]](case, driver)


def oracle_for(case, f, driver):
    """-> (found: bool, text) : does the property's own statement fail on the implementation for the (shrunk) case?"""
    if f["kind"] in DIRECT:
        return True, f["what"]
    st = case["stream"]
    try:
        if st in ("grid", "gridfloat"):
            spec = case["spec"]
            a = u.make_grid(spec)
            params = u.grid_params(a)
            nd = len(params[0])
            for row in case["measures"]:
                M = u.marr([row], spec["mdtype"], nd)
                vals = [float(x) for x in np.asarray(M, dtype=np.float64).reshape(nd)]
                with np.errstate(all="ignore"):
                    cells = grid_cells_of(a, a.index_of(M))[0]
                o = grid_oracle(spec, params, vals, cells)
                if o:
                    return True, o
        if st == "sliding":
            for k in range(len(case["queries"])):
                o = sliding_oracle(case, k)
                if o:
                    return True, o
    except Exception as e:  # noqa
        return False, "oracle raised %r" % (e,)
    return False, None


class Ctx:
    def __init__(self, rep, driver):
        self.rep, self.driver = rep, driver
        self.reported = {}

    def handle(self, case, fails):
        """shrink + oracle + report, once per (stream, kind); later ones are only counted"""
        rep = self.rep
        seen = set()
        for f in fails:
            key = (case["stream"], f["kind"])
            rep.count("fail_%s_%s" % key)
            if key in seen:
                continue
            seen.add(key)
            if self.reported.get(key, 0) >= 1:
                continue
            self.reported[key] = self.reported.get(key, 0) + 1
            kind = f["kind"]

            def still(c):
                fs, _ = run_case(c, self.driver)
                return any(x["kind"] == kind for x in fs)
            small = u.greedy_shrink(case, REDUCE[case["stream"]], still, budget=120 if case["stream"] != "gridfloat" else 25)
            try:
                fs, _ = run_case(small, self.driver)
                f2 = next((x for x in fs if x["kind"] == kind), f)
            except Exception:  # noqa
                small, f2 = case, f
            found, text = oracle_for(small, f2, self.driver)
            replay = {"kind": "correspondence", "stream": case["stream"], "broken": BROKEN[case["stream"]], "case": small, "failure": f2,
                      "impl": f2.get("impl"), "model": f2.get("model"), "oracle": text, "theorems_at_stake": THEOREMS[case["stream"]]}
            tags = {"kind": kind, "stream": case["stream"]}
            if "archive" in f2:
                tags["archive"] = f2["archive"]
            if "strategy" in f2:
                tags["strategy"] = f2["strategy"]
            rep.violation("%s: %s" % (case["stream"], f2["what"]), replay, found, tags)


# =============================================================================================
# generators
def prod(l):
    p = 1
    for x in l:
        p *= x
    return p


def gen_range(rng, dtype):
    for _ in range(20):
        kind = rng.choice(["unit", "unit", "sym", "asym", "asym", "neg", "tiny", "huge", "offset", "rand"])
        if kind == "unit":
            lo, hi = 0.0, 1.0
        elif kind == "sym":
            s = rng.choice([1.0, 2.0, 5.0, 100.0])
            lo, hi = -s, s
        elif kind == "asym":
            lo, hi = rng.choice([(-3.7, 12.25), (-0.1, 7.3), (-1000.0, 0.5), (0.25, 0.75), (-1.0, 3.0)])
        elif kind == "neg":
            lo, hi = rng.choice([(-10.5, -2.25), (-3.0, -1.0), (-1e6, -1.0)])
        elif kind == "tiny":
            lo = rng.choice([0.0, 1.0, -2.5, rng.uniform(-2, 2)])
            hi = lo + 10.0 ** -rng.randint(3, 9 if dtype == "d" else 4)
        elif kind == "huge":
            lo, hi = -10.0 ** rng.randint(6, 30), 10.0 ** rng.randint(6, 30)
        elif kind == "offset":
            lo = 10.0 ** rng.randint(3, 8 if dtype == "d" else 4)
            hi = lo + rng.choice([1.0, 0.5, 1000.0])
        else:
            lo = rng.uniform(-50, 50)
            hi = lo + rng.uniform(0.01, 100)
        lo, hi = u.cast(lo, dtype), u.cast(hi, dtype)
        if lo < hi and math.isfinite(hi - lo):
            return [lo, hi]
    return [0.0, 1.0]


def gen_grid_spec(rng, max_cells):
    nd = rng.choice([1, 1, 1, 2, 2, 3, 3, 4, 5])
    dtype = rng.choice(["d", "d", "f"])
    dims = [rng.choice([1, 1, 2, 3, 4, 5, 7, 10, 10, 16, 20, 33, 50, 100] + ([1000, 4096] if nd <= 2 else [])) for _ in range(nd)]
    while prod(dims) > max_cells:
        i = dims.index(max(dims))
        dims[i] = max(1, dims[i] // 2)
    return {"dims": dims, "ranges": [gen_range(rng, dtype) for _ in range(nd)],
            "eps": rng.choice([1e-6] * 5 + [0.0, 1e-12, 1e-9, 1e-3, 1e-2]), "dtype": dtype, "mdtype": rng.choice(["d", "d", "list", "f"])}


def fin(v, vdt):
    v = u.cast(v, vdt)
    return v if math.isfinite(v) else math.copysign(FMAX[vdt], v)


def gen_coord(rng, d, lo, hi, vdt, allow_far=True):
    w = hi - lo
    r = rng.random()
    if r < 0.36:
        v = rng.uniform(lo, hi)
    elif r < 0.46:
        v = lo + (rng.randrange(d) + 0.5) * w / d
    elif r < 0.56:
        v = u.step(lo + rng.randrange(d + 1) * w / d, rng.randint(-4, 4), vdt)
    elif r < 0.63:
        v = rng.choice([lo, hi, u.step(lo, -1, vdt), u.step(hi, 1, vdt), u.step(hi, -1, vdt)])
    elif r < 0.76:
        v = rng.choice([lo - w * rng.uniform(0, 3), hi + w * rng.uniform(0, 3)])
    elif r < 0.92 and allow_far:
        mag = rng.choice([1e9, 2.2e9, 1e10, 1e12, 1e18, 1e30, 1e38, 1e100, 1e300, FMAX["d"]])
        v = rng.choice([1, -1]) * mag
        if mag < 1e13 and rng.random() < 0.5:
            v = hi + v if v > 0 else lo + v
    elif r < 0.92:
        v = rng.uniform(lo - w, hi + w)
    else:
        v = rng.choice([0.0, -0.0, 5e-324, -5e-324, 1e-310, 2.2250738585072014e-308, 1e-45, -1e-45])
    return fin(v, vdt)


def gen_grid_case(rng, spec, n):
    vdt = "f" if spec["mdtype"] == "f" else "d"
    rows = []
    huge = 0
    for _ in range(n):
        row = []
        for d, (lo, hi) in zip(spec["dims"], spec["ranges"]):
            v = gen_coord(rng, d, lo, hi, vdt, allow_far=huge < 8)
            if abs(v) > 1e40:
                huge += 1
            row.append(v)
        rows.append(row)
    return {"stream": "grid", "spec": spec, "measures": rows}


def interior(rng, spec):
    vdt = "f" if spec["mdtype"] == "f" else "d"
    return [fin(lo + (rng.randrange(d) + rng.uniform(0.3, 0.7)) * (hi - lo) / d, vdt) for d, (lo, hi) in zip(spec["dims"], spec["ranges"])]


CENTROID_KINDS = ["custom_random", "custom_random", "custom_lattice", "custom_dup", "custom_cluster", "custom_collinear", "custom_huge",
                  "random", "kmeans", "sobol", "scrambled_sobol", "halton"]


def gen_cvt_case(rng, tier):
    nd = rng.choice([1, 2, 2, 3, 4, 5])
    dtype = rng.choice(["d", "d", "f"])
    kind = rng.choice(CENTROID_KINDS)
    cells = rng.choice([1, 2, 3, 5, 8, 16, 31, 64] + ([100, 200] if tier != "quick" else [100]))
    ranges = [rng.choice([[0.0, 1.0], [-1.0, 1.0], [-3.5, 12.25], [-10.0, -2.0], [0.0, 1000.0]]) for _ in range(nd)]
    exact = False
    spec = {"cells": cells, "ranges": ranges, "dtype": dtype, "seed": rng.randrange(1 << 20), "method": "custom", "kind": kind}
    if kind == "custom_huge":
        s = 1e160 if dtype == "d" else 1e30
        ranges = spec["ranges"] = [[-s, s] for _ in range(nd)]
    if kind in ("custom_random", "custom_huge"):
        cs = [[rng.uniform(lo, hi) for lo, hi in ranges] for _ in range(cells)]
    elif kind == "custom_lattice":
        exact = True
        cs = [[rng.randrange(-8, 9) / 4.0 for _ in range(nd)] for _ in range(cells)]
    elif kind == "custom_dup":
        base = [[rng.uniform(lo, hi) for lo, hi in ranges] for _ in range(max(1, cells // 2))]
        cs = [list(rng.choice(base)) for _ in range(cells)]
        cs[-1] = list(cs[0])
    elif kind == "custom_cluster":
        centres = [[rng.uniform(lo, hi) for lo, hi in ranges] for _ in range(rng.randint(1, 3))]
        cs = [[x + rng.randint(-50, 50) * rng.choice([1e-9, 1e-6, 1e-12]) for x in rng.choice(centres)] for _ in range(cells)]
    elif kind == "custom_collinear":
        p = [rng.uniform(lo, hi) for lo, hi in ranges]
        v = [rng.uniform(-1, 1) for _ in range(nd)]
        cs = [[a + (t / 8.0) * b for a, b in zip(p, v)] for t in [rng.randrange(-16, 17) for _ in range(cells)]]
    else:
        spec["method"] = kind
        cs = None
        if kind == "kmeans":
            spec["cells"] = cells = min(cells, 31)
            spec["samples"] = 300
    if cs is not None:
        spec["centroids"] = [[u.cast(x, dtype) for x in r] for r in cs]
    spec["mdtype"] = rng.choice(["d", "d", "list", "f"])
    nq = rng.randint(6, 26)
    spec["chunk"] = rng.choice([1, 2, 3, 5, 7, max(1, nq - 1), nq, nq + 1, 64])
    vdt = "f" if spec["mdtype"] == "f" else "d"
    if cs is None:
        try:
            cs = [[float(x) for x in r] for r in u.make_cvt(spec, "brute").centroids]
        except Exception:  # noqa
            cs = [[0.0] * nd]
    else:
        cs = spec["centroids"]
    qs = []
    for _ in range(nq):
        r = rng.random()
        if exact and r < 0.7:
            q = [rng.randrange(-20, 21) / 8.0 for _ in range(nd)]
        elif r < 0.33:
            q = [rng.uniform(lo, hi) for lo, hi in ranges]
        elif r < 0.42:
            q = [rng.uniform(lo - (hi - lo), hi + (hi - lo)) for lo, hi in ranges]
        elif r < 0.52:
            q = list(rng.choice(cs))
        elif r < 0.66:
            a, b = rng.choice(cs), rng.choice(cs)
            q = [(x + y) / 2 for x, y in zip(a, b)]
        elif r < 0.76:
            a, b = rng.choice(cs), rng.choice(cs)
            q = [(x + y) / 2 for x, y in zip(a, b)]
            i = rng.randrange(nd)
            q[i] = u.step(q[i], rng.choice([-2, -1, 1, 2]), vdt)
        elif r < 0.86:
            q = [rng.choice([1, -1]) * rng.choice([1e9, 1e50, 1e150, 1e18, 3e38]) if rng.random() < 0.6 else rng.uniform(lo, hi) for lo, hi in ranges]
        elif r < 0.94:
            q = [rng.choice([1, -1]) * rng.choice([1e154, 2e154, 1e200, 1e300, FMAX["d"]]) if rng.random() < 0.6 else rng.uniform(lo, hi) for lo, hi in ranges]
        else:
            q = [rng.choice([0.0, 5e-324, -5e-324, 1e-310, 1e-45]) for _ in range(nd)]
        qs.append([fin(x, vdt) for x in q])
    case = {"stream": "cvt", "spec": spec, "queries": qs}
    if exact:
        case["exact"] = True
    return case


def gen_sliding_case(rng, tier):
    nd = rng.choice([1, 1, 2, 2, 3])
    dtype = rng.choice(["d", "d", "f"])
    dims = [rng.choice([1, 2, 3, 5, 10, 20]) for _ in range(nd)]
    ranges = [rng.choice([[0.0, 1.0], [-1.0, 1.0], [-3.5, 12.25], [-10.0, -2.0], [0.0, 1000.0]]) for _ in range(nd)]
    remap = rng.choice([3, 5, 10, 25])
    spec = {"dims": dims, "ranges": ranges, "eps": rng.choice([1e-6, 1e-6, 0.0, 1e-3, 1e-9]), "dtype": dtype, "remap": remap,
            "buffer": rng.choice([remap, 2 * remap, 1000, 4]), "mdtype": rng.choice(["d", "d", "list", "f"])}
    n = rng.choice([0, remap - 1, remap, remap + 1, 2 * remap, 3 * remap + 1, rng.randint(0, 4 * remap)])
    pools = [[rng.uniform(lo, hi) for _ in range(rng.randint(1, 4))] for lo, hi in ranges]
    top = rng.random() < 0.35   # measures crowding within epsilon below the largest one: boundaries inside [upper - eps, upper]
    tops = [rng.uniform(lo, hi) for lo, hi in ranges]
    if top:
        n = remap * rng.randint(1, 3) + rng.choice([0, 0, 1])
        if spec["eps"] == 0.0:
            spec["eps"] = 1e-6
    adds = []
    for _ in range(n):
        m = []
        for (lo, hi), pool, t in zip(ranges, pools, tops):
            r = rng.random()
            if top and r < 0.85:
                v = t - rng.randint(0, 5) * spec["eps"] / 4
            elif r < 0.45:
                v = rng.uniform(lo, hi)
            elif r < 0.8:
                v = rng.choice(pool)
            elif r < 0.9:
                v = rng.choice([lo, hi])
            else:
                v = rng.uniform(lo - (hi - lo), hi + (hi - lo))
            m.append(u.cast(v, dtype))
        adds.append([rng.choice([0.0, 1.0, rng.uniform(-5, 5)]), m])
    case = {"stream": "sliding", "spec": spec, "adds": adds, "queries": []}
    a = sliding_build(case)
    bnd = [[float(x) for x in b] for b in a.boundaries]
    eps = float(a.epsilon)
    vdt = "f" if spec["mdtype"] == "f" else "d"
    for _ in range(rng.randint(10, 30)):
        q = []
        for i in range(nd):
            lo, hi = bnd[i][0], bnd[i][-1]
            r = rng.random()
            if r < 0.3:
                v = rng.uniform(lo, hi) if lo < hi else lo
            elif r < 0.5:
                v = u.step(rng.choice(bnd[i]), rng.randint(-3, 3), vdt)
            elif r < 0.7:
                v = u.step(rng.choice(bnd[i]) - eps, rng.randint(-3, 3), vdt)
            elif r < 0.8:
                v = rng.choice([lo, hi, hi - eps, hi - 2 * eps, lo - eps])
            elif r < 0.92:
                v = rng.choice([1, -1]) * rng.choice([1e9, 1e30, 1e300, FMAX["d"], 5e-324])
            else:
                v = rng.uniform(lo - 2 * (hi - lo) - 1, hi + 2 * (hi - lo) + 1)
            q.append(fin(v, vdt))
        case["queries"].append(q)
    return case


def gen_prox_case(rng, tier):
    nd = rng.choice([1, 2, 2, 3, 4])
    dtype = rng.choice(["d", "d", "f"])
    spec = {"mdim": nd, "dtype": dtype, "k": rng.choice([1, 3, 5]), "thr": rng.choice([0.0, 0.0, 0.05, 0.3]), "cap": rng.choice([1, 4, 128]),
            "mdtype": rng.choice(["d", "d", "list", "f"])}
    centres = [[rng.uniform(-2, 2) for _ in range(nd)] for _ in range(3)]
    adds = []
    dense = rng.random() < 0.3    # many spread-out entries (several k-D tree leaves) and mostly in-region queries
    if dense:
        spec["thr"] = 0.0
        for _ in range(2):
            adds.append([[u.cast(rng.uniform(-3, 3), dtype) for _ in range(nd)] for _ in range(rng.randint(40, 110))])
    for _ in range(0 if dense else rng.choice([0, 1, 1, 2, 3])):
        batch = []
        for _ in range(rng.randint(1, 45 if tier == "quick" else 120)):
            r = rng.random()
            if r < 0.4:
                m = [rng.uniform(-3, 3) for _ in range(nd)]
            elif r < 0.6:
                m = [rng.randrange(-8, 9) / 4.0 for _ in range(nd)]
            elif r < 0.85:
                m = [x + rng.randint(-20, 20) * 1e-9 for x in rng.choice(centres)]
            else:
                m = list(rng.choice(batch)) if batch else [0.0] * nd
            batch.append([u.cast(x, dtype) for x in m])
        adds.append(batch)
    if adds and not dense and rng.random() < 0.45:
        # local competition: a last call that only REPLACES (nothing novel in it) moves stored entries without growing the archive;
        # index_of must answer for the moved positions
        spec["lc"] = True
        spec["thr"] = rng.choice([0.4, 0.75, 1.5])
        base = [m for b in adds for m in b]
        moved = []
        for m in rng.sample(base, min(len(base), rng.randint(1, 6))):
            moved.append([u.cast(x + rng.uniform(-0.3, 0.3) * spec["thr"] / max(1, nd) ** 0.5, dtype) for x in m])
        adds.append(moved)
    flat = [m for b in adds for m in b] or [[0.0] * nd]
    vdt = "f" if spec["mdtype"] == "f" else "d"
    qs = []
    for _ in range(rng.randint(20, 30) if dense else rng.randint(5, 20)):
        r = rng.random()
        if r < (0.8 if dense else 0.35):
            q = [rng.uniform(-3.5, 3.5) for _ in range(nd)]
        elif r < (0.82 if dense else 0.5):
            q = list(rng.choice(flat))
        elif r < 0.7:
            a, b = rng.choice(flat), rng.choice(flat)
            q = [(x + y) / 2 for x, y in zip(a, b)]
        elif r < 0.8:
            q = [rng.randrange(-20, 21) / 8.0 for _ in range(nd)]
        elif r < 0.9:
            q = [rng.choice([1, -1]) * rng.choice([1e9, 1e50, 1e150, 3e38]) for _ in range(nd)]
        else:
            q = [rng.choice([1, -1]) * rng.choice([1e154, 1e200, 1e300, FMAX["d"]]) if rng.random() < 0.7 else 0.5 for _ in range(nd)]
        qs.append([fin(x, vdt) for x in q])
    return {"stream": "prox", "spec": spec, "adds": adds, "queries": qs}


# =============================================================================================
def load_corpus():
    import json
    import os
    from common import CORPUS
    out = []
    d = os.path.join(CORPUS, "C03")
    if os.path.isdir(d):
        for f in sorted(os.listdir(d)):
            if f.endswith(".json"):
                c = json.load(open(os.path.join(d, f)))
                out.append(c.get("case", c))
    return out


def check(rep, tier, seed, driver):
    py2v_grid.report(rep)
    rng = random.Random(seed)
    quick = tier == "quick"
    ctx = Ctx(rep, driver)
    rep.rule = ("eight streams, every random choice from Random(seed). GRID: random GridArchives (1-5 dims, 1..4096 cells per dim, unit/symmetric/"
                "asymmetric/negative/tiny/huge/offset ranges, epsilon in {1e-6,0,1e-12,1e-9,1e-3,1e-2}, float32/float64, measures as float64/"
                "float32/list) x batches of interior points, cell centres, boundaries +-0..4 ulp, range ends, moderately and far out-of-range "
                "values (1e9..1e300, +-max float), zeros and denormals: exact model on every coordinate farther from a cell edge than the rounding "
                "margin, either-adjacent-cell inside it, per-dimension sorted sweeps (monotone, edge cells, other dimensions unaffected), every "
                "reported boundary -> cell above (moderate configurations), bit-exact PrimFloat model evaluated in Coq on near-boundary inputs, "
                "int<->grid index conversion over all cells (sampled above 20000). CVT: custom random/lattice/duplicated/clustered/collinear/huge "
                "and random/kmeans/sobol/scrambled_sobol/halton centroid sets x kd-tree/brute/chunked x queries incl. exact centroids, midpoints "
                "(+-ulp), far and overflowing points: exact integer squared distances. SLIDING: archives after 0..4 remaps with clustered/"
                "duplicated measures. PROXIMITY: archives filled in 1-3 batches. A case = (archive configuration, one batch); non-trivial = the "
                "batch hits >= 2 distinct cells AND contains a near-boundary / tie / far-out-of-range input (stream-specific, see histogram); "
                "distinct by hash of the whole case.")
    if driver is None:
        raise RuntimeError("model driver not built; run ./setup.sh")

    def do(case):
        try:
            fails, info = run_case(case, driver)
        except Exception as e:  # noqa
            import traceback
            tr = traceback.format_exc()
            in_impl = "/ribs/" in tr
            fails, info = [fail("impl-raises" if in_impl else "harness-exception",
                                "%s while running a valid case: %r" % ("the implementation raised" if in_impl else "harness exception", e), trace=tr[-1500:])], {}
        if fails:
            ctx.handle(case, fails)
        return fails, info

    # ---- corpus first
    for case in load_corpus():
        rep.count("corpus_cases")
        fails, _ = do(case)
        rep.case(case, True)

    # ---- grid
    n_grid = 160 if quick else 1500
    max_cells = 20000 if quick else 400000
    float_cases = []   # (case, cells, first index into float_inputs)
    float_inputs = []
    n_float_target = 3000 if quick else 20000
    for gi in range(n_grid):
        spec = gen_grid_spec(rng, max_cells)
        case = gen_grid_case(rng, spec, rng.randint(8, 40))
        fails, info = do(case)
        nt = len(info.get("cells", ())) >= 2 and info.get("near", 0) > 0 and info.get("far", 0) > 0
        rep.case(case, nt, sample=case if nt and gi % 7 == 0 else None)
        rep.count("grid_cases")
        rep.count("grid_measures", len(case["measures"]))
        rep.count("grid_dims_%d" % len(spec["dims"]))
        rep.count("grid_dtype_%s_measures_%s" % (spec["dtype"], spec["mdtype"]))
        rep.count("grid_measures_inside_rounding_margin", info.get("ambiguous", 0))
        rep.count("grid_coords_raw_beyond_int32", info.get("far", 0))
        rep.count("grid_coords_near_integer_raw", info.get("near", 0))
        # sweeps
        base = interior(rng, spec)
        dims_order = list(range(len(spec["dims"])))
        rng.shuffle(dims_order)
        for i in dims_order[:2 if quick else 5]:
            vals = sweep_values(rng, spec["dims"][i], spec["ranges"][i][0], spec["ranges"][i][1], spec["eps"], spec["dtype"], spec["mdtype"])
            mc = {"stream": "gridmono", "spec": spec, "dim": i, "base": base, "values": vals}
            f2, inf2 = do(mc)
            rep.case(mc, True)
            rep.count("gridmono_sweeps")
            rep.count("gridmono_points", len(vals))
        # boundary clause
        bc = {"stream": "gridbnd", "spec": spec, "base": base}
        if any(d > 60 for d in spec["dims"]):
            bc["js"] = {str(i): sorted(set([0, d - 1] + [rng.randrange(d) for _ in range(40)])) for i, d in enumerate(spec["dims"]) if d > 60}
        f3, inf3 = do(bc)
        if inf3.get("n"):
            rep.case(bc, True)
            rep.count("gridbnd_configs_moderate_%s" % spec["dtype"])
            rep.count("gridbnd_boundaries", inf3["n"])
        # bijection
        total = prod(spec["dims"])
        ints = "all" if total <= 20000 else sorted(set([0, total - 1] + [rng.randrange(total) for _ in range(3000)]))
        bj = {"stream": "biject", "spec": {"dims": spec["dims"], "kind": "grid" if gi % 5 else "sliding"}, "ints": ints}
        if gi % 3 == 0 or total <= 2000:
            f4, inf4 = do(bj)
            rep.case({"stream": "biject", "dims": spec["dims"], "kind": bj["spec"]["kind"]}, len(spec["dims"]) >= 2 and total >= 6)
            rep.count("biject_cells_checked", inf4.get("n", 0))
            rep.count("biject_" + ("whole_grid" if ints == "all" else "sampled"))
        # bit-exact inputs
        if len(float_inputs) < n_float_target and len(spec["dims"]) <= 3:
            a = u.make_grid(spec)
            fc = {"stream": "gridfloat", "spec": spec, "measures": gridfloat_inputs(rng, a, spec, rng.randint(6, 14))}
            try:
                cells, mc_ = gridfloat_collect(fc)
                float_cases.append((fc, cells, len(float_inputs), len(mc_)))
                float_inputs.extend(mc_)
            except Exception as e:  # noqa
                ctx.handle(fc, [fail("grid-raises", "index_of raised %r on finite measures" % (e,))])
            # reported boundaries of moderate float64 configurations: the model itself must put boundary j into cell j
            if spec["dtype"] == "d":
                dims_, lo_, hi_, eps_ = u.grid_params(a)
                rows, expect = [], []
                for i in range(len(dims_)):
                    if moderate(dims_[i], lo_[i], hi_[i], eps_, "d"):
                        b = [float(x) for x in a.boundaries[i]]
                        for j in sorted(set([0, dims_[i] - 1] + [rng.randrange(dims_[i]) for _ in range(4)])):
                            r = list(base)
                            r[i] = b[j]
                            rows.append(r)
                            expect.append([i, j])
                if rows:
                    fb = {"stream": "gridfloat", "spec": {**spec, "mdtype": "d"}, "measures": rows, "expect": expect}
                    try:
                        cells, mc_ = gridfloat_collect(fb)
                        float_cases.append((fb, cells, len(float_inputs), len(mc_)))
                        float_inputs.extend(mc_)
                    except Exception as e:  # noqa
                        ctx.handle(fb, [fail("grid-raises", "index_of raised %r on finite measures" % (e,))])

    rep.count("gridfloat_reported_boundaries_decided_by_model", sum(len(fc.get("expect", ())) for fc, _, _, _ in float_cases))
    # ---- bit-exact evaluation inside Coq
    if u.gridfloat_available():
        res = u.gridfloat_eval(float_inputs, jobs=8)
        rep.count("gridfloat_points_evaluated_in_coq", len(res))
        for fc, cells, start, n in float_cases:
            fails = gridfloat_compare(fc, cells, res[start:start + n])
            rep.case(fc, True)
            rep.count("gridfloat_mode_%s_%s" % (fc["spec"]["dtype"], fc["spec"]["mdtype"]), n)
            if fails:
                ctx.handle(fc, fails)
    else:
        raise RuntimeError("coq/Model/GridFloat.vo missing: the bit-exact stream cannot run (run ./setup.sh)")

    # ---- CVT
    for ci in range(130 if quick else 1200):
        case = gen_cvt_case(rng, tier)
        fails, info = do(case)
        nt = len(info.get("distinct", ())) >= 2 and (info.get("ties", 0) + info.get("near_ties", 0)) > 0
        rep.case(case, nt, sample=case if nt and ci % 9 == 0 and case["spec"]["cells"] <= 5 else None)
        rep.count("cvt_cases")
        rep.count("cvt_kind_" + case["spec"]["kind"])
        rep.count("cvt_queries", len(case["queries"]) * 3)
        rep.count("cvt_exact_ties", info.get("ties", 0))
        rep.count("cvt_near_ties", info.get("near_ties", 0))
        rep.count("cvt_overflow_queries", info.get("overflow", 0))
        rep.count("cvt_rows_through_extracted_model", info.get("model_rows", 0))

    # ---- sliding
    for si in range(60 if quick else 700):
        case = gen_sliding_case(rng, tier)
        fails, info = do(case)
        nt = len(info.get("cells", ())) >= 2 and info.get("remaps", 0) >= 1
        rep.case(case, nt)
        rep.count("sliding_cases")
        rep.count("sliding_remaps", info.get("remaps", 0))
        rep.count("sliding_duplicate_boundaries", info.get("dup_boundaries", 0))
        rep.count("sliding_queries", len(case["queries"]))

    # ---- proximity
    for pi in range(120 if quick else 900):
        case = gen_prox_case(rng, tier)
        fails, info = do(case)
        rep.case(case, info.get("stored", 0) >= 2 and info.get("ties", 0) > 0)
        rep.count("prox_cases")
        rep.count("prox_empty" if not info.get("stored") else "prox_nonempty")
        rep.count("prox_queries", len(case["queries"]))
        rep.count("prox_exact_ties", info.get("ties", 0))
        rep.count("prox_overflow_queries", info.get("overflow", 0))

    reused_buffer_stream(rep, rng, 60 if quick else 600)
    import kd_scan
    kd_scan.report(rep)

    # generator floors
    h = rep.hist
    for key, floor in (("grid_coords_raw_beyond_int32", 50), ("grid_coords_near_integer_raw", 100), ("cvt_exact_ties", 20),
                       ("sliding_remaps", 10), ("gridfloat_points_evaluated_in_coq", 500), ("gridbnd_boundaries", 100),
                       ("cvt_rows_through_extracted_model", 30)):
        if h.get(key, 0) < floor:
            rep.violation("generator degenerate: %s = %d < %d" % (key, h.get(key, 0), floor), {"kind": "generator", "histogram": h}, False,
                          {"kind": "generator-degenerate"})
    rep.notes.append("GridArchive configurations whose interval width overflows float64 (upper - lower = inf) are not generated; "
                     "ProximityArchive answers of the squared-distance-overflow class carry the same tag kind as CVTArchive's (same cKDTree cause)")


def reused_buffer_stream(rep, rng, n):
    """index_of is a function of the VALUES it is given: a caller that refills one preallocated measures array in place between calls must get
    the answers for the new contents (what a fresh copy of the array gets), for every archive type and search strategy."""
    import arch_util as au
    from ribs.archives import ProximityArchive
    for k in range(n):
        if k % 5 == 4:
            nd = rng.choice([1, 2, 3])
            dt = rng.choice([np.float32, np.float64])
            a = ProximityArchive(solution_dim=1, measure_dim=nd, k_neighbors=1, novelty_threshold=0.0, dtype=dt)
            pts = np.array([[rng.randrange(-16, 17) / 8.0 for _ in range(nd)] for _ in range(rng.randint(2, 9))], dtype=dt)
            a.add(np.zeros((len(pts), 1), dtype=dt), np.zeros(len(pts), dtype=dt), pts)
            ranges, kind = [[-2.0, 2.0]] * nd, "proximity"
        else:
            spec = au.gen_spec(rng, kinds=("grid", "cvt", "cvt_brute", "cvt_chunk", "sliding"), max_cells=40)
            spec["extras"] = []
            a = au.make_archive(spec)
            dt, ranges, kind = au.DT[spec["dtype"]], spec["ranges"], spec["kind"]
        rows = rng.choice([1, 3, 7])
        draw = lambda: np.array([[rng.uniform(lo - 0.5, hi + 0.5) for lo, hi in ranges] for _ in range(rows)], dtype=dt)
        buf = draw()
        first = np.array(a.index_of(buf), copy=True)
        if k % 2:
            a.index_of_single(buf[0])
        buf[...] = draw()                       # refill in place: same array object, new contents
        again = np.array(a.index_of(buf), copy=True)
        fresh = np.array(a.index_of(np.array(buf, copy=True)), copy=True)
        single = int(a.index_of_single(buf[0]))
        rep.count("reused_buffer_cases")
        if not np.array_equal(again, fresh) or single != int(fresh[0]):
            rep.violation("%s archive: index_of on a measures array that was refilled in place answers %s, a fresh copy of the same values gets %s "
                          "(index_of_single of row 0: %d; the answer for the previous contents was %s)" % (kind, again.tolist(), fresh.tolist(), single, first.tolist()),
                          {"kind": "property", "broken": "index_of maps measures (values) to the documented cell; index_of_single agrees with index_of",
                           "case": {"archive": kind, "dtype": np.dtype(dt).name, "contents": buf.tolist()}}, True, {"kind": "index-of-depends-on-array-identity"})
            return


def replay(rp, driver):
    case = rp["case"]
    fails, _ = run_case(case, driver)
    want = (rp.get("failure") or {}).get("kind")
    hit = [f for f in fails if want is None or f["kind"] == want]
    if hit:
        print("replay: still fails on this tree: %s" % hit[0]["what"])
        return 1
    if fails:
        print("replay: the recorded failure is gone, another one appears: %s" % fails[0]["what"])
        return 1
    print("replay: no failure on this tree")
    return 0
