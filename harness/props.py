"""Per-property configuration: Coq dependency cone (for obligation counting), harness module."""
BASE = ["Base/ListUtil.v"]
PROPS = {
    "C13": {
        "module": "c13",
        "cone": BASE + ["Model/Store.v", "Proofs/StoreProofs.v", "Properties/C13.v"],
        "trusted": ["Model/Store.v models ArrayStore row-wise (a row = one candidate id encoded redundantly into every field; "
                    "the harness decoder flags torn rows)"],
    },
}
