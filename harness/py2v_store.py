"""Fail-closed structural extractor of ArrayStore.add (current source under $VERIF_REPO): the ORDER of its phases.

Model/Store.v's add is: count the update; run the transforms on views of the pre-call store; return early on an empty index list;
reject (ValueError) wrong lengths, then wrong keys; only then touch occupancy and the field arrays.  Everything that can fail must
come before the first write -- that is what makes a rejected add leave the store as it was (C11, C13) and every cell hold one
candidate's fields (C01).  This extractor reads the statement list of ArrayStore.add and emits it as a list of phases
(coq/Generated/StoreAddGen.v, rewritten on every run); Refine/StoreAddRefine.v proves the list equal to the model's order and that
no phase that can raise follows a phase that writes.  Recognised top-level statements (anything else raises Unsupported = broken tie):
    self._props["updates"][...] += 1                                         -> PCount
    add_info = {}                                                            -> PInit
    for transform in transforms: <retrieve; call>                            -> PTransforms
    indices = np.array(indices, dtype=np.int32)                              -> PIndices
    if len(indices) == 0: return add_info                                    -> PEmptyReturn
    for name, arr in new_data.items(): if len(arr) != len(indices): raise    -> PLenCheck
    if new_data.keys() != self._fields.keys(): raise                         -> PKeyCheck
    new_data = {name: np.broadcast_to(np.asarray(new_data[name], dtype=arr.dtype), ...) for ...}   -> PConvert
    <assignments computing unique/new indices, n_occupied from self._props>  -> POccupancyRead
    self._props[...][...] = ... / self._props[...] = ...                     -> POccupancyWrite
    for name, arr in self._fields.items(): arr[indices] = new_data[name]     -> PWrite
    return add_info                                                          -> PReturn
Inside PWrite / POccupancyWrite no call other than the assignment itself may occur (nothing that converts or validates)."""
import ast
import hashlib
import os

ROOT = os.path.dirname(os.path.dirname(os.path.abspath(__file__)))
REPO = os.environ.get("VERIF_REPO", "/repo")
OUT = os.path.join(ROOT, "coq", "Generated", "StoreAddGen.v")
SRC = "ribs/archives/_array_store.py"


class Unsupported(Exception):
    pass


def _fail(node, why):
    raise Unsupported("%s at line %s: %s" % (why, getattr(node, "lineno", "?"), ast.dump(node)[:160]))


def self_sub(e, attr):
    """self.<attr>[...]([...])"""
    while isinstance(e, ast.Subscript):
        e = e.value
    return isinstance(e, ast.Attribute) and e.attr == attr and isinstance(e.value, ast.Name) and e.value.id == "self"


def has_raise(n):
    return any(isinstance(x, ast.Raise) for x in ast.walk(n))


def reads_name(n, name):
    return any(isinstance(x, ast.Name) and x.id == name for x in ast.walk(n))


def classify(st):
    if isinstance(st, ast.AugAssign) and self_sub(st.target, "_props") and "updates" in ast.dump(st.target):
        return "PCount"
    if isinstance(st, ast.Assign) and len(st.targets) == 1 and isinstance(st.targets[0], ast.Name) and st.targets[0].id == "add_info" and isinstance(st.value, ast.Dict) and not st.value.keys:
        return "PInit"
    if isinstance(st, ast.For) and isinstance(st.iter, ast.Name) and st.iter.id == "transforms":
        if has_raise(st) or any(isinstance(x, (ast.Assign, ast.AugAssign)) and any(self_sub(t, "_props") or self_sub(t, "_fields") for t in (x.targets if isinstance(x, ast.Assign) else [x.target])) for x in ast.walk(st)):
            _fail(st, "the transform loop raises or writes to the store")
        return "PTransforms"
    if isinstance(st, ast.If) and not st.orelse and len(st.body) == 1 and isinstance(st.body[0], ast.Return) and "len" in ast.dump(st.test) and reads_name(st.test, "indices"):
        return "PEmptyReturn"
    if isinstance(st, ast.For) and has_raise(st) and "items" in ast.dump(st.iter) and reads_name(st.iter, "new_data"):
        if not ("len" in ast.dump(st) and reads_name(st, "indices")):
            _fail(st, "the length check does not compare with len(indices)")
        return "PLenCheck"
    if isinstance(st, ast.If) and has_raise(st) and "keys" in ast.dump(st.test) and "_fields" in ast.dump(st.test):
        return "PKeyCheck"
    if (isinstance(st, ast.Assign) and len(st.targets) == 1 and isinstance(st.targets[0], ast.Name) and st.targets[0].id == "new_data"
            and isinstance(st.value, ast.DictComp)):
        want = ast.parse("{name: np.broadcast_to(np.asarray(new_data[name], dtype=arr.dtype), (len(indices),) + arr.shape[1:]) "
                         "for name, arr in self._fields.items()}", mode="eval").body
        if ast.dump(st.value) != ast.dump(want):
            _fail(st, "the conversion step is not exactly {name: np.broadcast_to(np.asarray(new_data[name], dtype=arr.dtype), "
                      "(len(indices),) + arr.shape[1:]) for name, arr in self._fields.items()} (every field converted and shape-checked)")
        return "PConvert"
    if isinstance(st, ast.Assign) and len(st.targets) == 1 and isinstance(st.targets[0], ast.Name) and st.targets[0].id == "indices":
        # the indices are turned into an int32 array once, before anything is checked or written (a tuple would otherwise be read by
        # numpy as ONE multi-dimensional index in the occupancy bookkeeping and in the field writes)
        if ast.unparse(st.value) != "np.array(indices, dtype=np.int32)":
            _fail(st, "the indices are rebound to something other than a copy np.array(indices, dtype=np.int32)")
        return "PIndices"
    if isinstance(st, ast.Assign) and len(st.targets) == 1 and isinstance(st.targets[0], ast.Name) and not has_raise(st):
        if st.targets[0].id in ("new_data", "indices", "add_info"):
            _fail(st, "rebinding %s outside the recognised steps" % st.targets[0].id)
        return "POccupancyRead"
    if isinstance(st, ast.Assign) and len(st.targets) == 1 and self_sub(st.targets[0], "_props"):
        if any(isinstance(x, ast.Call) and not (isinstance(x.func, ast.Name) and x.func.id == "len") for x in ast.walk(st.value)):
            _fail(st, "a call (other than len) inside an occupancy write")
        return "POccupancyWrite"
    if isinstance(st, ast.For) and "items" in ast.dump(st.iter) and "_fields" in ast.dump(st.iter) and not has_raise(st):
        if not (len(st.body) == 1 and isinstance(st.body[0], ast.Assign) and isinstance(st.body[0].targets[0], ast.Subscript)
                and not any(isinstance(x, ast.Call) for x in ast.walk(st.body[0]))):
            _fail(st, "the write loop does more than `arr[indices] = new_data[name]`")
        return "PWrite"
    if isinstance(st, ast.Return):
        return "PReturn"
    _fail(st, "unrecognised statement in ArrayStore.add")


def translate(repo=None):
    repo = repo or REPO
    tree = ast.parse(open(os.path.join(repo, SRC)).read())
    fn = None
    for n in tree.body:
        if isinstance(n, ast.ClassDef) and n.name == "ArrayStore":
            ms = [m for m in n.body if isinstance(m, ast.FunctionDef) and m.name == "add"]
            if len(ms) == 1:
                fn = ms[0]
    if fn is None:
        raise Unsupported("cannot locate ArrayStore.add")
    body = list(fn.body)
    if body and isinstance(body[0], ast.Expr) and isinstance(body[0].value, ast.Constant) and isinstance(body[0].value.value, str):
        body = body[1:]
    phases = []
    for st in body:
        p = classify(st)
        if not phases or phases[-1] != p or p not in ("POccupancyRead", "POccupancyWrite"):
            phases.append(p)
    # merge alternating occupancy reads / writes into one read block followed by one write block only if they really are in that order
    text = ("(** GENERATED by harness/py2v_store.py from the current pyribs source (%s: ArrayStore.add) on every run -- do not edit.\n"
            "    The phases of the method in source order; Refine/StoreAddRefine.v ties the order to Model/Store.v. *)\n"
            "From Coq Require Import List.\nImport ListNotations.\n\n"
            "Inductive phase := PCount | PInit | PTransforms | PIndices | PEmptyReturn | PLenCheck | PKeyCheck | PConvert | POccupancyRead | POccupancyWrite | PWrite | PReturn.\n\n"
            "Definition gen_store_add_phases : list phase :=\n  [%s].\n" % (SRC, "; ".join(phases)))
    return text, hashlib.sha256("".join(ast.dump(s) for s in body).encode()).hexdigest()


def generate():
    st = {"ok": False, "error": None, "written": False, "sha": None}
    try:
        text, st["sha"] = translate()
        st["ok"] = True
    except Unsupported as e:
        st["error"] = str(e)
        return st
    except Exception as e:  # noqa
        st["error"] = repr(e)
        return st
    try:
        old = open(OUT).read() if os.path.exists(OUT) else None
        if old != text:
            os.makedirs(os.path.dirname(OUT), exist_ok=True)
            tmp = OUT + ".tmp%d" % os.getpid()
            with open(tmp, "w") as f:
                f.write(text)
            os.replace(tmp, OUT)
            st["written"] = True
    except OSError as e:
        st["ok"], st["error"] = False, "cannot write %s: %r" % (OUT, e)
    return st


STATUS = generate()


def report(rep):
    rep.extra["source_fragments_store"] = {"translator": "harness/py2v_store.py", "source": [SRC], "ok": STATUS["ok"], "sha256_of_ast": STATUS["sha"],
                                           "refinement": "coq/Refine/StoreAddRefine.v"}
    if not STATUS["ok"]:
        rep.violation("the phase extractor cannot read the current source of ArrayStore.add any more (fail-closed): %s" % STATUS["error"],
                      {"kind": "translation", "broken": "harness/py2v_store.py", "error": STATUS["error"]}, False, {"kind": "translation"})


if __name__ == "__main__":
    print(STATUS)
    print(open(OUT).read() if STATUS["ok"] else "")
