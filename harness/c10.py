"""C10 correspondence: EvolutionStrategyEmitter / GradientArborescenceEmitter control block (parents, iteration
counter, restart decision and restart actions, ranker -> optimiser hand-off) vs the extracted ESControl model.
The evolution strategy, ranker, gradient optimiser and archive are spies injected through the public es=, ranker=,
grad_opt= arguments and an archive subclass; all of them write into one call log."""
import py2v_es
import json
import os
import random

import numpy as np

from common import CORPUS, err_code
from es_spies import fr, make_spy_archive, make_spy_es, make_spy_grad, make_spy_ranker

CONFIG = {
    "cone": ["Base/ListUtil.v", "Model/Store.v", "Model/ESControl.v", "Spec/ESControlSpec.v", "Proofs/ESControlProofs.v",
             "Generated/ESGen.v", "Refine/ESRefine.v", "Properties/C10.v"],
    "extra_property_files": ["Refine/ESRefine.v"],
    "trusted": ["harness/py2v_es.py: fail-closed translator of _check_restart, the num_parents expression and the restart test of tell() of "
                "EvolutionStrategyEmitter and GradientArborescenceEmitter into Generated/ESGen.v on every run; Refine/ESRefine.v proves both "
                "copies equal to Model/ESControl.v for all arguments",
                "Model/ESControl.v models only the emitter's own control decisions; the evolution strategy, ranker, archive sampling and "
                "gradient optimiser are inputs (what they answer) and outputs (what they are asked), observed through spies injected via "
                "es=/ranker=/grad_opt= and an archive subclass"],
    "level_text": "Theorems in coq/Properties/C10.v hold for every configuration (both emitter classes, both selection rules, every restart "
                  "rule including every non-zero integer N, every batch size), every ranker / stop signal / archive content (arbitrary "
                  "functions and lists) and every history of feedback: number of parents (filter: inserted count, mu: batch//2), itrs = "
                  "number of tells, restart <-> check_stop or rule, exact restart actions and state change (elite drawn from the current "
                  "archive), none of them otherwise, every-N restarts exactly at the multiples of N with restarts = T/|N| (induction over "
                  "histories), no_improvement exactly at all-zero batches, basic never, ranker->optimiser pass-through. Tied to "
                  "_evolution_strategy_emitter.py / _gradient_arborescence_emitter.py by a differential run of the extracted model against "
                  "the real emitters with spy collaborators on every run.",
    "level_note": "All clauses proved (no _partial). Trusted: Coq kernel; extraction + OCaml driver; the hand-written model (tied by sampling "
                  "only; the py2v fragment translation sketched in DESIGN 2.2(b) is not implemented for this property); harness "
                  "generators/canonicalisers/spies. No axioms. An empty archive at restart time (outside the property's quantifier) is "
                  "modelled as the IndexError the code raises.",
    "technique": "Rocq/Coq proof over an executable Gallina model + model-vs-implementation correspondence run",
    "design_ref": "DESIGN.md section 5, C10",
}

STOCK = ["imp", "2imp", "rd", "2rd", "obj", "2obj", "nov", "density"]


def dy(rng, lo=-8, hi=8, k=3):
    return rng.randint(lo * 2 ** k, hi * 2 ** k) / 2 ** k


def gen_case(rng, tier):
    kind = rng.choice(["ESE", "ESE", "GAE"])
    mdim = rng.choice([1, 2])
    n = mdim + 1 + rng.choice([0, 0, 1, 2]) if kind == "GAE" else rng.choice([1, 2, 3, 4])
    batch = rng.choice([1, 2, 3, 4, 5, 6, 8])
    sel = rng.choice(["mu", "filter"])
    r = rng.random()
    if r < 0.2:
        rule = "basic"
    elif r < 0.45:
        rule = "no_improvement"
    else:
        rule = rng.choice([1, 2, 2, 3, 3, 4, 5, 7, -1, -2, -3])
    rule_type = rng.choice(["int", "int", "np.int64", "np.int32"]) if not isinstance(rule, str) else "str"
    ranker = rng.choice(STOCK + ["scripted", "scripted"])
    n_init = rng.choice([0, 1, 1, 2, 5, 5]) if rng.random() < 0.3 else rng.choice([1, 2, 5])
    nrounds = rng.randint(1, 12) if tier == "quick" else rng.randint(1, 30)
    pstop = rng.choice([0.0, 0.0, 0.15, 0.4])
    rounds = []
    for _ in range(nrounds):
        cls = rng.choice(["all", "some", "some", "none", "none"])
        if cls == "all":
            st = [rng.choice([1, 2]) for _ in range(batch)]
        elif cls == "none":
            st = [0] * batch
        else:
            st = [rng.choice([0, 0, 1, 2]) for _ in range(batch)]
        vals2d = rng.random() < 0.5
        perm = list(range(batch))
        rng.shuffle(perm)
        rounds.append({
            "feedback": "real" if rng.random() < 0.25 else "synthetic",
            "status": st,
            "stop": rng.random() < pstop,
            "rows": [[dy(rng) for _ in range(n if kind == "ESE" else mdim + 1)] for _ in range(batch)],
            "objective": [dy(rng) for _ in range(batch)],
            "measures": [[dy(rng, -1, 1, 4) for _ in range(mdim)] for _ in range(batch)],
            "value": [dy(rng) for _ in range(batch)],
            "novelty": [dy(rng, 0, 4) for _ in range(batch)],
            "rank": [perm, [[dy(rng), dy(rng)] for _ in range(batch)] if vals2d else [dy(rng) for _ in range(batch)]],
            "extra_elites": [[[dy(rng) for _ in range(n)], dy(rng), [dy(rng, -1, 1, 4) for _ in range(mdim)]]
                             for _ in range(rng.choice([0, 0, 0, 1, 2]))],
        })
    return {"kind": kind, "mdim": mdim, "n": n, "batch": batch, "sel": sel, "rule": rule, "rule_type": rule_type, "ranker": ranker,
            "x0": [dy(rng) for _ in range(n)],
            "init_elites": [[[dy(rng) for _ in range(n)], dy(rng), [dy(rng, -1, 1, 4) for _ in range(mdim)]] for _ in range(n_init)],
            "batch_arg": rng.random() < 0.8, "rounds": rounds,
            # emitter bounds narrower than where elites lie (a shared archive, direct adds): the restart point must still be an elite's solution
            "bounds": rng.choice([None, None, 0.25, 1.0])}


class Labels:
    """bijection between the exact vectors seen in a run and small integer labels (the model's row type P = Z)"""

    def __init__(self):
        self.d = {}

    def __call__(self, v):
        key = tuple(fr(x) for x in np.asarray(v, dtype=float).reshape(-1))
        if key not in self.d:
            self.d[key] = len(self.d) + 1
        return self.d[key]


def vals_rows(a):
    a = np.asarray(a, dtype=float)
    if a.ndim == 1:
        return [[fr(x)] for x in a]
    return [[fr(x) for x in row] for row in a.reshape(a.shape[0], -1)]


def rule_value(case):
    r = case["rule"]
    if isinstance(r, str):
        return r
    return {"int": int, "np.int64": np.int64, "np.int32": np.int32}[case["rule_type"]](r)


def cfg_sx(case):
    r = case["rule"]
    rule = [0] if r == "basic" else [1] if r == "no_improvement" else [2, int(r)]
    return [case["kind"] == "GAE", case["sel"] == "filter", rule, case["batch"]]


def canon_entries(entries, case, lab):
    """spy log entries of one emitter call -> model action encoding (plus side conditions that have no model counterpart)"""
    out, side = [], []
    for en in entries:
        k = en[0]
        if k == "rank":
            d = en[1]
            out.append([0, [lab(r) for r in d["solution"]], [int(x) for x in d["status"]]])
        elif k == "opt_tell":
            out.append([1, [int(i) for i in en[1]], vals_rows(en[2]), int(en[3])])
        elif k == "check_stop":
            out.append([2, vals_rows(en[1])])
        elif k == "sample":
            out.append([3, int(en[1])])
        elif k == "grad_reset":
            out.append([4, lab(en[1])])
        elif k == "opt_reset":
            x = np.asarray(en[1])
            if case["kind"] == "GAE":
                ok = x.shape == (case["mdim"] + 1,) and not np.any(x)
                out.append([5, []] if ok else [5, [-2]])
            else:
                out.append([5, [lab(x)]])
        elif k == "ranker_reset":
            out.append([6])
        elif k in ("es_init", "opt_ask", "grad_init", "grad_step"):
            continue
        else:
            side.append("unexpected spy entry %r" % (k,))
    return out, side


def run_impl(case):
    """Runs the history on the real emitter. Returns (impl outputs per op, model ops, per-tell facts for the oracle)."""
    from ribs.emitters import EvolutionStrategyEmitter, GradientArborescenceEmitter
    log = []
    lab = Labels()
    kind, n, mdim, B = case["kind"], case["n"], case["mdim"], case["batch"]
    Arch = make_spy_archive(log)
    archive = Arch(solution_dim=n, dims=[6] * mdim, ranges=[(-1, 1)] * mdim, seed=case.get("aseed", 7))
    for sol, obj, meas in case["init_elites"]:
        archive.add_single(sol, obj, meas)
    script = {"batch": B, "asks": [np.array(r["rows"], dtype=float) for r in case["rounds"]],
              "stops": [r["stop"] for r in case["rounds"]], "ranks": [r["rank"] for r in case["rounds"]]}
    es = make_spy_es(log, script)
    rk = make_spy_ranker(log, case["ranker"], script)
    outs, mops, facts = [], [], []
    x0 = np.array(case["x0"], dtype=float)
    kw = dict(x0=x0, sigma0=0.5, ranker=rk, es=es, selection_rule=case["sel"], restart_rule=rule_value(case),
              batch_size=B if case["batch_arg"] else None)
    if case.get("bounds") is not None and kind == "ESE":      # GradientArborescenceEmitter rejects bounds by design
        kw["bounds"] = [(-case["bounds"], case["bounds"])] * n
    del log[:]
    try:
        if kind == "ESE":
            em = EvolutionStrategyEmitter(archive, **kw)
        else:
            em = GradientArborescenceEmitter(archive, lr=0.5, grad_opt=make_spy_grad(log, "hold"), normalize_grad=False, **kw)
        c, side = canon_entries(log, case, lab)
        outs.append([0, c] if not side else ["side", side])
    except Exception as e:  # noqa
        em = None
        outs.append([err_code(e)])
    mops.append([0, lab(x0)])
    if em is None:
        return outs, mops, facts
    if em.batch_size != B:
        outs[-1] = ["batch_size", em.batch_size]
    jac = np.zeros((1, mdim + 1, n))
    if kind == "GAE":
        for j in range(mdim + 1):
            jac[0, j, j] = 1.0
    for t, rd in enumerate(case["rounds"]):
        # ---- ask
        del log[:]
        if kind == "GAE":
            th = em.ask_dqd()
            em.tell_dqd(th, [0.0], [[0.0] * mdim], jac.copy(), {"status": np.zeros(1), "value": np.zeros(1)})
            theta = np.array(th[0], copy=True)
            rows = np.array(em.ask(), copy=True)
            expect_rows = np.array([theta + np.concatenate([np.array(c), np.zeros(n - mdim - 1)]) for c in rd["rows"]])
        else:
            rows = np.array(em.ask(), copy=True)
            expect_rows = np.array(rd["rows"], dtype=float)
        outs.append([lab(r) for r in rows])
        mops.append([1, [lab(r) for r in expect_rows]])
        # ---- evaluate / add
        for sol, obj, meas in rd["extra_elites"]:
            archive.add_single(sol, obj, meas)
        objective = np.array(rd["objective"], dtype=float)
        measures = np.array(rd["measures"], dtype=float)
        if rd["feedback"] == "real":
            add_info = dict(archive.add(rows, objective, measures))
        else:
            add_info = {"status": np.array(rd["status"], dtype=np.int32), "value": np.array(rd["value"], dtype=float)}
        add_info["novelty"] = np.array(rd["novelty"], dtype=float)
        status = [int(x) for x in add_info["status"]]
        arch_sols = np.array(archive.data("solution"), copy=True)
        arch_ids = [lab(s) for s in arch_sols]
        # ---- tell
        del log[:]
        try:
            em.tell(rows, objective, measures, add_info)
            res = 0
        except Exception as e:  # noqa
            res = err_code(e)
        entries = list(log)
        c, side = canon_entries(entries, case, lab)
        rk_e = [en for en in entries if en[0] == "rank"]
        ot_e = [en for en in entries if en[0] == "opt_tell"]
        sm_e = [en for en in entries if en[0] == "sample"]
        for en in rk_e:
            d = en[1]
            if d["emitter"] is not em or d["archive"] is not archive:
                side.append("ranker.rank called with a different emitter/archive object")
            if not (np.array_equal(d["objective"], objective) and np.array_equal(d["measures"], measures)):
                side.append("ranker.rank saw objective/measures different from those passed to tell")
        for en in entries:
            if en[0] == "ranker_reset" and (en[1] is not em or en[2] is not archive):
                side.append("ranker.reset called with a different emitter/archive object")
        ridx = [int(i) for i in rk_e[0][1]["idx"]] if rk_e else []
        rvals = vals_rows(rk_e[0][1]["vals"]) if rk_e else []
        pick = 0
        if sm_e and sm_e[0][2] is not None and len(sm_e[0][2]) >= 1:
            sid = lab(sm_e[0][2][0])
            pick = arch_ids.index(sid) if sid in arch_ids else len(arch_ids)
        outs.append([c, int(em.itrs), int(em.restarts), res] if not side else ["side", side])
        mops.append([2, [lab(r) for r in rows], status, ridx, rvals, bool(rd["stop"]), arch_ids, pick])
        facts.append({"t": t + 1, "status": status, "stop": bool(rd["stop"]), "entries": c, "itrs": int(em.itrs), "restarts": int(em.restarts),
                      "res": res, "arch_ids": arch_ids, "emitted": [lab(r) for r in rows], "ridx": ridx, "rvals": rvals, "side": side,
                      "same_idx_object": bool(rk_e and ot_e and ot_e[0][4] is rk_e[0][1]["idx_obj"])})
    return outs, mops, facts


def compare(case, driver):
    outs, mops, facts = run_impl(case)
    mout = driver.call("C10", [cfg_sx(case), mops])
    assert len(mout) == len(outs), (len(mout), len(outs))
    for k, (mo, io, op) in enumerate(zip(mout, outs, mops)):
        m = canon_model(mo, op)
        if m != canon_impl(io):
            return {"step": k, "model_op": op, "model": m, "impl": canon_impl(io)}
    return None


def canon_impl(o):
    return json.loads(json.dumps(o, default=lambda f: [f.numerator, f.denominator]))


def canon_model(mo, op):
    if op[0] == 0:
        return [0, [dec_action(a) for a in mo[1]]] if mo[0] == 0 else [mo[0]]
    if op[0] == 1:
        return mo
    return [[dec_action(a) for a in mo[0]], mo[1], mo[2], mo[3]]


def dec_action(a):
    return a


def oracle(case):
    """C10's own statement, checked on the implementation's call log (no model)."""
    try:
        outs, mops, facts = run_impl(case)
    except Exception as e:  # noqa
        return "implementation run raised %r" % (e,)
    if outs and outs[0] and outs[0][0] not in (0,):
        if case["rule"] == 0:
            return None
        return "constructor failed: %r" % (outs[0],)
    restarts = 0
    rule, B = case["rule"], case["batch"]
    for f in facts:
        t = f["t"]
        if f["side"]:
            return "tell %d: %s" % (t, f["side"][0])
        ent = f["entries"]
        ranks = [e for e in ent if e[0] == 0]
        tells = [e for e in ent if e[0] == 1]
        if len(ranks) != 1 or ranks[0][1] != f["emitted"]:
            return "tell %d: ranker did not rank exactly the emitted rows once: %s vs %s" % (t, [r[1] for r in ranks], f["emitted"])
        if len(tells) != 1 or tells[0][1] != f["ridx"] or tells[0][2] != f["rvals"]:
            return "tell %d: optimizer did not receive the ranker's ranking: %s vs %s" % (t, tells, (f["ridx"], f["rvals"]))
        exp_np = sum(1 for s in f["status"] if s != 0) if case["sel"] == "filter" else B // 2
        if tells[0][3] != exp_np:
            return "tell %d: num_parents %d, expected %d (selection %s, statuses %s, batch %d)" % (t, tells[0][3], exp_np, case["sel"], f["status"], B)
        if f["itrs"] != t:
            return "tell %d: itrs is %d" % (t, f["itrs"])
        fire = f["stop"] or (rule == "no_improvement" and not any(f["status"])) or (not isinstance(rule, str) and t % rule == 0)
        if fire and not f["arch_ids"]:
            return None  # outside the property: restart due with an empty archive
        resets = [e for e in ent if e[0] in (3, 4, 5, 6)]
        if fire:
            restarts += 1
            pt = [e for e in ent if e[0] == (4 if case["kind"] == "GAE" else 5)]
            if len(pt) != 1 or (pt[0][1] if case["kind"] == "GAE" else (pt[0][1] or [None])[0]) not in f["arch_ids"]:
                return "tell %d: restart due (stop=%s rule=%s) but the optimizer was not re-centred on a current elite: %s" % (t, f["stop"], rule, resets)
            if len([e for e in ent if e[0] == 6]) != 1:
                return "tell %d: restart due but ranker.reset was not called exactly once" % t
            if case["kind"] == "GAE" and [5, []] not in ent:
                return "tell %d: restart due but the ES was not reset to zero coefficients" % t
        elif resets:
            return "tell %d: no restart due (stop=%s rule=%s statuses=%s) but reset actions happened: %s" % (t, f["stop"], rule, f["status"], resets)
        if f["restarts"] != restarts:
            return "tell %d: restarts is %d, expected %d" % (t, f["restarts"], restarts)
    return None


def nontrivial(case):
    """at least one restarting and one non-restarting tell, with some / none / all feedback mixed"""
    if case["rule"] == 0 or not case["rounds"]:
        return False
    rule = case["rule"]
    fires = []
    for t, r in enumerate(case["rounds"], 1):
        if r["feedback"] == "real":
            fires.append(None)
            continue
        fires.append(bool(r["stop"] or (rule == "no_improvement" and not any(r["status"])) or (not isinstance(rule, str) and t % rule == 0)))
    return (True in fires) and (False in fires) and len(case["rounds"]) >= 3


def shrink(case, driver):
    def fails(c):
        try:
            return compare(c, driver) is not None
        except Exception:  # noqa
            return True
    rounds = list(case["rounds"])
    changed = True
    while changed and len(rounds) > 1:
        changed = False
        for k in reversed(range(len(rounds))):
            cand = dict(case, rounds=rounds[:k] + rounds[k + 1:])
            if fails(cand):
                rounds = cand["rounds"]
                changed = True
                break
    case = dict(case, rounds=rounds)
    for key, val in (("init_elites", case["init_elites"][:1]), ("ranker", "obj")):
        cand = dict(case, **{key: val})
        if cand != case and fails(cand):
            case = cand
    rs = []
    for r in case["rounds"]:
        r2 = dict(r, extra_elites=[])
        rs.append(r2)
    cand = dict(case, rounds=rs)
    if fails(cand):
        case = cand
    return case


def malformed(rep):
    """configuration errors: rejected by the constructor with ValueError (ZeroDivisionError for N = 0 goes through the model)"""
    from ribs.archives import GridArchive
    from ribs.emitters import EvolutionStrategyEmitter, GradientArborescenceEmitter
    a = GridArchive(solution_dim=3, dims=[4, 4], ranges=[(-1, 1)] * 2)
    bad = [dict(restart_rule="every"), dict(restart_rule=2.5), dict(restart_rule=None), dict(selection_rule="best"),
           dict(ranker="nope"), dict(es="nope")]
    for cls, extra in ((EvolutionStrategyEmitter, {}), (GradientArborescenceEmitter, {"lr": 0.5})):
        for b in bad:
            rep.count("malformed_cfg")
            try:
                cls(a, x0=np.zeros(3), sigma0=1.0, batch_size=4, **extra, **b)
                got = "accepted"
            except ValueError:
                got = None
            except Exception as e:  # noqa
                got = repr(e)
            if got:
                rep.violation("%s(%s) was not rejected with ValueError: %s" % (cls.__name__, b, got),
                              {"kind": "malformed-config", "class": cls.__name__, "kwargs": str(b), "got": got,
                               "theorems_at_stake": ["constructor validation (documented Raises: ValueError)"]}, True,
                              {"kind": "malformed-config"})


def report(rep, case, d, driver):
    small = shrink(case, driver)
    try:
        d2 = compare(small, driver) or d
    except Exception as e:  # noqa
        d2 = {"harness_exception": repr(e)}
    orc = oracle(small) or oracle(case)
    rep.violation("ES emitter control block and the ESControl model disagree" + (": " + orc if orc else ""),
                  {"kind": "correspondence", "broken": "Model/ESControl.v vs ribs/emitters/_evolution_strategy_emitter.py / "
                                                       "_gradient_arborescence_emitter.py (tell, _check_restart)",
                   "case": small, "disagreement": canon_impl(d2), "oracle": orc,
                   "theorems_at_stake": ["C10_parents", "C10_itrs", "C10_restart_iff", "C10_restart_effect", "C10_no_restart_effect",
                                         "C10_ranking_passthrough", "C10_everyN", "C10_basic_never"]},
                  orc is not None, {"kind": "correspondence", "emitter": small["kind"]})


def check(rep, tier, seed, driver):
    py2v_es.report(rep)
    rng = random.Random(seed)
    n = 1500 if tier == "quick" else 16000
    rep.rule = ("random configurations (EvolutionStrategyEmitter / GradientArborescenceEmitter; mu / filter; basic / no_improvement / "
                "integer N incl. negative and numpy integers, 0 as malformed; batch 1..8; eight stock rankers wrapped in a spy and a "
                "scripted ranker returning arbitrary permutations with 1-D or 2-D values) x histories of 1..30 ask/tell rounds with "
                "synthetic feedback (all / some / none inserted, statuses 1 and 2 mixed) or the real archive.add feedback, random stop "
                "signals, elites added between rounds, archive mostly non-empty; a history is non-trivial when it has >= 3 rounds and "
                "contains both a restarting and a non-restarting tell; distinct by hash of the case" 
                "; plus: emitter bounds narrower than where the archive's elites lie")
    cases = []
    cdir = os.path.join(CORPUS, "C10")
    if os.path.isdir(cdir):
        for f in sorted(os.listdir(cdir)):
            cases.append(json.load(open(os.path.join(cdir, f))))
    rep.count("corpus_cases", len(cases))
    zero = gen_case(rng, tier)
    zero["rule"], zero["rule_type"] = 0, "int"
    cases.append(zero)
    cases += [gen_case(rng, tier) for _ in range(n)]
    malformed(rep)
    for case in cases:
        rep.count("kind_" + case["kind"])
        rep.count("sel_" + case["sel"])
        rep.count("rule_" + (case["rule"] if isinstance(case["rule"], str) else "N"))
        rep.count("ranker_" + case["ranker"])
        rep.count("rounds", len(case["rounds"]))
        for r in case["rounds"]:
            rep.count("feedback_" + r["feedback"])
            if r["feedback"] == "synthetic":
                rep.count("status_" + ("none" if not any(r["status"]) else "all" if all(r["status"]) else "some"))
            if r["stop"]:
                rep.count("stop_true")
        if not case["init_elites"]:
            rep.count("empty_initial_archive(outside property when a restart is due)")
        try:
            d = compare(case, driver)
        except Exception as e:  # noqa
            import traceback
            d = {"harness_exception": repr(e), "trace": traceback.format_exc()[-1500:]}
        nt = nontrivial(case)
        rep.case(case, nt, sample=case if nt and len(case["rounds"]) <= 4 else None)
        if d is not None:
            report(rep, case, d, driver)
            if len(rep.violations) >= 3:
                break
