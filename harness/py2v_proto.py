"""Fail-closed extractor of the ask/tell protocol table of ribs/schedulers (current source under $VERIF_REPO) into Gallina.

For every public protocol method (Scheduler.ask, ask_dqd, tell, tell_dqd; BanditScheduler.ask, tell) the FIRST statements of the body
(after the docstring) must be
    if <guard on self._last_called>: raise RuntimeError(...)
    self._last_called = "<method name>"
with guard one of   self._last_called in ["a", "b", ...]  |  self._last_called == "a"   (forbidden predecessors)
                     self._last_called != "a"                                            (required predecessor),
and NO statement may precede the guard (the raise comes before any mutation), and the state assignment must directly follow it.
Anything else raises Unsupported (= broken tie).  Output: coq/Generated/ProtoGen.v, a table of
(class, method, guard, next state); Refine/ProtoRefine.v proves that the Scheduler / BanditScheduler models reject exactly the calls the
table forbids, leave the state untouched when they do, and move to the table's next state otherwise."""
import ast
import hashlib
import os

ROOT = os.path.dirname(os.path.dirname(os.path.abspath(__file__)))
REPO = os.environ.get("VERIF_REPO", "/repo")
OUT = os.path.join(ROOT, "coq", "Generated", "ProtoGen.v")
TARGETS = [("ribs/schedulers/_scheduler.py", "Scheduler", ["ask", "ask_dqd", "tell", "tell_dqd"]),
           ("ribs/schedulers/_bandit_scheduler.py", "BanditScheduler", ["ask", "tell"])]
CALL = {"ask": "CAsk", "ask_dqd": "CAskDqd", "tell": "CTell", "tell_dqd": "CTellDqd"}


class Unsupported(Exception):
    pass


def _fail(node, why):
    raise Unsupported("%s at line %s: %s" % (why, getattr(node, "lineno", "?"), ast.dump(node)[:200]))


def is_last_called(e):
    return isinstance(e, ast.Attribute) and e.attr == "_last_called" and isinstance(e.value, ast.Name) and e.value.id == "self"


def call_of(node):
    if isinstance(node, ast.Constant) and isinstance(node.value, str) and node.value in CALL:
        return CALL[node.value]
    _fail(node, "not a protocol state literal")


def method_entry(cls, fdef):
    body = list(fdef.body)
    if body and isinstance(body[0], ast.Expr) and isinstance(body[0].value, ast.Constant) and isinstance(body[0].value.value, str):
        body = body[1:]
    if len(body) < 2:
        _fail(fdef, "method too short")
    g, a = body[0], body[1]
    if not (isinstance(g, ast.If) and not g.orelse and len(g.body) == 1 and isinstance(g.body[0], ast.Raise)):
        _fail(g, "%s.%s does not start with the protocol guard" % (cls, fdef.name))
    exc = g.body[0].exc
    if not (isinstance(exc, ast.Call) and isinstance(exc.func, ast.Name) and exc.func.id == "RuntimeError"):
        _fail(g, "the guard must raise RuntimeError")
    t = g.test
    if not (isinstance(t, ast.Compare) and len(t.ops) == 1 and is_last_called(t.left)):
        _fail(t, "unsupported guard")
    op, rhs = t.ops[0], t.comparators[0]
    if isinstance(op, ast.In) and isinstance(rhs, (ast.List, ast.Tuple)):
        guard = "GForbid [%s]" % "; ".join(call_of(x) for x in rhs.elts)
    elif isinstance(op, ast.Eq):
        guard = "GForbid [%s]" % call_of(rhs)
    elif isinstance(op, ast.NotEq):
        guard = "GRequire %s" % call_of(rhs)
    else:
        _fail(t, "unsupported guard operator")
    if not (isinstance(a, ast.Assign) and len(a.targets) == 1 and is_last_called(a.targets[0])):
        _fail(a, "%s.%s: the statement after the guard is not the _last_called assignment" % (cls, fdef.name))
    nxt = call_of(a.value)
    if nxt != CALL[fdef.name]:
        _fail(a, "%s.%s records %s as the last call" % (cls, fdef.name, nxt))
    # no other assignment to _last_called anywhere else in the method
    others = [n for n in ast.walk(fdef) if isinstance(n, ast.Assign) and any(is_last_called(x) for x in n.targets)]
    if len(others) != 1:
        _fail(fdef, "%s.%s assigns _last_called %d times" % (cls, fdef.name, len(others)))
    return "(%s, %s, %s)" % (CALL[fdef.name], guard, nxt)


def translate(repo=None):
    repo = repo or REPO
    tables, h = [], hashlib.sha256()
    for rel, cls, meths in TARGETS:
        tree = ast.parse(open(os.path.join(repo, rel)).read())
        cdef = [n for n in tree.body if isinstance(n, ast.ClassDef) and n.name == cls]
        if len(cdef) != 1:
            raise Unsupported("cannot locate class %s" % cls)
        rows = []
        present = {m.name: m for m in cdef[0].body if isinstance(m, ast.FunctionDef)}
        # every method that touches _last_called must be in the table (a new protocol method is a broken tie)
        for name, m in present.items():
            touches = any(is_last_called(n) for n in ast.walk(m))
            if touches and name not in meths and name != "__init__":
                raise Unsupported("%s.%s touches _last_called but is not a known protocol method" % (cls, name))
        for name in meths:
            if name not in present or present[name].decorator_list:
                raise Unsupported("cannot locate %s.%s" % (cls, name))
            h.update(ast.dump(present[name].body[0]).encode() + ast.dump(present[name].body[1]).encode())
            rows.append(method_entry(cls, present[name]))
        # __init__ must start in the None state
        init = present.get("__init__")
        inits = [n for n in ast.walk(init) if isinstance(n, ast.Assign) and any(is_last_called(x) for x in n.targets)] if init else []
        if len(inits) != 1 or not (isinstance(inits[0].value, ast.Constant) and inits[0].value.value is None):
            raise Unsupported("%s.__init__ does not initialise _last_called to None" % cls)
        tables.append("Definition gen_proto_%s : list (call * guard * call) :=\n  [%s].\n" % (cls, ";\n   ".join(rows)))
    text = ("(** GENERATED by harness/py2v_proto.py from the current pyribs source (ribs/schedulers) on every run -- do not edit.\n"
            "    (method, guard on _last_called evaluated before anything else, value assigned to _last_called right after the guard);\n"
            "    both classes start with _last_called = None.  Refine/ProtoRefine.v ties the tables to the models. *)\n"
            "From Coq Require Import List.\nFrom PV Require Import Model.Scheduler.\nImport ListNotations.\n\n"
            "Inductive guard := GForbid (l : list call) | GRequire (c : call).\n\n" + "\n".join(tables))
    return text, h.hexdigest()


def generate():
    st = {"ok": False, "error": None, "written": False, "sha": None}
    try:
        text, st["sha"] = translate()
        st["ok"] = True
    except Unsupported as e:
        st["error"] = str(e)
        return st
    except Exception as e:  # noqa
        st["error"] = repr(e)
        return st
    try:
        old = open(OUT).read() if os.path.exists(OUT) else None
        if old != text:
            os.makedirs(os.path.dirname(OUT), exist_ok=True)
            tmp = OUT + ".tmp%d" % os.getpid()
            with open(tmp, "w") as f:
                f.write(text)
            os.replace(tmp, OUT)
            st["written"] = True
    except OSError as e:
        st["ok"], st["error"] = False, "cannot write %s: %r" % (OUT, e)
    return st


STATUS = generate()


def report(rep):
    rep.extra["source_fragments"] = {"translator": "harness/py2v_proto.py", "source": [t[0] for t in TARGETS], "ok": STATUS["ok"],
                                     "sha256_of_ast": STATUS["sha"], "refinement": "coq/Refine/ProtoRefine.v"}
    if not STATUS["ok"]:
        rep.violation("the protocol-table extractor cannot read the current source of ribs/schedulers any more (fail-closed): %s" % STATUS["error"],
                      {"kind": "translation", "broken": "harness/py2v_proto.py", "error": STATUS["error"]}, False, {"kind": "translation"})


if __name__ == "__main__":
    print(STATUS)
    print(open(OUT).read() if STATUS["ok"] else "")
