"""Fail-closed translator of the index arithmetic of GridArchive.index_of and of the SlidingBoundariesArchive.index_of clip expression
(current source under $VERIF_REPO) into Gallina (coq/Generated/GridGen.v, rewritten on every run); Refine/GridRefine.v proves the
result equal to Model/Grid.v / Model/SlidingIndex.v for all arguments.

GridArchive.index_of, element-wise in one dimension, must consist of (after np.asarray / check_* calls on `measures`):
    grid_indices = <arith over self._dims, measures, self._lower_bounds, self._epsilon, self._interval_size>
    grid_indices = np.clip(grid_indices, 0, self._dims - 1).astype(np.int32)          # clip FIRST, then cast
    return self.grid_to_int_index(grid_indices)
and GridArchive.__init__ must define  self._interval_size = self._upper_bounds - self._lower_bounds.
SlidingBoundariesArchive.index_of must start its arithmetic with
    measures = np.clip(measures + self._epsilon, self._lower_bounds, self._upper_bounds - self._epsilon)
and use np.searchsorted(boundary[:dim], measures_col) (default side) and np.maximum(0, idx_col - 1).
Anything else raises Unsupported (= broken tie)."""
import ast
import hashlib
import os
from fractions import Fraction

ROOT = os.path.dirname(os.path.dirname(os.path.abspath(__file__)))
REPO = os.environ.get("VERIF_REPO", "/repo")
OUT = os.path.join(ROOT, "coq", "Generated", "GridGen.v")
OUT_R = os.path.join(ROOT, "coq", "Generated", "GridGenR.v")
RAW_R = None
SRC_G = "ribs/archives/_grid_archive.py"
SRC_S = "ribs/archives/_sliding_boundaries_archive.py"


class Unsupported(Exception):
    pass


def _fail(node, why):
    raise Unsupported("%s at line %s: %s" % (why, getattr(node, "lineno", "?"), ast.dump(node)[:200]))


def self_attr(e):
    return e.attr if isinstance(e, ast.Attribute) and isinstance(e.value, ast.Name) and e.value.id == "self" else None


ENV_G = {"_dims": "(inject_Z d)", "_lower_bounds": "lo", "_epsilon": "eps", "_interval_size": "(hi - lo)", "_upper_bounds": "hi"}


def arith(e, names, env):
    if isinstance(e, ast.Name) and e.id in names:
        return names[e.id]
    a = self_attr(e)
    if a in env:
        return env[a]
    if isinstance(e, ast.Constant) and isinstance(e.value, (int, float)) and not isinstance(e.value, bool):
        fr = Fraction(repr(e.value)) if isinstance(e.value, float) else Fraction(e.value)
        return "%d" % fr.numerator if fr.denominator == 1 and fr >= 0 else "(%d # %d)" % (fr.numerator, fr.denominator)
    if isinstance(e, ast.BinOp):
        for cls, s in ((ast.Add, "+"), (ast.Sub, "-"), (ast.Mult, "*"), (ast.Div, "/")):
            if isinstance(e.op, cls):
                return "(%s %s %s)" % (arith(e.left, names, env), s, arith(e.right, names, env))
    _fail(e, "unsupported arithmetic")


ENV_R = {"_dims": "D", "_lower_bounds": "lo", "_epsilon": "eps", "_interval_size": "w"}
ROUND_OF = ((ast.Sub, "-", "rs"), (ast.Mult, "*", "rm"), (ast.Add, "+", "ra"), (ast.Div, "/", "rq"))


def arith_r(e):
    """the same expression over R with one rounding per arithmetic operation (rs: subtraction, rm: multiplication, ra: addition,
    rq: division), for Model/GridRound.v; only names -- a literal constant in the index expression is a broken tie here"""
    if isinstance(e, ast.Name) and e.id == "measures":
        return "m"
    a = self_attr(e)
    if a in ENV_R:
        return ENV_R[a]
    if isinstance(e, ast.BinOp):
        for cls, sym, rnd in ROUND_OF:
            if isinstance(e.op, cls):
                return "(%s (%s %s %s))" % (rnd, arith_r(e.left), sym, arith_r(e.right))
    _fail(e, "unsupported arithmetic (rounded reading)")


def find_method(tree, cls, meth):
    for n in tree.body:
        if isinstance(n, ast.ClassDef) and n.name == cls:
            ms = [m for m in n.body if isinstance(m, ast.FunctionDef) and m.name == meth]
            if len(ms) == 1:
                return ms[0]
    raise Unsupported("cannot locate %s.%s" % (cls, meth))


def is_np_call(e, name):
    return (isinstance(e, ast.Call) and isinstance(e.func, ast.Attribute) and isinstance(e.func.value, ast.Name) and e.func.value.id == "np"
            and e.func.attr == name)


def grid(tree):
    init = find_method(tree, "GridArchive", "__init__")
    ok = False
    for st in ast.walk(init):
        if isinstance(st, ast.Assign) and len(st.targets) == 1 and self_attr(st.targets[0]) == "_interval_size":
            v = st.value
            ok = (isinstance(v, ast.BinOp) and isinstance(v.op, ast.Sub) and self_attr(v.left) == "_upper_bounds" and self_attr(v.right) == "_lower_bounds")
    if not ok:
        raise Unsupported("GridArchive.__init__: _interval_size is not upper_bounds - lower_bounds")
    f = find_method(tree, "GridArchive", "index_of")
    body = [s for s in f.body if not (isinstance(s, ast.Expr) and isinstance(s.value, ast.Constant))]
    stmts = []
    for st in body:
        # skip: measures = np.asarray(measures); check_*(measures, ...)
        if isinstance(st, ast.Assign) and len(st.targets) == 1 and isinstance(st.targets[0], ast.Name) and st.targets[0].id == "measures" and is_np_call(st.value, "asarray"):
            continue
        if isinstance(st, ast.Expr) and isinstance(st.value, ast.Call) and isinstance(st.value.func, ast.Name) and st.value.func.id.startswith("check_"):
            continue
        stmts.append(st)
    if len(stmts) != 3:
        raise Unsupported("GridArchive.index_of: expected [raw expression; clip+cast; return], found %d statements" % len(stmts))
    a, b, r = stmts
    if not (isinstance(a, ast.Assign) and isinstance(a.targets[0], ast.Name)):
        _fail(a, "first statement must assign the raw index expression")
    var = a.targets[0].id
    raw = arith(a.value, {"measures": "m"}, ENV_G)
    global RAW_R
    RAW_R = arith_r(a.value)
    # var = np.clip(var, 0, self._dims - 1).astype(np.int32)
    v = b.value if isinstance(b, ast.Assign) and isinstance(b.targets[0], ast.Name) and b.targets[0].id == var else None
    good = (v is not None and isinstance(v, ast.Call) and isinstance(v.func, ast.Attribute) and v.func.attr == "astype" and len(v.args) == 1
            and isinstance(v.args[0], ast.Attribute) and v.args[0].attr == "int32" and is_np_call(v.func.value, "clip"))
    if not good:
        _fail(b, "second statement must be np.clip(...).astype(np.int32) (clip before the cast)")
    c = v.func.value
    if not (len(c.args) == 3 and isinstance(c.args[0], ast.Name) and c.args[0].id == var):
        _fail(c, "np.clip arguments")
    lo_c = arith(c.args[1], {}, {})
    hi_c = arith(c.args[2], {}, {"_dims": "(inject_Z d)"})
    ok_r = (isinstance(r, ast.Return) and isinstance(r.value, ast.Call) and self_attr(r.value.func) == "grid_to_int_index"
            and len(r.value.args) == 1 and isinstance(r.value.args[0], ast.Name) and r.value.args[0].id == var)
    if not ok_r:
        _fail(r, "index_of must return grid_to_int_index of the clipped indices")
    return ("Definition gen_grid_raw (d : Z) (lo hi eps m : Q) : Q := %s.\n"
            "Definition gen_grid_clip_lo : Q := %s.\nDefinition gen_grid_clip_hi (d : Z) : Q := %s.\n"
            "(** clip first, then the cast to int32 (truncation) *)\n"
            "Definition gen_grid_idx1 (d : Z) (lo hi eps m : Q) : Z := Qtrunc (clipQ gen_grid_clip_lo (gen_grid_clip_hi d) (gen_grid_raw d lo hi eps m)).\n"
            % (raw, lo_c, hi_c)), ast.dump(a) + ast.dump(b) + ast.dump(r)


def sliding(tree):
    f = find_method(tree, "SlidingBoundariesArchive", "index_of")
    clip = None
    side_default = False
    max0 = False
    for st in ast.walk(f):
        if isinstance(st, ast.Assign) and len(st.targets) == 1 and isinstance(st.targets[0], ast.Name) and st.targets[0].id == "measures" and is_np_call(st.value, "clip"):
            if clip is not None:
                raise Unsupported("SlidingBoundariesArchive.index_of clips twice")
            clip = st.value
        if is_np_call(st, "searchsorted"):
            side_default = (len(st.args) == 2 and not st.keywords and isinstance(st.args[0], ast.Subscript) and isinstance(st.args[0].slice, ast.Slice)
                            and st.args[0].slice.lower is None and isinstance(st.args[0].slice.upper, ast.Name) and st.args[0].slice.upper.id == "dim")
        if is_np_call(st, "maximum"):
            a = st.args
            max0 = (len(a) == 2 and isinstance(a[0], ast.Constant) and a[0].value == 0 and isinstance(a[1], ast.BinOp) and isinstance(a[1].op, ast.Sub)
                    and isinstance(a[1].right, ast.Constant) and a[1].right.value == 1)
    if clip is None or len(clip.args) != 3:
        raise Unsupported("SlidingBoundariesArchive.index_of: clip expression not found")
    if not side_default:
        raise Unsupported("SlidingBoundariesArchive.index_of: np.searchsorted(boundary[:dim], col) with the default side not found")
    if not max0:
        raise Unsupported("SlidingBoundariesArchive.index_of: np.maximum(0, idx_col - 1) not found")
    env = {"_epsilon": "eps", "_lower_bounds": "lo", "_upper_bounds": "hi"}
    x = arith(clip.args[0], {"measures": "m"}, env)
    lo = arith(clip.args[1], {}, env)
    hi = arith(clip.args[2], {}, env)
    return ("Definition gen_sb_clipped (lo hi eps m : Q) : Q := clipQ %s %s %s.\n" % (lo, hi, x)), ast.dump(clip)


def translate(repo=None):
    repo = repo or REPO
    g, hg = grid(ast.parse(open(os.path.join(repo, SRC_G)).read()))
    s, hs = sliding(ast.parse(open(os.path.join(repo, SRC_S)).read()))
    text = ("(** GENERATED by harness/py2v_grid.py from the current pyribs source (%s: GridArchive.index_of; %s:\n"
            "    SlidingBoundariesArchive.index_of) on every run -- do not edit.  Refine/GridRefine.v ties these to Model/Grid.v and\n"
            "    Model/SlidingIndex.v. *)\nFrom Coq Require Import ZArith QArith.\nFrom PV Require Import Model.Grid.\nOpen Scope Q_scope.\n\n%s\n%s"
            % (SRC_G, SRC_S, g, s))
    return text, hashlib.sha256((hg + hs).encode()).hexdigest()


def generate():
    st = {"ok": False, "error": None, "written": False, "sha": None}
    try:
        text, st["sha"] = translate()
        st["ok"] = True
    except Unsupported as e:
        st["error"] = str(e)
        return st
    except Exception as e:  # noqa
        st["error"] = repr(e)
        return st
    text_r = ("(** GENERATED by harness/py2v_grid.py from the current pyribs source (%s: GridArchive.index_of) on every run -- do not edit.\n"
              "    The raw index expression read over R with one rounding per arithmetic operation, in the source's evaluation order;\n"
              "    Refine/GridRoundRefine.v ties it to Model/GridRound.v. *)\nFrom Coq Require Import Reals.\nOpen Scope R_scope.\n\n"
              "Definition gen_grid_raw_r (rs rm ra rq : R -> R) (D lo eps w m : R) : R := %s.\n" % (SRC_G, RAW_R))
    try:
        for path, body in ((OUT, text), (OUT_R, text_r)):
            old = open(path).read() if os.path.exists(path) else None
            if old != body:
                os.makedirs(os.path.dirname(path), exist_ok=True)
                tmp = path + ".tmp%d" % os.getpid()
                with open(tmp, "w") as f:
                    f.write(body)
                os.replace(tmp, path)
                st["written"] = True
    except OSError as e:
        st["ok"], st["error"] = False, "cannot write %s: %r" % (OUT, e)
    return st


STATUS = generate()


def report(rep):
    rep.extra["source_fragments"] = {"translator": "harness/py2v_grid.py", "source": [SRC_G, SRC_S], "ok": STATUS["ok"], "sha256_of_ast": STATUS["sha"],
                                     "refinement": "coq/Refine/GridRefine.v, coq/Refine/GridRoundRefine.v"}
    if not STATUS["ok"]:
        rep.violation("the translator cannot read the current source of GridArchive.index_of / SlidingBoundariesArchive.index_of any more (fail-closed): %s" % STATUS["error"],
                      {"kind": "translation", "broken": "harness/py2v_grid.py", "error": STATUS["error"]}, False, {"kind": "translation"})


if __name__ == "__main__":
    print(STATUS)
    print(open(OUT).read() if STATUS["ok"] else "")
