"""C04 correspondence: real ribs.schedulers.Scheduler (spy emitters on the public EmitterBase, spy archives as public
subclasses of GridArchive / ProximityArchive) vs the extracted Scheduler model, on random call programs."""
import py2v_proto
import py2v_sched
import copy
import json
import os
import random
import warnings

import numpy as np

import c04_util as U

CONFIG = {
    "source_ties": 'Since round 8 also tied statically: harness/py2v_sched.py re-reads Scheduler._add_to_archives and the routing loops of tell / tell_dqd on every run (Refine/SchedRefine.v).',
    "cone": ["Base/ListUtil.v", "Base/SliceUtil.v", "Model/Store.v", "Model/Scheduler.v", "Proofs/SchedulerProofs.v",
             "Generated/ProtoGen.v", "Refine/ProtoRefine.v", "Properties/C04.v",
             "Model/SchedFacts.v", "Generated/SchedGen.v", "Refine/SchedRefine.v"],
    "extra_property_files": ["Refine/ProtoRefine.v", "Refine/SchedRefine.v"],
    "trusted": ["harness/py2v_proto.py: fail-closed extractor of the ask/tell protocol table (guard on _last_called evaluated first, state assigned right "
                "after it) of Scheduler and BanditScheduler into Generated/ProtoGen.v on every run; Refine/ProtoRefine.v proves the models follow it",
                "Model/Scheduler.v abstracts emitters (scripted answers, recorded arguments) and archives (list of accepted "
                "insertion calls; the add feedback and validation failures are oracle inputs taken from the real archive)",
                "candidate ids are encoded redundantly into every field by harness/c04_util.py; its decoder flags torn rows"],
    "level_text": "Theorems in coq/Properties/C04.v quantify over every number of emitters, every per-emitter batch size (0 "
                  "included, changing between iterations), every set of fields (None columns included), both add modes, with "
                  "and without result archive, and every sequence of ask / ask_dqd / tell / tell_dqd calls of the Scheduler "
                  "model: ask returns the concatenation in emitter order; the pos:end slices partition every field, the "
                  "Jacobian and the add feedback, and each emitter is handed exactly the rows it generated; every row is "
                  "inserted exactly once and in order (one add in batch mode, one add_single per row in single mode, same "
                  "for the result archive); the accepted call language is exactly the prefixes of (ask tell | ask_dqd "
                  "tell_dqd)* and every other call returns RuntimeError with the whole state unchanged. The model is tied to "
                  "ribs/schedulers/_scheduler.py by a differential run against the real Scheduler on every run.",
    "level_note": "The clause 'single and batch leave identical contents for elitist archives' is a property of the archive "
                  "(C01 batching invariance), not of the routing; here it is checked differentially on real GridArchives in "
                  "both modes by the harness only. Trusted: Coq kernel; extraction + OCaml driver; the hand-written model "
                  "(tied by sampling); harness generators/canonicalisers. No axioms.",
    "technique": "Rocq/Coq proof over an executable Gallina model + model-vs-implementation correspondence run",
    "design_ref": "DESIGN.md section 5, C04",
}

ARCHIVES = ["grid", "grid", "grid_mae", "proximity", "proximity_lc"]


# ----------------------------------------------------------------------------------------------------------
def evaluate(i, salt, ncell):
    """deterministic 'evaluation' of candidate i: (cell, quality)"""
    return ((i * 7 + salt) % ncell, (i * 13 + salt // 7) % ncell), (i * 5 + salt) % 4


def gen_case(rng, tier, wide=False):
    """wide: one round with more than a thousand rows in total (a scheduler that inserts a round in pieces must still hand every
    emitter the feedback of ONE archive.add on the whole round)"""
    kind = rng.choice(ARCHIVES)
    extra = rng.choice([[], [], ["tag"], ["vec", "tag"], ["tag", "vec"]])
    n_em = rng.choice([1, 2, 2, 3, 3, 4, 5, 6])
    case = {
        "archive": kind, "extra": extra, "mode": rng.choice(["batch", "single"]), "result": rng.random() < 0.5,
        "emitters": [rng.choice(["dqd", "dqd", "plain"]) for _ in range(n_em)],
        "objective_none": kind == "proximity" and rng.random() < 0.6,
        "ncell": rng.choice([1, 2, 3, GRID_ALL]),
    }
    if rng.random() < 0.3:
        case["wrap"] = rng.choice(["series", "series", "list"])
    if rng.random() < 0.3:
        case["relay"] = rng.choice([1, 2, 3, 5])
    if case["result"] and kind == "grid" and rng.random() < 0.4:      # (not the CMA-MAE kinds: their float32 thresholds differ from the float64 replay)
        case["narrow_main"] = True
    nops = rng.randint(4, 14 if tier == "quick" else 30)
    ops, phase, next_id = [], None, 1
    p_illegal = rng.choice([0.0, 0.3, 0.3, 0.45])
    if wide:
        case["mode"], nops, p_illegal = "batch", 4, 0.0
    while len(ops) < nops:
        legal = {None: ["ask", "ask_dqd"], "ask": ["tell"], "ask_dqd": ["tell_dqd"]}[phase]
        if rng.random() < p_illegal:
            name = rng.choice([c for c in ("ask", "ask_dqd", "tell", "tell_dqd") if c not in legal])
        else:
            name = rng.choice(legal)
        if name in ("ask", "ask_dqd"):
            style = rng.random()
            sizes = []
            for _ in range(n_em):
                if wide:
                    sizes.append(rng.choice([300, 450, 700]) if len(sizes) < 3 else rng.choice([0, 1, 5]))
                elif style < 0.15:
                    sizes.append(0)
                elif style < 0.3:
                    sizes.append(rng.choice([0, 1]))
                else:
                    sizes.append(rng.choice([0, 0, 1, 1, 2, 3, 4, 7]))
            rows = []
            for s in sizes:
                rows.append(list(range(next_id, next_id + s)))
                next_id += s
            ops.append([name, rows])
            if name in legal:
                phase = name
        else:
            mal = None
            r = rng.random()
            if r < 0.10:
                mal = ["badlen", rng.randrange(2 + len(extra)), rng.choice([-1, 1, 2])]
            elif r < 0.20:
                mal = ["nan", rng.randrange(8)]
            elif r < 0.27 and name == "tell_dqd":
                mal = ["jaclen", rng.choice([-1, 1])]
            ops.append([name, rng.randrange(1000), mal])
            if name in legal:
                phase = None
    case["ops"] = ops
    return case


GRID_ALL = U.GRID


# ----------------------------------------------------------------------------------------------------------
def build(case, mode=None):
    from ribs.schedulers import Scheduler
    Spy = U.make_spy_emitter_class()
    # narrow_main: a float32 search archive next to a float64 result archive (the told float64 values must reach the result archive as they are)
    arch = U.make_spy_archive(case["archive"], case["extra"], dtype=np.float32 if (case.get("narrow_main") and case["result"]) else None)
    res = U.make_spy_archive("grid" if case["archive"].startswith("grid") else case["archive"], case["extra"]) if case["result"] else None
    ems = [Spy(arch, kind=k) for k in case["emitters"]]
    for o in ems + [arch] + ([res] if res is not None else []):
        o.field_order = tuple(case["extra"])
    sch = Scheduler(arch, ems, result_archive=res, add_mode=mode or case["mode"])
    return sch, arch, res, ems


def tell_payload(case, op, cur_ids):
    """arrays handed to tell/tell_dqd, the model's columns, and the oracle's failure index"""
    name, salt, mal = op
    n = len(cur_ids)
    ev = [evaluate(i, salt, case["ncell"]) for i in cur_ids]
    cols = {"objective": None if case["objective_none"] else list(cur_ids), "measures": list(cur_ids)}
    for f in case["extra"]:
        cols[f] = list(cur_ids)
    order = ["objective", "measures"] + list(case["extra"])
    fail, jac_ids = None, list(cur_ids)
    if mal and mal[0] == "badlen":
        f = order[mal[1] % len(order)]
        if cols[f] is None:
            f = "measures"
        d = mal[2]
        if d < 0 and n == 0:
            d = 1
        cols[f] = (cols[f] + [cols[f][0] if cols[f] else 1] * d) if d > 0 else cols[f][:d]
    elif mal and mal[0] == "jaclen" and name == "tell_dqd":
        d = mal[1] if not (mal[1] < 0 and n == 0) else 1
        jac_ids = jac_ids + [jac_ids[0] if jac_ids else 1] * d if d > 0 else jac_ids[:d]
    meta = {i: e for i, e in zip(cur_ids, ev)}

    def arr(f):
        ids = cols[f]
        if ids is None:
            return None
        evs = [meta.get(i, ((0, 0), 0)) for i in ids] if len(ids) <= n else [meta.get(i, ((0, 0), 0)) for i in ids]
        if f == "objective":
            return U.enc_objective(ids, [e[1] for e in evs])
        if f == "measures":
            return U.enc_measures(ids, [e[0] for e in evs])
        return U.enc_tag(ids) if f == "tag" else U.enc_vec(ids)
    arrays = {f: arr(f) for f in order}
    if case.get("narrow_main") and case["result"] and arrays.get("objective") is not None:
        arrays["objective"] = arrays["objective"] + 2.0 ** -30      # not a float32 value (the id is still the integer part modulo QSCALE)
    lens_fine = all(c is None or len(c) == n for c in cols.values()) and len(jac_ids) == n
    if mal and mal[0] == "nan" and n > 0 and lens_fine:
        k = mal[1] % n
        # non-finite, or (float32 search archive) finite but beyond float32: the search archive rejects the row either way
        arrays["measures"][k, 1] = 1e39 if (case.get("narrow_main") and case["result"] and salt % 2 == 1) else np.nan
        fail = k
    return arrays, U.enc_jacobian(jac_ids), [U.col(cols[f]) for f in order], jac_ids, fail, meta


def decoy_ask(n_emitters, name):
    """another, unrelated scheduler (its own archive and emitters, other batch sizes) asks between this scheduler's ask and tell: what a
    scheduler remembers about a round is its own, not its class's"""
    from ribs.schedulers import Scheduler
    try:
        Spy = U.make_spy_emitter_class()
        arch = U.make_spy_archive("grid", [])
        ems = [Spy(arch, kind="dqd") for _ in range(n_emitters + 1)]
        nid = 900000
        for j, e in enumerate(ems):
            e.script = list(range(nid, nid + j + 2))
            nid += j + 2
        getattr(Scheduler(arch, ems), name)()
    except Exception:  # noqa   (whatever the decoy does is its own business)
        pass


def run_impl(case, mode=None):
    """Runs the program on the real Scheduler.  Returns dict(outs, final, mops, meta, contents, disturbed)."""
    sch, arch, res, ems = build(case, mode)
    outs, mops, meta = [], [], {}
    cur_ids, disturbed = [], None
    with warnings.catch_warnings():
        warnings.simplefilter("ignore")
        for k, op in enumerate(case["ops"]):
            name = op[0]
            if case.get("relay") and k and k % case["relay"] == 0:
                # checkpoint / resume: a deep copy of the whole scheduler (emitters, archives) continues exactly like the original,
                # between iterations as well as between ask and tell
                sch = copy.deepcopy(sch)
                arch, ems = sch.archive, list(sch.emitters)
                res = sch.result_archive if res is not None else None
                if res is not None and res is arch:
                    res = None      # reported below: the copy lost its result archive
                    meta["lost_result_archive"] = True
            before = None
            snap = ([len(e.log) for e in ems], len(arch.calls), len(res.calls) if res is not None else None,
                    U.archive_contents(arch), U.archive_contents(res) if res is not None else None)
            nfb = len(arch.feedback)
            if name in ("ask", "ask_dqd"):
                for e, ids in zip(ems, op[1]):
                    e.script = list(ids)
                try:
                    sols = getattr(sch, name)()
                    decoy_ask(len(ems), name)
                    ids = U.dec_field("solution", sols)
                    r = [0, ids]
                    cur_ids = [i for i in ids if isinstance(i, int)]
                    if np.asarray(sols).shape != (len(ids), U.SOL_DIM):
                        r = ["bad-shape", list(np.asarray(sols).shape)]
                except Exception as e:  # noqa
                    r = [U.err_code(e)]
                resp = [list(ids) if (name == "ask" or kd == "dqd") else [] for ids, kd in zip(op[1], case["emitters"])]
                mops.append([0 if name == "ask" else 1, resp])
            else:
                arrays, jac, cols, jac_ids, fail, m = tell_payload(case, op, cur_ids)
                if case.get("wrap"):
                    # array-likes other than ndarrays: plain lists, or pandas Series whose integer LABELS are a permutation of the positions
                    # (row i of every argument belongs to solution i by POSITION)
                    wr = random.Random(k * 7919 + len(cur_ids))
                    for f in list(arrays):
                        a_ = arrays[f]
                        if isinstance(a_, np.ndarray) and a_.ndim == 1 and a_.dtype != object:
                            if case["wrap"] == "series":
                                import pandas as pd
                                lab = list(range(len(a_)))
                                wr.shuffle(lab)
                                arrays[f] = pd.Series(a_, index=lab)
                            else:
                                arrays[f] = a_.tolist()
                try:
                    if name == "tell":
                        sch.tell(arrays["objective"], arrays["measures"], **{f: arrays[f] for f in case["extra"]})
                    else:
                        sch.tell_dqd(arrays["objective"], arrays["measures"], jac, **{f: arrays[f] for f in case["extra"]})
                    r = [0]
                except Exception as e:  # noqa
                    r = [U.err_code(e)]
                if r != [3]:
                    meta.update(m)
                if r == [0] and res is not None and case.get("narrow_main") and arrays.get("objective") is not None:
                    nres = snap[2]      # result-archive calls before this tell
                    got = [v for call in res.raw_objectives[nres:] if call is not None for v in call]
                    want = [float(x) for x in np.asarray(arrays["objective"], dtype=np.float64)]
                    if got != want and "values_changed" not in meta:
                        meta["values_changed"] = {"op": k, "told": want[:6], "result_archive_received": got[:6]}
                fbs = [row for call in arch.feedback[nfb:] for row in call]
                fl = [] if fail is None else [fail]
                mops.append([2, cols, fbs, fl] if name == "tell" else [3, cols, jac_ids, fbs, fl])
            sizes = [[len(e.log) for e in ems], len(arch.calls), [len(res.calls)] if res is not None else []]
            outs.append([r, sizes])
            if r == [3] or r == [7]:
                after = ([len(e.log) for e in ems], len(arch.calls), len(res.calls) if res is not None else None,
                         U.archive_contents(arch), U.archive_contents(res) if res is not None else None)
                if after != snap and disturbed is None:
                    disturbed = k
    final = [[e.log for e in ems], arch.calls, [res.calls] if res is not None else []]
    return {"outs": outs, "final": final, "mops": mops, "meta": meta, "disturbed": disturbed, "feedbacks": list(arch.feedback),
            "contents": [U.archive_contents(arch), U.archive_contents(res) if res is not None else None]}


def model_input(case, mops):
    return [len(case["emitters"]), case["mode"] == "single", bool(case["result"]), mops]


def canon_model(mout):
    outs = [[o[0], o[1][:3]] for o in mout[0]]
    fin = mout[1]
    return outs, [fin[0], fin[1], fin[2]]


def replay_events(case, events, meta, kind, frac=0.0):
    """interprets the model's list of insertion calls on a fresh real archive of the same configuration"""
    a = U.make_spy_archive(kind, case["extra"])
    order = ["objective", "measures"] + list(case["extra"]) + ["solution"]

    def arrays(colmap):
        out = {}
        for f, ids in colmap.items():
            if ids is None:
                out[f] = None
                continue
            evs = [meta.get(i, ((0, 0), 0)) for i in ids]
            out[f] = {"objective": lambda: U.enc_objective(ids, [e[1] for e in evs]) + frac,
                      "measures": lambda: U.enc_measures(ids, [e[0] for e in evs]),
                      "tag": lambda: U.enc_tag(ids), "vec": lambda: U.enc_vec(ids),
                      "solution": lambda: U.enc_solution(ids)}[f]()
        return out
    with warnings.catch_warnings():
        warnings.simplefilter("ignore")
        for ev in events:
            if ev[0] == 0:
                cm = {f: (c[0] if c else None) for f, c in zip(order, ev[1])}
                a.add(**arrays(cm))
            else:
                cm = {f: ([c[0]] if c else None) for f, c in zip(order, ev[1])}
                ar = arrays(cm)
                a.add_single(**{f: (None if v is None else v[0]) for f, v in ar.items()})
    return U.archive_contents(a)


def compare(case, driver):
    """None when model and implementation agree, else a dict describing the first disagreement"""
    im = run_impl(case)
    mo_outs, mo_fin = canon_model(driver.call("C04", model_input(case, im["mops"])))
    if len(mo_outs) != len(im["outs"]):
        return {"what": "model stopped early", "model": mo_outs, "impl": im["outs"]}
    for k, (m, i) in enumerate(zip(mo_outs, im["outs"])):
        if m != i:
            return {"step": k, "op": case["ops"][k], "model": m, "impl": i}
    if im["disturbed"] is not None:
        return {"step": im["disturbed"], "op": case["ops"][im["disturbed"]], "what": "a rejected call changed an archive or an emitter"}
    if "values_changed" in im["meta"]:
        vc = im["meta"]["values_changed"]
        return {"step": vc["op"], "op": case["ops"][vc["op"]], "what": "the result archive did not receive the objective values that were told (float64 values, "
                "float32 search archive): told %s, received %s" % (vc["told"], vc["result_archive_received"])}
    names = ["emitter logs", "archive insertion calls", "result archive insertion calls"]
    for nm, m, i in zip(names, mo_fin, im["final"]):
        if m != i:
            if nm == "emitter logs":
                for e, (lm, li) in enumerate(zip(m, i)):
                    if lm != li:
                        j = next((x for x in range(min(len(lm), len(li))) if lm[x] != li[x]), min(len(lm), len(li)))
                        return {"what": nm, "emitter": e, "event": j, "model": lm[j] if j < len(lm) else None,
                                "impl": li[j] if j < len(li) else None}
            return {"what": nm, "model": m, "impl": i}
    # the abstract archive (list of accepted insertion calls) against the real contents
    kind = case["archive"]
    ref = replay_events(case, mo_fin[1], im["meta"], kind)
    if ref != im["contents"][0]:
        return {"what": "archive contents differ from the model's insertion calls replayed on a fresh archive",
                "model": ref, "impl": im["contents"][0]}
    if case["result"]:
        ref = replay_events(case, mo_fin[2][0], im["meta"], "grid" if kind.startswith("grid") else kind,
                            frac=2.0 ** -30 if (case.get("narrow_main") and case["result"]) else 0.0)
        if ref != im["contents"][1]:
            return {"what": "result archive contents differ from the model's insertion calls replayed on a fresh archive",
                    "model": ref, "impl": im["contents"][1]}
    return None


def modes_agree(case):
    """C04_modes_agree on real elitist GridArchives: same program, both add modes, identical contents"""
    if case["archive"] != "grid" or any(o[0].startswith("tell") and o[2] and o[2][0] == "nan" for o in case["ops"]):
        return None
    a = run_impl(case, "batch")["contents"]
    b = run_impl(case, "single")["contents"]
    if a != b:
        return {"what": "add_mode single and batch leave different contents in an elitist archive", "batch": a, "single": b}
    return None


# ----------------------------------------------------------------------------------------------------------
def oracle(case):
    """C04's own statement checked directly on the implementation's observables (no model)."""
    im = run_impl(case)
    n_em = len(case["emitters"])
    phase, pending, cur = None, None, []
    exp_logs = [[] for _ in range(n_em)]
    exp_calls, exp_rcalls = [], []
    logs_at, calls_at = [0] * n_em, 0
    fb_pos = 0
    sch_logs, arch_calls, rcalls = im["final"]
    rcalls = rcalls[0] if rcalls else None
    for k, (op, (r, sizes)) in enumerate(zip(case["ops"], im["outs"])):
        name = op[0]
        legal = {None: ["ask", "ask_dqd"], "ask": ["tell"], "ask_dqd": ["tell_dqd"]}[phase]
        if name not in legal:
            if r != [3]:
                return "op %d: out-of-order %s after %s did not raise RuntimeError (got %s)" % (k, name, phase, r)
            if sizes[0] != logs_at or sizes[1] != calls_at:
                return "op %d: rejected %s disturbed an emitter or the archive" % (k, name)
            continue
        if name in ("ask", "ask_dqd"):
            resp = [list(ids) if (name == "ask" or kd == "dqd") else [] for ids, kd in zip(op[1], case["emitters"])]
            want = [i for ids in resp for i in ids]
            if r != [0, want]:
                return "op %d: %s returned %s, the emitters generated %s (concatenation in emitter order)" % (k, name, r, resp)
            pending, cur, phase = resp, want, name
            logs_at = [x + 1 for x in logs_at]
            if sizes[0] != logs_at:
                return "op %d: not every emitter was asked exactly once" % k
            continue
        # a tell in order
        phase = None
        _, _, cols, jac_ids, fail, _ = tell_payload(case, op, cur)
        n = len(cur)
        bad = any(c and len(c[0]) != n for c in cols) or (name == "tell_dqd" and len(jac_ids) != n)
        if bad:
            if r != [1] or sizes[0] != logs_at or sizes[1] != calls_at:
                return "op %d: %s with a wrong-length argument: expected ValueError and nothing touched, got %s" % (k, name, r)
            continue
        ins = n if fail is None else (0 if case["mode"] == "batch" else fail)
        new_calls = arch_calls[calls_at:sizes[1]]
        got_rows = []
        for c in new_calls:
            sol = c[1][-1]
            got_rows += (sol[0] if c[0] == 0 else sol) if sol else []
        if case["mode"] == "batch":
            shape_ok = (len(new_calls) == (1 if fail is None else 0)) and all(c[0] == 0 for c in new_calls)
        else:
            shape_ok = len(new_calls) == ins and all(c[0] == 1 for c in new_calls)
        if not shape_ok or got_rows != cur[:ins]:
            return "op %d: %s inserted rows %s with %d %s call(s); every row must be inserted exactly once, in order: %s" % (
                k, name, got_rows, len(new_calls), case["mode"], cur[:ins])
        for c in new_calls:   # every field of an inserted row carries the same candidate
            for colv in c[1]:
                ids = (colv[0] if c[0] == 0 else colv) if colv else None
                sol = c[1][-1][0] if c[0] == 0 else c[1][-1]
                if ids is not None and ids != sol:
                    return "op %d: insertion call mixes candidates: %s vs solutions %s" % (k, ids, sol)
        if rcalls is not None:
            rn = rcalls[(sizes[2][0] - len(new_calls)):sizes[2][0]]
            if [c[1] for c in rn] != [c[1] for c in new_calls] or sizes[2][0] - len(new_calls) < 0:
                return "op %d: the result archive did not receive the same insertion calls as the archive" % k
        calls_at = sizes[1]
        if fail is not None:
            if r != [1] or sizes[0] != logs_at:
                return "op %d: archive rejected the batch; expected ValueError and no emitter told, got %s" % (k, r)
            continue
        if r != [0]:
            return "op %d: valid %s raised %s" % (k, name, r)
        # feedback the archive returned for this batch, row-wise
        fb = [row for call in im["feedbacks"][calls_at - len(new_calls):calls_at] for row in call]
        pos = 0
        for e in range(n_em):
            ne = len(pending[e])
            if sizes[0][e] != logs_at[e] + 1:
                return "op %d: emitter %d was told %d times" % (k, e, sizes[0][e] - logs_at[e])
            ev = sch_logs[e][logs_at[e]]
            mine = pending[e]
            if ev[0] != 1 or ev[1] != int(name == "tell_dqd"):
                return "op %d: emitter %d got the wrong call %s" % (k, e, ev[:2])
            data, jac, info = ev[2]
            for ci, c in enumerate(data):
                want = None if (ci == 0 and case["objective_none"]) else mine
                got = c[0] if c else None
                if got != want:
                    return "op %d: emitter %d generated %s but was handed %s in field #%d" % (k, e, mine, got, ci)
            if name == "tell_dqd" and (not jac or jac[0] != mine):
                return "op %d: emitter %d generated %s but was handed jacobian rows %s" % (k, e, mine, jac)
            if info != fb[pos:pos + ne]:
                return "op %d: emitter %d was handed add feedback %s, its rows' feedback is %s" % (k, e, info, fb[pos:pos + ne])
            pos += ne
        logs_at = [x + 1 for x in logs_at]
    if im["disturbed"] is not None:
        return "op %d: a rejected call changed archive contents" % im["disturbed"]
    return None


def oracle_safe(case):
    try:
        return oracle(case)
    except Exception as e:  # noqa
        return "oracle crashed: %r" % (e,)


def nontrivial(case):
    """>= 2 emitters asked with unequal non-zero sizes and a zero-size slice in one told iteration, plus an illegal call"""
    phase, good, illegal, pend = None, False, False, None
    for op in case["ops"]:
        legal = {None: ["ask", "ask_dqd"], "ask": ["tell"], "ask_dqd": ["tell_dqd"]}[phase]
        if op[0] not in legal:
            illegal = True
            continue
        if op[0] in ("ask", "ask_dqd"):
            phase = op[0]
            pend = [len(ids) if (op[0] == "ask" or kd == "dqd") else 0 for ids, kd in zip(op[1], case["emitters"])]
        else:
            phase = None
            nz = sorted(set(x for x in pend if x))
            if len(nz) >= 2 and 0 in pend and not op[2]:
                good = True
    return good and illegal


def shrink(case, fails):
    ops = list(case["ops"])
    changed = True
    while changed and len(ops) > 1:
        changed = False
        for k in range(len(ops)):
            cand = dict(case, ops=ops[:k] + ops[k + 1:])
            if fails(cand):
                ops = cand["ops"]
                changed = True
                break
    case = dict(case, ops=ops)
    # fewer rows per ask
    for k, op in enumerate(case["ops"]):
        if op[0] in ("ask", "ask_dqd"):
            for e in range(len(op[1])):
                while op[1][e]:
                    cand = copy.deepcopy(case)
                    cand["ops"][k][1][e] = cand["ops"][k][1][e][:-1]
                    if fails(cand):
                        case = cand
                        op = case["ops"][k]
                    else:
                        break
    for key, val in (("result", False), ("extra", []), ("objective_none", False)):
        if case[key] != val:
            cand = dict(case, **{key: val})
            if fails(cand):
                case = cand
    return case


def check(rep, tier, seed, driver):
    py2v_proto.report(rep)
    py2v_sched.report(rep)
    from common import CORPUS
    rng = random.Random(seed)
    n = 260 if tier == "quick" else 4000
    rep.rule = ("random programs over {ask, ask_dqd, tell, tell_dqd} (0-45% out-of-order calls) on a real Scheduler with 1-6 "
                "scripted spy emitters (DQD and plain mixed, batch sizes 0..7 changing every iteration), GridArchive / CMA-MAE "
                "GridArchive / ProximityArchive (objective=None) with and without local competition, 0-2 extra fields, both "
                "add modes, with/without result archive; malformed tells (wrong-length field or jacobian, NaN row rejected by "
                "the archive). A program is non-trivial when some accepted, well-formed tell follows an ask in which >= 2 "
                "emitters produced different non-zero batch sizes and one produced 0 rows, AND it contains an out-of-order call.")
    cases = []
    cdir = os.path.join(CORPUS, "C04")
    if os.path.isdir(cdir):
        for f in sorted(os.listdir(cdir)):
            cases.append(json.load(open(os.path.join(cdir, f))))
    rep.count("corpus_cases", len(cases))
    cases += [gen_case(rng, tier) for _ in range(n)]
    for _ in range(2 if tier == "quick" else 8):
        wc = gen_case(rng, tier, wide=True)
        while len(wc["emitters"]) < 3 or wc["archive"].startswith("proximity"):
            wc = gen_case(rng, tier, wide=True)
        cases.append(wc)
        rep.count("wide_round_cases")
    n_modes = 0
    for case in cases:
        rep.count("archive_" + case["archive"])
        rep.count("mode_" + case["mode"])
        rep.count("result_archive" if case["result"] else "no_result_archive")
        rep.count("emitters_%d" % len(case["emitters"]))
        if case["objective_none"]:
            rep.count("objective_none")
        for o in case["ops"]:
            rep.count("op_" + o[0])
            if o[0].startswith("tell") and o[2]:
                rep.count("malformed_" + o[2][0])
            if o[0].startswith("ask"):
                rep.count("asked_rows_total", sum(len(x) for x in o[1]))
                rep.count("asked_empty_emitter", sum(1 for x in o[1] if not x))
        try:
            d = compare(case, driver)
        except Exception as e:  # noqa
            import traceback
            d = {"harness_exception": repr(e), "trace": traceback.format_exc()[-1500:]}
        if d is None:
            d = modes_agree(case)
            if case["archive"] == "grid":
                n_modes += 1
        nt = nontrivial(case)
        rep.case(case, nt, sample=case if nt else None)
        if d is not None:
            def fails(c):
                try:
                    return (compare(c, driver) or modes_agree(c)) is not None
                except Exception:  # noqa
                    return False
            small = shrink(case, fails) if "harness_exception" not in d else case
            try:
                d2 = compare(small, driver) or modes_agree(small) or d
            except Exception:  # noqa
                d2 = d
            orc = oracle_safe(small) or oracle_safe(case)
            if orc is None and d2.get("what", "").startswith("add_mode single and batch"):
                orc = d2["what"]
            rep.violation("Scheduler and the Scheduler model disagree" + (": " + orc if orc else ""),
                          {"kind": "correspondence", "broken": "Model/Scheduler.v vs ribs/schedulers/_scheduler.py", "case": small,
                           "disagreement": d2, "oracle": orc,
                           "theorems_at_stake": ["C04_ask_concat", "C04_tell_routes", "C04_ask_tell_roundtrip", "C04_inserted_once_batch",
                                                 "C04_inserted_once_single", "C04_protocol_step", "C04_protocol_language"]},
                          orc is not None, {"kind": "correspondence"})
            if len(rep.violations) >= 3:
                break
    rep.count("modes_agree_checked", n_modes)


def replay(rp, driver):
    case = rp["case"]
    d = compare(case, driver) or modes_agree(case)
    print("replay C04:", "still disagrees: %s" % json.dumps(d, default=str)[:600] if d else "no disagreement any more")
    print("oracle:", oracle_safe(case))
    return 1 if d else 0
